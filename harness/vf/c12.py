"""C12: inventory aggregation is a homomorphism; the running balance is the prefix sum.

Correspondence: generated multi-currency ledgers (lots at cost with dates and labels,
sales reducing lots, FIFO/LIFO reductions, FX, price directives in both directions) are
written under /tmp/C12/, loaded with beanquery.connect('beancount:<file>') (fresh
connection per ledger, queries run serially) and queried; every inventory in every
result is compared - position by position, in dict iteration order, numbers exactly by
numeric value - with Model/Inventory.v + Model/Balance.v evaluated by vm_compute on the
postings read back with beancount.loader (independently of beanquery) and on selections
computed by the harness.  Plus implementation-only conservation checks (f(sum) = sum(f),
group sums add up to the total, last balance = sum(position)), a direct validation of
the Inventory model against beancount.core.inventory.Inventory, and the property-text
checks that expose lazy evaluation of `balance` (first(balance), `x AND empty(balance)`)."""
import datetime
import decimal
import hashlib
import os
import re
import shutil
from fractions import Fraction

from . import core, impl
from .core import cZ, clist, copt, cbool, cpair
from .shrink import ddmin_batch

D = decimal.Decimal
TMP = '/tmp/C12'

# fixed-point scales (decimal digits): units/amount numbers, per-unit cost numbers, rates
A_SC, B_SC, C_SC = 12, 6, 8

ASSUMPTIONS = [
    'tie by translation, group envledger (C12_source_units .. C12_source_getprice, Gen/SrcEnvLedger.v): the reducers convert.get_units/get_cost/get_value/convert_amount/convert_position, Inventory.reduce and prices.get_price are the primitives of Model/PrimsEnvLedger.v (= Model/Inventory.v over an arbitrary price function); currencies are interned, str.upper on a currency is an abstract function; context.tables[\'prices\'].price_map is a parameter of the translated functions; the PyMini interpreter is the trusted semantics of the Python fragment',
    'beancount.core.inventory.Inventory, beancount.core.convert and the price map (prices.get_price) are Beancount code: '
    'modelled in Model/Inventory.v (price lookup abstract: a table computed with prices.get_price itself), validated by this '
    'correspondence, not verified',
    'numbers are exact scaled integers in the model and compared with the implementation Decimals by numeric value; the '
    'Decimal exponent (1.0 vs 1.00) and the 28-digit context rounding are not modelled: generated ledgers stay below 28 '
    'digits and use only rates whose inverses terminate (the harness fails loudly if a number is not exactly representable)',
    'postings fed to the model are read with beancount.loader.load_file (loader/booking upstream of the tables belong to C11); '
    'the truth values of balance-free WHERE/FROM conditions and the group keys are computed by the harness from these postings',
    'queries of one process run serially; the balance memo lives on the Row since fix 960d829 (thread interleavings: C20)',
    'translator tie (C12_source_balance, C12_source_row_init): PyMini semantics (Model/PyMini.v), the translator '
    '(py2mini.py, src_ledger.py; the accessor parameter `context` is the receiver) and the primitives of '
    'Model/PrimsLedger.v are trusted: Inventory.add_position = Model/Inventory.add_position on the encoded inventory '
    'and position (what add_position reads of a posting: units.number, units.currency, cost), copy.copy = identity on '
    'values, Inventory() = empty; the attribute set of a fresh Row is checked against the encoding on every run',
    'tie by translation, group agginv (C12_source_sum_*, Gen/SrcAggInv.v; src_agginv.py): SumAmount / SumPosition / '
    'SumInventory and the EvalAggregator methods they inherit (live MRO). NO-ALIASING assumption (rule A10): '
    '`store[self.handle].add_amount/add_position/add_inventory(value)` is translated as read the slot - apply the method '
    'to that value - write it back, i.e. the Inventory in the slot is assumed reachable only through the store slot (not '
    'an argument object, a table row\'s object, another slot or group). PyMini has value semantics, so the tie CANNOT see '
    'aliasing: an aggregator that adopts an incoming Inventory as its accumulator computes the same values in the model; it '
    'is caught because its source no longer has the translated shape (the proofs are about the generated term) and by the '
    'correspondence streams that re-read the inputs after aggregation (kind "input-mutated": a user table re-read after the query; first()/last() next '
    'to sum()). Inventory.add_amount / add_position / add_inventory are the primitives of Model/PrimsAggInv.v '
    '(= Model/Inventory.v on the encoded values; the methods\' return values are not modelled and the rule only admits '
    'the call as a statement); the operand is an opaque PURE callable of the row context (so `sum(balance)`, whose operand '
    'advances the Row, is covered by the balance theorems + correspondence, not by this tie); self.dtype() is assumed to '
    'return a fresh empty inventory - the generator records from a live instance of each class that dtype is '
    'beancount.core.inventory.Inventory and that calling it gives a new empty one (agginv_dtypes, checked in '
    'C12_source_sum_classes); how execute_select drives the protocol per group (run_group) is C02\'s tie (Proofs/SrcAgg.v)',
    'first / last over Inventory / Position / Amount (bld-inv2; C12_source_first_last_*, Model/FirstLast.v, Proofs/SrcAggFirstLast.v): '
    'Gen/SrcAggInv.v also carries every overload the live registry has under first / last (one each, for types.Any), what the live '
    'types.function_lookup returns for an operand of every datatype of the registry, and the translated First / Last methods; the tie is '
    'over stores whose slots hold encoded inventories / positions / amounts (enc_operand), the operand an opaque PURE callable; the value '
    'is stored as returned (no copy: aliasing of the stored inventory with the row object is invisible to value semantics and is what '
    'the input-mutated correspondence streams look for)',
    'tie by translation, only / empty / filter_currency over inventories (C12_source_only_inventory, _empty_inventory, '
    '_filter_currency_inventory; the envlx_ terms of Gen/SrcEnvLedger.v): Inventory.get_currency_units, is_empty and '
    'Inventory(iterable of positions) are the primitives of Model/PrimsInvFuncs.v (= the model functions Model/Inventory.v '
    'gained for them: total of a currency in dict order, no key, add_position one by one into an empty inventory); '
    'iterating an Inventory yields its positions in dict order, encoded as the entries of enc_inv; currencies are interned',
]

RATES = ['0.5', '2', '0.25', '4', '0.8', '1.25', '0.2', '5', '1.6', '0.625', '12.5', '0.08', '10', '0.1', '8',
         '0.125', '1', '2.5', '0.4', '16', '0.0625', '125', '0.008']
CASH = ['USD', 'EUR']
STOCK = ['HOOL', 'ACME', 'VTI']
ACCOUNTS = ['Assets:Bank', 'Assets:Broker:A', 'Assets:Broker:B', 'Liabilities:Card', 'Income:Gains', 'Income:Salary',
            'Expenses:Food', 'Expenses:Fees', 'Equity:Opening']


# --------------------------------------------------------------------------
# ledger generator

def gen_ledger(rng):
    """Returns (header_lines, blocks): blocks are dated directives (a transaction or a price), the unit of shrinking."""
    booking = rng.choice(['STRICT', 'STRICT', 'STRICT', 'FIFO', 'LIFO'])
    header = [f'option "booking_method" "{booking}"', 'option "operating_currency" "USD"']
    header += [f'2019-01-01 open {a}' for a in ACCOUNTS]
    date = datetime.date(2020, 1, 1)
    lots = []      # [account, cur, remaining Decimal, cost str, ccur, date, label]
    blocks = []
    kinds = []
    n = rng.choice([1, 2, 4, 6, 8, 12, 16, 20])
    cash_amounts = ['10', '25.50', '100', '100.00', '0.01', '1000.25', '12.345', '7']
    for _ in range(n):
        date += datetime.timedelta(days=rng.choice([0, 0, 1, 1, 2, 5, 30]))
        live = [l for l in lots if l[2] > 0]
        kind = rng.choices(['deposit', 'expense', 'refund', 'buy', 'sell', 'fx', 'price', 'zero', 'rebuy'],
                           [2, 3, 2, 5, 5 if live else 0, 2, 6, 1, 2 if lots else 0])[0]
        kinds.append(kind)
        d = date.isoformat()
        if kind == 'deposit':
            cur = rng.choice(CASH)
            blocks.append(f'{d} * "deposit"\n  Assets:Bank  {rng.choice(cash_amounts)} {cur}\n  '
                          f'{rng.choice(["Equity:Opening", "Income:Salary"])}\n')
        elif kind in ('expense', 'refund'):
            cur = rng.choice(CASH)
            amt = rng.choice(cash_amounts)
            sign = '' if kind == 'expense' else '-'
            acc = rng.choice(['Assets:Bank', 'Liabilities:Card'])
            other = f'  {acc}  {"-" if kind == "expense" else ""}{amt} {cur}' if rng.random() < 0.6 else f'  {acc}'
            blocks.append(f'{d} * "{kind}"\n  Expenses:Food  {sign}{amt} {cur}\n{other}\n')
        elif kind == 'buy':
            acc = rng.choice(['Assets:Broker:A', 'Assets:Broker:B'])
            cur = rng.choice(STOCK)
            num = rng.choice(['1', '2', '5', '10', '2.5', '0.125', '100', '10.00'])
            cost = rng.choice(['10', '10.00', '12.5', '0.5', '100.25', '7.1234', '10', '0' if rng.random() < 0.3 else '20'])
            ccur = rng.choice(['USD', 'USD', 'EUR'])
            label = rng.choice([None, None, None, 'lot-a', 'lot-b'])
            ldate = date if rng.random() < 0.8 else date - datetime.timedelta(days=rng.choice([1, 40]))
            spec = f'{cost} {ccur}' + (f', {ldate.isoformat()}' if ldate != date else '') + (f', "{label}"' if label else '')
            if any(l[0] == acc and l[1] == cur and l[6] == label and label for l in lots):
                label = None
                spec = f'{cost} {ccur}' + (f', {ldate.isoformat()}' if ldate != date else '')
            lots.append([acc, cur, D(num), cost, ccur, ldate, label])
            fee = '  Expenses:Fees  0.00 USD\n' if rng.random() < 0.15 else ''
            blocks.append(f'{d} * "buy"\n  {acc}  {num} {cur} {{{spec}}}\n{fee}  Assets:Bank\n')
        elif kind == 'rebuy':
            # same lot key (cost, date, label) as an earlier lot: merges with it, or re-creates a deleted key
            l = rng.choice(lots)
            num = rng.choice(['1', '2.5', '10'])
            spec = f'{l[3]} {l[4]}, {l[5].isoformat()}' + (f', "{l[6]}"' if l[6] else '')
            l[2] += D(num)
            blocks.append(f'{d} * "rebuy"\n  {l[0]}  {num} {l[1]} {{{spec}}}\n  Assets:Bank\n')
        elif kind == 'sell':
            l = rng.choice(live)
            m = rng.choice([l[2], l[2], l[2] / 2, min(l[2], D(1))])
            m = m.normalize() if m == m.to_integral() else m
            l[2] -= m
            if booking != 'STRICT' and rng.random() < 0.5:
                spec = ''
            else:
                spec = f'{l[3]} {l[4]}, {l[5].isoformat()}' + (f', "{l[6]}"' if l[6] else '')
            price = rng.choice(RATES + ['13', '9.5'])
            at = f' @ {price} {l[4]}' if rng.random() < 0.7 else ''
            proceeds = (m * D(price)) if at else (m * D(l[3]))
            blocks.append(f'{d} * "sell"\n  {l[0]}  -{m} {l[1]} {{{spec}}}{at}\n  Assets:Bank  {proceeds} {l[4]}\n'
                          f'  Income:Gains\n')
        elif kind == 'fx':
            a, b = rng.sample(CASH, 2)
            x = D(rng.choice(cash_amounts))
            r = D(rng.choice(RATES))
            blocks.append(f'{d} * "fx"\n  Assets:Bank  -{x} {a} @ {r} {b}\n  Assets:Bank  {x * r} {b}\n')
        elif kind == 'price':
            r = rng.random()
            if lots and r < 0.5:
                l = rng.choice(lots)        # a held commodity in its cost currency: value() and the via path of convert()
                base, quote = l[1], l[4]
            elif r < 0.75:
                base, quote = rng.choice([('USD', 'EUR'), ('EUR', 'USD')])
            else:
                base, quote = rng.choice([('HOOL', 'USD'), ('ACME', 'EUR'), ('ACME', 'USD'), ('VTI', 'USD'), ('HOOL', 'EUR')])
            blocks.append(f'{d} price {base}  {rng.choice(RATES)} {quote}\n')
        else:
            blocks.append(f'{d} * "zero"\n  Expenses:Fees  0.00 {rng.choice(CASH)}\n  Assets:Bank  0 {rng.choice(CASH)}\n')
    return header, blocks, kinds


def ledger_text(header, blocks):
    return '\n'.join(header) + '\n\n' + '\n'.join(blocks)


# --------------------------------------------------------------------------
# selections: (FROM expression, WHERE expression, predicate on (entry, posting))

def selections(rng, postings):
    dates = sorted({e.date for e, _ in postings}) or [datetime.date(2020, 1, 1)]
    mid = dates[len(dates) // 2]
    sels = [
        ('none', None, None, lambda e, p: True),
        ('account', None, "account ~ 'Broker'", lambda e, p: re.search('Broker', p.account) is not None),
        ('account', None, "account ~ 'Bank|Card'", lambda e, p: re.search('Bank|Card', p.account) is not None),
        ('currency', None, "currency = 'USD'", lambda e, p: p.units.currency == 'USD'),
        ('currency', None, "currency != 'USD'", lambda e, p: p.units.currency != 'USD'),
        ('number', None, 'number > 0', lambda e, p: p.units.number > 0),
        ('number', None, 'number < 0', lambda e, p: p.units.number < 0),
        ('date', None, f'date >= {mid.isoformat()}', lambda e, p: e.date >= mid),
        ('cost', None, "cost_currency = 'USD'", lambda e, p: p.cost is not None and p.cost.currency == 'USD'),
        ('from', f'date < {mid.isoformat()}', None, lambda e, p: e.date < mid),
        ('from+where', f'date >= {mid.isoformat()}', 'number > 0', lambda e, p: e.date >= mid and p.units.number > 0),
        ('narration', None, "narration = 'sell' OR narration = 'buy'", lambda e, p: e.narration in ('sell', 'buy')),
    ]
    return sels


def sql(targets, sel, group=None, table=None):
    _, frm, where, _ = sel
    s = f'SELECT {targets}'
    if table:
        s += f' FROM {table}'
    elif frm:
        s += f' FROM {frm}'
    if where:
        s += f' WHERE {where}'
    if group:
        s += f' GROUP BY {group}'
    return s


# --------------------------------------------------------------------------
# canonical forms

def frac_s(x):
    f = Fraction(x)
    return f'{f.numerator}/{f.denominator}'


def canon_pos(units_number, currency, cost):
    c = None
    if cost is not None:
        c = [frac_s(cost.number), cost.currency, cost.date.toordinal() if cost.date else 0, cost.label]
    return [frac_s(units_number), currency, c]


def canon_inv(inv):
    """An implementation Inventory in dict iteration order."""
    if inv is None:
        return None
    return [canon_pos(p.units.number, p.units.currency, p.cost) for p in inv]


class Interner:
    def __init__(self):
        self.ids = {}
        self.names = []

    def __call__(self, s):
        if s not in self.ids:
            self.ids[s] = len(self.names) + 1
            self.names.append(s)
        return self.ids[s]

    def name(self, i):
        return self.names[i - 1]


def scaled(x, scale, what):
    f = Fraction(x) * 10 ** scale
    if f.denominator != 1:
        raise ValueError(f'{what} {x} is not representable at scale 10^-{scale}')
    return f.numerator


def coq_pos(number, currency, cost, cur, lab):
    c = None
    if cost is not None:
        c = (f'(mkcost {cZ(scaled(cost.number, B_SC, "cost"))} {cur(cost.currency)} '
             f'{cost.date.toordinal() if cost.date else 0} {copt(lab(cost.label) if cost.label is not None else None, str)})')
    return f'(mkpos {cZ(scaled(number, A_SC, "number"))} {cur(currency)} {copt(c)})'


def decode_inv(sx, scale, cur, lab):
    out = []
    for n, c, cost in sx:
        cc = None
        if cost:
            cn, ccur, cd, cl = cost[0]
            cc = [frac_s(Fraction(cn, 10 ** B_SC)), cur.name(ccur), cd, lab.name(cl[0]) if cl else None]
        out.append([frac_s(Fraction(n, 10 ** scale)), cur.name(c), cc])
    return out


def as_map(ci):
    return sorted(ci, key=repr)


# --------------------------------------------------------------------------
# one ledger: run the implementation, build the model expression

WSHAPES = [
    ('NOT empty(balance)', '(WNot WEmptyBal)'),
    ('empty(balance)', 'WEmptyBal'),
    ('{m} AND NOT empty(balance)', '(WAnd WMask (WNot WEmptyBal))'),
    ('NOT empty(balance) AND {m}', '(WAnd (WNot WEmptyBal) WMask)'),
    ('{m} OR empty(balance)', '(WOr WMask WEmptyBal)'),
    ('empty(balance) OR {m}', '(WOr WEmptyBal WMask)'),
    ('NOT ({m} AND empty(balance))', '(WNot (WAnd WMask WEmptyBal))'),
    ('({m} OR NOT empty(balance)) AND NOT ({m} AND empty(balance))',
     '(WAnd (WOr WMask (WNot WEmptyBal)) (WNot (WAnd WMask WEmptyBal)))'),
]

TARGET_LISTS = [
    ('balance', ['TBalance']),
    ('balance, balance', ['TBalance', 'TBalance']),
    ('balance, position, balance, balance', ['TBalance', 'TOther', 'TBalance', 'TBalance']),
    ('units(balance), account, balance', ['TUnitsBal', 'TOther', 'TBalance']),
    ('account, cost(balance), balance, units(balance)', ['TOther', f'(TCostBal {10 ** B_SC})', 'TBalance', 'TUnitsBal']),
    ("balance, account IN (SELECT account FROM #postings WHERE NOT empty(balance)), balance",
     ['TBalance', 'TOther', 'TBalance']),
    ("account IN (SELECT account FROM #postings WHERE number > 0 AND NOT empty(units(balance))), balance, "
     "account IN (SELECT account FROM #postings WHERE empty(balance)), balance",
     ['TOther', 'TBalance', 'TOther', 'TBalance']),
]
# scale of each inventory cell of a target list
TARGET_SCALES = {'TBalance': A_SC, 'TUnitsBal': A_SC, f'(TCostBal {10 ** B_SC})': A_SC + B_SC, 'TFirstBal': A_SC}


# (fix-D) `balance` as a LATER operand of a function call whose earlier operand is NULL on some selected postings (cash legs have no
# cost_currency / cost_number / cost_date / cost_label) and NO plain balance target next to it: whether or not the call yields
# NULL for a row, that row's position belongs to the balance every later row sees.  {a} = the nullable column, {b} = balance.
# Oracle: the prefix sums folded in plain Python from the query's own `position` column, stored next to the nullable column
# in a user table #fold(a, inv); the same target expressions evaluated over that table (no running state involved).
NULLARG_FAMILIES = [
    ('cost_currency', 'str', ['only({a}, {b})']),
    ('cost_currency', 'str', ['number(only({a}, {b}))', 'account']),
    ('cost_number', 'decimal', ["safediv({a}, number(only('USD', {b})))"]),
    ('cost_currency', 'str', ['grep({a}, str(units({b})))']),
    ('cost_date', 'date', ['date_add({a}, length(str(units({b}))))']),
    ('cost_label', 'str', ["subst('l', {a}, str(cost({b})))"]),
    ('cost_currency', 'str', ['filter_currency({b}, {a})']),
    ('cost_currency', 'str', ['only({a}, {b})', "only('USD', {b})"]),
    ('cost_currency', 'str', ["only('USD', {b})", 'only({a}, {b})', 'only({a}, units({b}))']),
    ('cost_number', 'decimal', ["possign({a}, str(units({b})))", 'only(cost_currency, {b})']),
    ('cost_currency', 'str', ['only({a}, filter_currency({b}, {a}))']),
    ('cost_label', 'str', ["only(cost_currency, convert({b}, {a}))"]),
]


def canon_cell(v):
    from beancount.core import inventory as binv
    from beancount.core import amount as bamount
    if isinstance(v, binv.Inventory):
        return ['inv', canon_inv(v)]
    if isinstance(v, bamount.Amount):
        return ['amount', None if v.number is None else frac_s(v.number), v.currency]
    if isinstance(v, D):
        return ['decimal', frac_s(v)]
    return repr(v)


def load_postings(path):
    from beancount import loader
    from beancount.core import data
    entries, errors, options = loader.load_file(path)
    rows = []
    for e in entries:
        if isinstance(e, data.Transaction):
            for p in e.postings:
                rows.append((e, p))
    return entries, errors, rows


def agg_row(r, ncols=1):
    """An aggregate query over an empty selection returns no row at all."""
    if not r:
        return 'no-row'
    return canon_inv(r[0][0]) if ncols == 1 else [canon_inv(v) for v in r[0][:ncols]]


class _P:
    """an Amount seen as a cost-less position (for canon_inv)"""
    cost = None

    def __init__(self, amt):
        self.units = amt


def group_firstseen(keys):
    order = []
    for k in keys:
        if k not in order:
            order.append(k)
    return order


def prepare(case):
    """Worker: returns {'checks': [...], 'coq': expr, 'info': {...}} (or {'error': ...})."""
    import random
    from beancount.core import prices as bprices
    path = case['path']
    rng = random.Random(case['qseed'])
    entries, errors, rows = load_postings(path)
    price_map = bprices.build_price_map(entries)
    cur, lab = Interner(), Interner()
    names = [f'p{i}' for i in range(len(rows))]
    lets = []
    for nme, (e, p) in zip(names, rows):
        lets.append(f'let {nme} := {coq_pos(p.units.number, p.units.currency, p.cost, cur, lab)} in')
    ledger_curs = sorted({p.units.currency for _, p in rows} | {p.cost.currency for _, p in rows if p.cost is not None})
    sels = selections(rng, rows)
    want = case.get('only')

    conns = [impl.beanquery.connect('beancount:' + path)]
    if case.get('two_conns'):
        conns.append(impl.beanquery.connect('beancount:' + path))
    state = {'n': 0}

    def execute(q):
        conn = conns[state['n'] % len(conns)]
        state['n'] += 1
        return conn.execute(q).fetchall()

    checks = []     # dicts: kind, sql, impl (canonical), decode spec, extra
    exprs = []      # model expression per check (type out)

    def sel_names(sel):
        return [n for n, (e, p) in zip(names, rows) if sel[3](e, p)]

    def add(kind, q, impl_val, expr, dec, **extra):
        checks.append(dict(kind=kind, sql=q, impl=impl_val, dec=dec, **extra))
        exprs.append(expr)

    def price_table(pairs, date):
        tbl = []
        for b in pairs[0]:
            for q in pairs[1]:
                _, r = bprices.get_price(price_map, (b, q), date)
                if r is not None:
                    dd = copt(date.toordinal() if date else None, str)
                    tbl.append(f'(({cur(b)}, {cur(q)}, {dd}), {cZ(scaled(r, C_SC, "rate"))})')
        return '(price_of_table ' + clist(tbl) + ')'

    def pick_dates():
        ds = sorted({e.date for e in entries if hasattr(e, 'date')})
        cands = [None, datetime.date(2019, 6, 1), datetime.date(2030, 1, 1)]
        if ds:
            cands += [ds[len(ds) // 2], ds[-1]]
        pds = sorted({d for v in price_map.values() for d, _ in v})
        if pds:
            cands += [pds[0], pds[len(pds) // 2], pds[-1] - datetime.timedelta(days=1), pds[len(pds) // 2]]
        return cands

    plan = case['plan']
    for item in plan:
        kind = item[0]
        if want and kind not in want:
            continue
        sel = sels[item[1] % len(sels)]
        S = clist(sel_names(sel))
        if kind == 'sum':
            q = sql('sum(position)', sel)
            r = execute(q)
            add(kind, q, agg_row(r), f'o_inv (sum_pos {S})', ['inv', A_SC], sel=sel[0], nsel=len(sel_names(sel)))
        elif kind == 'sumprice':
            q = sql('sum(price)', sel)
            r = execute(q)
            vals = []
            for (e, p) in rows:
                if sel[3](e, p):
                    vals.append(copt(None if p.price is None else
                                     f'({cZ(scaled(p.price.number, A_SC, "price"))}, {cur(p.price.currency)})'))
            add(kind, q, agg_row(r), f'o_inv (sum_amount {clist(vals)})', ['inv', A_SC], sel=sel[0], nsel=len(vals))
        elif kind in ('units', 'cost'):
            f = kind
            q = sql(f'{f}(sum(position)), sum({f}(position))', sel)
            r = execute(q)
            if kind == 'units':
                e1, e2, sc = f'inventory_units (sum_pos {S})', f'sum_amt (map get_units {S})', A_SC
            else:
                one = 10 ** B_SC
                e1, e2, sc = f'inventory_cost {one} (sum_pos {S})', f'sum_amt (map (get_cost {one}) {S})', A_SC + B_SC
            add(kind, q, agg_row(r, 2), f'OL [o_inv ({e1}); o_inv ({e2})]',
                ['invs', sc], sel=sel[0], nsel=len(sel_names(sel)))
        elif kind in ('value', 'convert'):
            date = pick_dates()[item[2] % len(pick_dates())]
            dlit = '' if date is None else f', {date.isoformat()}'
            dd = copt(date.toordinal() if date else None, str)
            one = 10 ** C_SC
            if kind == 'value':
                q = sql(f'value(sum(position){dlit}), sum(value(position{dlit}))', sel)
                pt = price_table((ledger_curs, ledger_curs), date)
                e1 = f'inventory_value {pt} {one} {dd} (sum_pos {S})'
                e2 = f'sum_amt (map (get_value {pt} {one} {dd}) {S})'
                sc = A_SC + C_SC
                tgt = None
            else:
                tgt = ['USD', 'EUR', 'HOOL', 'XYZ', 'ACME'][item[3] % 5]
                # the currency argument as a user may spell it (3 in 8 not upper case): the overloads for positions, amounts and
                # inventories must read one spelling alike; the model takes the argument literally
                spelling = ['upper', 'upper', 'upper', 'lower', 'upper', 'capitalized', 'lower', 'upper'][item[4] % 8]
                tgt = {'upper': tgt, 'lower': tgt.lower(), 'capitalized': tgt.capitalize()}[spelling]
                q = sql(f"convert(sum(position), '{tgt}'{dlit}), sum(convert(position, '{tgt}'{dlit}))", sel)
                allc = sorted(set(ledger_curs) | {tgt})
                pt = price_table((allc, allc), date)
                e1 = f'inventory_convert {pt} {one} {cur(tgt)} {dd} (sum_pos {S})'
                e2 = f'sum_amt (map (convert_position {pt} {one} {cur(tgt)} {dd}) {S})'
                sc = A_SC + 2 * C_SC
            r = execute(q)
            branches = {}
            for (e, p) in rows:
                if not sel[3](e, p):
                    continue
                if kind == 'value':
                    if p.cost is None:
                        b = 'no-cost'
                    else:
                        b = 'rate' if bprices.get_price(price_map, (p.units.currency, p.cost.currency), date)[1] is not None \
                            else 'no-rate'
                else:
                    if bprices.get_price(price_map, (p.units.currency, tgt), date)[1] is not None:
                        b = 'direct'
                    elif (p.cost is not None and p.cost.currency != tgt
                          and bprices.get_price(price_map, (p.units.currency, p.cost.currency), date)[1] is not None
                          and bprices.get_price(price_map, (p.cost.currency, tgt), date)[1] is not None):
                        b = 'via-cost-currency'
                    else:
                        b = 'unconverted'
                branches[b] = branches.get(b, 0) + 1
            add(kind, q, agg_row(r, 2), f'OL [o_inv ({e1}); o_inv ({e2})]',
                ['invs', sc], sel=sel[0], nsel=len(sel_names(sel)), date=str(date), target=tgt, branches=branches,
                **({} if kind == 'value' else {'spelling': spelling}))
            # the same function on the running balance: f(balance) of a selected posting = the inventory sum of f(position)
            # over the selected postings up to it (plain fold of the query's own first column with beancount's Inventory)
            from beancount.core import inventory as binv
            fargs = dlit if kind == 'value' else f", '{tgt}'{dlit}"
            # convert() also has an overload for amounts: on a position held without cost it must agree with the position overload
            extra_cols = '' if kind == 'value' else f', {kind}(units(position){fargs}), cost_number'
            qb = sql(f'{kind}(position{fargs}), {kind}(balance{fargs}){extra_cols}', sel)
            rb = execute(qb)
            running, fold = binv.Inventory(), []
            for row in rb:
                if row[0] is not None:
                    running.add_amount(row[0])
                fold.append(canon_inv(running))
            amounts = [[canon_inv([_P(row[0])]), canon_inv([_P(row[2])])] for row in rb if len(row) > 2 and row[3] is None]
            add(kind + '-of-balance', qb, {'balance': [canon_inv(row[1]) for row in rb], 'fold': fold, 'amounts': amounts},
                'OL []', ['fold'], sel=sel[0], nsel=len(rb), date=str(date), target=tgt,
                **({} if kind == 'value' else {'spelling': spelling}))
        elif kind == 'group':
            gname, gexpr, gfun = [('account', 'account', lambda e, p: p.account),
                                  ('currency', 'currency', lambda e, p: p.units.currency),
                                  ('month', 'year, month', lambda e, p: (e.date.year, e.date.month)),
                                  ('cost_currency', 'cost_currency', lambda e, p: p.cost.currency if p.cost else None),
                                  ][item[2] % 4]
            q = sql(f'{gexpr}, sum(position)', sel, group=gexpr)
            r = execute(q)
            qt = sql('sum(position)', sel)
            total = execute(qt)
            qn = f'SELECT sum(x) FROM ({sql(gexpr + ", sum(position) AS x", sel, group=gexpr)})'
            nested = execute(qn)
            selrows = [(n, gfun(e, p)) for n, (e, p) in zip(names, rows) if sel[3](e, p)]
            order = group_firstseen([g for _, g in selrows])
            gl = [clist([n for n, g in selrows if g == k]) for k in order]
            impl_groups = [[list(row[:-1]) if len(row) > 2 else row[0], canon_inv(row[-1])] for row in r]
            impl_groups = [[repr(tuple(k)) if isinstance(k, list) else repr(k), v] for k, v in impl_groups]
            expr = ('OL [OL ' + clist([f'o_inv (sum_pos {g})' for g in gl]) + '; o_inv (sum_inv '
                    + clist([f'(sum_pos {g})' for g in gl]) + f'); o_inv (sum_pos {S})]')
            add(kind, q, {'groups': impl_groups, 'nested': agg_row(nested), 'total': agg_row(total)},
                expr, ['group', A_SC], sel=sel[0], group=gname, keys=[repr(k) for k in order], nested_sql=qn, nsel=len(selrows))
        elif kind == 'balance':
            tl_sql, tl = TARGET_LISTS[item[2] % len(TARGET_LISTS)]
            wshape = item[3]
            frm, where = sel[1], sel[2]
            if wshape is None:
                wq, wm = where, ('None' if where is None else '(Some WMask)')
            else:
                wsql, wcoq = WSHAPES[wshape % len(WSHAPES)]
                wq = wsql.format(m=f'({where})' if where else 'TRUE')
                wm = f'(Some {wcoq})'
            # FROM restricts the rows that are scanned at all; WHERE is the mask
            scanned = []
            for n, (e, p) in zip(names, rows):
                fsel = sels_from(sel, e, p)
                if fsel is None:
                    continue
                scanned.append(f'({n}, ({cbool(fsel)}, false))')
            q = 'SELECT ' + tl_sql + (f' FROM {frm}' if frm else '') + (f' WHERE {wq}' if wq else '')
            if item[4] % 4 == 0 and '(SELECT' not in tl_sql:
                # the same query as a FROM-subquery
                aliased = ', '.join(f'{t} AS c{i}' for i, t in enumerate(tl_sql.split(', ')))
                q = ('SELECT ' + ', '.join(f'c{i}' for i in range(len(tl))) + ' FROM (SELECT ' + aliased
                     + (f' FROM {frm}' if frm else '') + (f' WHERE {wq}' if wq else '') + ')')
            r = execute(q)
            icells = []
            for row in r:
                icells.append([canon_inv(v) for v, t in zip(row, tl) if t != 'TOther'])
            scales = [TARGET_SCALES[t] for t in tl if t != 'TOther']
            expr = f'o_query {wm} {clist(tl)} {clist(scanned)}'
            extra = {}
            if wshape is None:
                # implementation-only: last balance == sum(position) of the same selection
                qs = sql('sum(position)', sel)
                tot = execute(qs)
                extra['sum_same_selection'] = agg_row(tot)
                extra['sum_sql'] = qs
                extra['rawidx'] = [i for i, t in enumerate(t for t in tl if t != 'TOther') if t == 'TBalance']
            add(kind, q, icells, expr, ['rows', scales], sel=sel[0], refs=sum(t != 'TOther' for t in tl),
                wshape=wshape, **extra)
        elif kind == 'nullarg':
            import copy as _copy
            from beancount.core import inventory as binv
            acol, atype, tmpls = NULLARG_FAMILIES[item[2] % len(NULLARG_FAMILIES)]
            q = sql(f'position, {acol}, ' + ', '.join(t.format(a=acol, b='balance') for t in tmpls), sel)
            rb = execute(q)
            running, trows = binv.Inventory(), []
            for row in rb:
                running.add_position(row[0])
                trows.append((row[1], row[0].cost.currency if row[0].cost else None, _copy.copy(running)))
            pyt = {'str': str, 'decimal': D, 'date': datetime.date}[atype]
            # #fold: the nullable operand, cost_currency (named by some families next to {a}) and the folded prefix sum
            table = impl.make_table('fold', [('a', pyt), ('cost_currency', str), ('inv', binv.Inventory)], trows)
            for cn in conns:
                cn.tables['fold'] = table
            wtargets = [t.format(a='a', b='inv') for t in tmpls if t != 'account']
            qw = 'SELECT ' + ', '.join(wtargets) + ' FROM #fold'
            rw = execute(qw)
            keep = [i for i, t in enumerate(tmpls) if t != 'account']
            got = [[canon_cell(row[2 + i]) for i in keep] for row in rb]
            wantc = [[canon_cell(v) for v in row] for row in rw]
            nulls = [row[1] is None for row in rb]
            add(kind, q, {'got': got, 'want': wantc, 'fold_sql': qw}, 'OL []', ['nullarg'], sel=sel[0], nsel=len(rb),
                family=' ; '.join(tmpls), null_rows=sum(nulls), nonnull_rows_after_a_null=sum(1 for i, n in enumerate(nulls) if not n and any(nulls[:i])))
        elif kind == 'lastbal':
            # aggregate path: last(balance) per group, every selected row evaluates balance
            lim = [None, None, 1, 2][item[3] % 4]
            q = sql('account, last(balance)', sel, group='account') + (f' LIMIT {lim}' if lim is not None else '')
            r = execute(q)
            scanned, gk = [], []
            for n, (e, p) in zip(names, rows):
                fsel = sels_from(sel, e, p)
                if fsel is None:
                    continue
                scanned.append(f'({n}, ({cbool(fsel)}, false))')
                if fsel:
                    gk.append(p.account)
            wm = 'None' if sel[2] is None else '(Some WMask)'
            add(kind, q, [[a, canon_inv(v)] for a, v in r], f'o_query {wm} [TBalance] {clist(scanned)}',
                ['lastbal', A_SC], sel=sel[0], gk=gk, limit=lim)
        elif kind == 'firstbal':
            # first(balance): the aggregator evaluates balance only on the first row of each group
            both = item[2] % 2 == 0
            q = sql('account, first(balance)' + (', last(balance)' if both else ''), sel, group='account')
            r = execute(q)
            scanned, gk, seen = [], [], set()
            for n, (e, p) in zip(names, rows):
                fsel = sels_from(sel, e, p)
                if fsel is None:
                    continue
                first = fsel and p.account not in seen
                if fsel:
                    seen.add(p.account)
                    gk.append(p.account)
                scanned.append(f'({n}, ({cbool(fsel)}, {cbool(first)}))')
            wm = 'None' if sel[2] is None else '(Some WMask)'
            tl = ['TFirstBal'] + (['TBalance'] if both else [])
            # faithful (lazy) model and the property-text expectation (prefix sums over the selection)
            expr = f'OL [o_query {wm} {clist(tl)} {clist(scanned)}; o_query {wm} [TBalance] {clist(scanned)}]'
            add(kind, q, [[row[0]] + [canon_inv(v) for v in row[1:]] for row in r], expr,
                ['firstbal', A_SC], sel=sel[0], gk=gk, both=both)
        elif kind == 'andempty':
            # target `<flag> AND empty(balance)`: EvalAnd short-circuits, balance is not evaluated on rows with a false flag
            alone = item[2] % 2 == 0
            flagsql, flagfun = [("account ~ 'Bank'", lambda e, p: 'Bank' in p.account),
                                ("number > 0", lambda e, p: p.units.number > 0),
                                ("currency = 'USD'", lambda e, p: p.units.currency == 'USD')][item[3] % 3]
            q = sql(f'{flagsql} AND empty(balance)' + ('' if alone else ', balance'), sel)
            r = execute(q)
            scanned = []
            for n, (e, p) in zip(names, rows):
                fsel = sels_from(sel, e, p)
                if fsel is None:
                    continue
                scanned.append(f'({n}, ({cbool(fsel)}, {cbool(bool(flagfun(e, p)))}))')
            wm = 'None' if sel[2] is None else '(Some WMask)'
            tl = ['TFlagAndEmpty'] + ([] if alone else ['TBalance'])
            expr = (f'OL [o_query {wm} {clist(tl)} {clist(scanned)}; '
                    f'o_query {wm} [TBalance; TFlagAndEmpty] {clist(scanned)}]')
            add(kind, q, [[bool(row[0])] + [canon_inv(v) for v in row[1:]] for row in r], expr,
                ['andempty', A_SC], sel=sel[0], alone=alone)
        elif kind == 'subagg':
            # aggregates over same-typed columns of a subquery table; first()/last() next to sum() on one column
            one = 10 ** B_SC
            selrows = [(n, p.account) for n, (e, p) in zip(names, rows) if sel[3](e, p)]
            order = group_firstseen([a for _, a in selrows])
            gl = [clist([n for n, a in selrows if a == acc]) for acc in order]
            variant = item[2] % 3
            if variant == 0:
                inner = sql('account, units(position) AS u, cost(position) AS c', sel)
                q = f'SELECT account, sum(u), sum(c), sum(u) FROM ({inner}) GROUP BY account'
                mrows = [[f'sum_amt (map get_units {g})', f'sum_amt (map (get_cost {one}) {g})',
                          f'sum_amt (map get_units {g})'] for g in gl]
                scales, keys, nkey = [A_SC, A_SC + B_SC, A_SC], [repr(a) for a in order], 1
            elif variant == 1:
                inner = sql('account, sum(position) AS a, sum(cost(position)) AS b', sel, group='account')
                q = f'SELECT sum(a), sum(b), first(b), last(a), first(a) FROM ({inner})'
                ga = [f'(sum_pos {g})' for g in gl]
                gb = [f'(sum_amt (map (get_cost {one}) {g}))' for g in gl]
                mrows = [[f'sum_inv {clist(ga)}', f'sum_inv {clist(gb)}', gb[0], ga[-1], ga[0]]] if gl else []
                scales, keys, nkey = [A_SC, A_SC + B_SC, A_SC + B_SC, A_SC, A_SC], None, 0
            else:
                inner = sql('account, sum(position) AS inv', sel, group='account')
                q = f'SELECT first(inv), sum(inv), last(inv), sum(units(inv)), units(sum(inv)), first(inv) FROM ({inner})'
                ga = [f'(sum_pos {g})' for g in gl]
                mrows = [[ga[0], f'sum_inv {clist(ga)}', ga[-1], f'sum_inv (map inventory_units {clist(ga)})',
                          f'inventory_units (sum_inv {clist(ga)})', ga[0]]] if gl else []
                scales, keys, nkey = [A_SC] * 6, None, 0
            r = execute(q)
            im = {'keys': [repr(row[0]) for row in r] if nkey else None,
                  'rows': [[canon_inv(v) for v in row[nkey:]] for row in r]}
            add(kind, q, im, 'OL ' + clist(['OL ' + clist([f'o_inv ({x})' for x in mr]) for mr in mrows]),
                ['invrows', scales], sel=sel[0], keys=keys)
        elif kind == 'balagg':
            # aggregates over the balance column: first()/last() next to sum() on the same inventory objects
            q = sql('first(balance), sum(balance), last(balance), sum(units(balance)), first(balance)', sel)
            r = execute(q)
            S2 = clist(sel_names(sel))
            expr = (f'let PS := prefix_sums [] {S2} in OL (match PS with [] => [] | _ => [OL [o_inv (hd [] PS); '
                    f'o_inv (sum_inv PS); o_inv (last PS []); o_inv (sum_inv (map inventory_units PS)); o_inv (hd [] PS)]] end)')
            add(kind, q, {'keys': None, 'rows': [[canon_inv(v) for v in row] for row in r]}, expr,
                ['invrows', [A_SC] * 5], sel=sel[0], keys=None)
        elif kind == 'usertable':
            # a persistent user table with an Inventory column, every query executed twice; inputs must stay unchanged
            from beancount.core import inventory as binv
            from beancount.core import data as bdata
            trows, mrows_, gk = [], [], []
            if item[2] % 2 == 0:
                for n, (e, p) in zip(names, rows):
                    inv = binv.Inventory()
                    inv.add_position(p)
                    trows.append((p.account, inv))
                    mrows_.append(f'(sum_pos [{n}])')
                    gk.append(p.account)
            else:
                byentry = {}
                for n, (e, p) in zip(names, rows):
                    byentry.setdefault(id(e), (e, []))[1].append((n, p))
                for e, ps in byentry.values():
                    inv = binv.Inventory()
                    for _, p in ps:
                        inv.add_position(p)
                    trows.append((e.narration, inv))
                    mrows_.append(f'(sum_pos {clist([n for n, _ in ps])})')
                    gk.append(e.narration)
            table = impl.make_table('lots', [('g', str), ('inv', binv.Inventory)], trows)
            for cn in conns:
                cn.tables['lots'] = table
            before = [canon_inv(inv) for _, inv in trows]
            order = group_firstseen(gk)
            q1 = 'SELECT g, sum(inv), units(sum(inv)), sum(units(inv)), first(inv) FROM #lots GROUP BY g'
            q2 = 'SELECT first(inv), sum(inv), last(inv), first(inv) FROM #lots'
            runs = []
            for q in (q1, q2, q1, q2):
                r = execute(q)
                nk = 1 if q is q1 else 0
                runs.append({'keys': [repr(row[0]) for row in r] if nk else None,
                             'rows': [[canon_inv(v) for v in row[nk:]] for row in r]})
            after = [canon_inv(inv) for _, inv in trows]
            m1 = []
            for g in order:
                gi = clist([m for m, k in zip(mrows_, gk) if k == g])
                first = [m for m, k in zip(mrows_, gk) if k == g][0]
                m1.append([f'sum_inv {gi}', f'inventory_units (sum_inv {gi})', f'sum_inv (map inventory_units {gi})', first])
            allr = clist(mrows_)
            m2 = [[mrows_[0], f'sum_inv {allr}', mrows_[-1], mrows_[0]]] if mrows_ else []
            expr = 'OL [' + '; '.join('OL ' + clist(['OL ' + clist([f'o_inv ({x})' for x in mr]) for mr in mm])
                                      for mm in (m1, m2)) + ']'
            add(kind, q1 + ' ; ' + q2 + ' (each executed twice)', {'runs': runs, 'mutated': [i for i, (b, a) in enumerate(zip(before, after)) if a != b],
                                                               'before': before, 'after': after},
                expr, ['usertable', A_SC], sel='all', keys=[repr(g) for g in order], nrows=len(trows))
        elif kind == 'grouplimit':
            # GROUP BY ... LIMIT n without ORDER BY: the first n groups in first-appearance order, each with its FULL sum
            gname, gexpr, gfun = [('account', 'account', lambda e, p: p.account),
                                  ('currency', 'currency', lambda e, p: p.units.currency),
                                  ('narration', 'narration', lambda e, p: e.narration),
                                  ('cost_currency', 'cost_currency', lambda e, p: p.cost.currency if p.cost else None),
                                  ][item[2] % 4]
            selrows = [(n, gfun(e, p)) for n, (e, p) in zip(names, rows) if sel[3](e, p)]
            order = group_firstseen([g for _, g in selrows])
            ng = len(order)
            lim = [1, 1, 2, max(ng - 1, 0), ng, ng + 1, 0, 3][item[3] % 8]
            one = 10 ** B_SC
            q = sql(f'{gexpr}, sum(position), sum(units(position)), cost(sum(position)), sum(position)', sel, group=gexpr) \
                + f' LIMIT {lim}'
            r = execute(q)
            kept = order[:lim]
            gl = [clist([n for n, g in selrows if g == k]) for k in kept]
            mrows = [[f'sum_pos {g}', f'sum_amt (map get_units {g})', f'inventory_cost {one} (sum_pos {g})', f'sum_pos {g}']
                     for g in gl]
            im = {'keys': [repr(row[0]) for row in r], 'rows': [[canon_inv(v) for v in row[1:]] for row in r]}
            add(kind, q, im, 'OL ' + clist(['OL ' + clist([f'o_inv ({x})' for x in mr]) for mr in mrows]),
                ['invrows', [A_SC, A_SC, A_SC + B_SC, A_SC]], sel=sel[0], keys=[repr(k) for k in kept],
                limit_vs_groups='lt' if lim < ng else 'ge')
        elif kind == 'journal':
            # JOURNAL is sugar for SELECT date, flag, ..., account, f(position), f(balance) WHERE account ~ pattern
            pat = ['Broker', 'Bank', 'Assets', 'Expenses|Income', ''][item[3] % 5]
            summ, tl, sc = [(None, 'TBalance', A_SC), ('units', 'TUnitsBal', A_SC),
                            ('cost', f'(TCostBal {10 ** B_SC})', A_SC + B_SC)][item[2] % 3]
            q = 'JOURNAL' + (f" '{pat}'" if pat else '') + (f' AT {summ}' if summ else '')
            r = execute(q)
            scanned = [f'({n}, ({cbool(re.search(pat, p.account) is not None)}, false))'
                       for n, (e, p) in zip(names, rows)]
            wm = '(Some WMask)' if pat else 'None'
            add('balance', q, [[canon_inv(row[-1])] for row in r], f'o_query {wm} [{tl}] {clist(scanned)}',
                ['rows', [sc]], sel='journal', refs=1, wshape=None)
        elif kind == 'balances':
            summ = [None, 'units', 'cost'][item[2] % 3]
            q = 'BALANCES' + (f' AT {summ}' if summ else '') + (f' FROM {sel[1]}' if sel[1] else '') \
                + (f' WHERE {sel[2]}' if sel[2] else '')
            r = execute(q)
            selrows = [(n, p.account) for n, (e, p) in zip(names, rows) if sel[3](e, p)]
            accounts = sorted({a for _, a in selrows})
            one = 10 ** B_SC
            fn, sc = {None: ('sum_pos {g}', A_SC), 'units': ('sum_amt (map get_units {g})', A_SC),
                      'cost': (f'sum_amt (map (get_cost {one}) {{g}})', A_SC + B_SC)}[summ]
            gl = [clist([n for n, a in selrows if a == acc]) for acc in accounts]
            add(kind, q, sorted([[row[0], canon_inv(row[1])] for row in r]),
                'OL ' + clist(['o_inv (' + fn.format(g=g) + ')' for g in gl]), ['balances', sc], sel=sel[0],
                accounts=accounts)
    # one Eval per heavy (per-row) check, the aggregates of a ledger together: keeps the printed
    # S-expressions small (Out.show is not tail recursive)
    chunks, light = [], []
    for i, chk in enumerate(checks):
        if chk['kind'] in ('balance', 'lastbal', 'firstbal', 'andempty'):
            chunks.append([i])
        else:
            light.append(i)
    if light:
        chunks.append(light)
    coq = ['\n'.join(lets) + '\nOL ' + clist([exprs[i] for i in ch]) for ch in chunks]
    info = {'postings': len(rows), 'errors': len(errors), 'currencies': len(ledger_curs),
            'lots': len({(p.units.currency, p.cost) for _, p in rows if p.cost is not None}),
            'reductions': sum(1 for _, p in rows if p.cost is not None and p.units.number < 0),
            'prices': sum(len(v) for v in price_map.values()) // 2}
    return {'checks': checks, 'coq': coq, 'chunks': chunks, 'info': info, 'cur': cur.names, 'lab': lab.names}


def sels_from(sel, e, p):
    """None = not scanned (rejected by FROM); else the truth value of the WHERE mask."""
    kind = sel[0]
    if kind == 'from':
        return True if sel[3](e, p) else None
    if kind == 'from+where':
        frm_ok = e.date >= datetime.date.fromisoformat(sel[1].split('>= ')[1])
        if not frm_ok:
            return None
        return p.units.number > 0
    return bool(sel[3](e, p))


def prepare_safe(case):
    try:
        return prepare(case)
    except Exception as e:  # noqa: BLE001
        import traceback
        return {'error': f'{type(e).__name__}: {e}', 'traceback': traceback.format_exc()}


# --------------------------------------------------------------------------
# plans

def gen_plan(rng, tier):
    plan = []
    nsel = 12
    k = 12 if tier == 'quick' else 22      # (fix-D) one / two more draws for the two 'nullarg' entries: the other kinds keep their counts
    kinds = ['sum', 'units', 'cost', 'value', 'convert', 'convert', 'group', 'balance', 'balance', 'balance', 'balance',
             'lastbal', 'firstbal', 'andempty', 'sumprice', 'journal', 'balances', 'subagg', 'subagg', 'balagg', 'usertable', 'grouplimit', 'grouplimit',
             'nullarg', 'nullarg']
    for _ in range(k):
        kind = rng.choice(kinds)
        s = rng.randrange(nsel) if rng.random() < 0.75 else 0
        if kind == 'balance':
            plan.append((kind, s, rng.randrange(len(TARGET_LISTS)), rng.choice([None, None, None] + list(range(len(WSHAPES)))),
                         rng.randrange(8)))
        else:
            plan.append((kind, s, rng.randrange(12), rng.randrange(12), rng.randrange(8)))
    return plan


# --------------------------------------------------------------------------
# comparison

def compare(check, mx, cur, lab):
    """Returns a list of (kind, message) problems for one check; mx = parsed model output."""
    dec = check['dec']
    im = check['impl']
    probs = []
    if im == 'no-row' or (isinstance(im, dict) and im.get('total') == 'no-row'):
        if check['nsel'] != 0:
            probs.append((check['kind'], f'no result row although {check["nsel"]} postings are selected'))
        return probs
    if dec[0] == 'inv':
        m = decode_inv(mx, dec[1], cur, lab)
        if im != m:
            probs.append((check['kind'], f'implementation {im} != model {m}'))
    elif dec[0] == 'invs':
        ms = [decode_inv(x, dec[1], cur, lab) for x in mx]
        if im != ms:
            probs.append((check['kind'], f'implementation {im} != model {ms}'))
        if as_map(im[0]) != as_map(im[1]):
            probs.append((check['kind'] + '-conservation', f'f(sum(position)) = {im[0]} but sum(f(position)) = {im[1]}'))
    elif dec[0] == 'group':
        groups, nested, total = mx
        mg = [decode_inv(g, dec[1], cur, lab) for g in groups]
        # an all-cancelling group still yields a row (empty inventory)
        ig = im['groups']
        if [k for k, _ in ig] != check['keys']:
            probs.append(('group', f'group keys {[k for k, _ in ig]} != expected first-seen order {check["keys"]}'))
        elif [v for _, v in ig] != mg:
            probs.append(('group', f'group sums {ig} != model {mg}'))
        mn = decode_inv(nested, dec[1], cur, lab)
        mt = decode_inv(total, dec[1], cur, lab)
        if ig and im['nested'] != mn:
            probs.append(('group-nested-sum', f'sum over group inventories {im["nested"]} != model {mn}'))
        if im['total'] != mt:
            probs.append(('sum', f'total {im["total"]} != model {mt}'))
        # implementation only: the partition adds up to the total
        if ig and as_map(im['nested']) != as_map(im['total']):
            probs.append(('partition-conservation', f'group sums add up to {im["nested"]}, total is {im["total"]}'))
    elif dec[0] == 'rows':
        scales = dec[1]
        mrows = [[decode_inv(c[1], s, cur, lab) for c, s in zip(r, scales)] for r in mx]
        if im != mrows:
            probs.append(('balance', f'balance rows {im} != model {mrows}'))
        if 'sum_same_selection' in check and im:
            # implementation only: the raw balance cells of the last row = sum(position) of the same selection
            tot = check['sum_same_selection']
            for i in check['rawidx']:
                if tot == 'no-row' or as_map(im[-1][i]) != as_map(tot):
                    probs.append(('last-balance-conservation',
                                  f'last balance {im[-1][i]} != sum(position) of the same selection {tot}'))
    elif dec[0] == 'fold':
        for i, (b, f) in enumerate(zip(im['balance'], im['fold'])):
            if b is None or as_map(b) != as_map(f):
                fn = check['kind'].split('-')[0]
                probs.append((check['kind'], f'row {i}: {fn}(balance, ...) = {b} but the sum of {fn}(position, ...) over the selected '
                                             f'postings up to it = {f}'))
                break
        for a, b in im['amounts']:
            if a != b:
                probs.append((check['kind'], f'a position held without cost: convert(position, ...) = {a} but convert(units(position), ...) = {b}'))
                break
    elif dec[0] == 'nullarg':
        if len(im['got']) != len(im['want']):
            probs.append(('nullarg', f'{len(im["got"])} rows, the fold table has {len(im["want"])}'))
        for i, (g, w) in enumerate(zip(im['got'], im['want'])):
            if g != w:
                probs.append(('nullarg', f'selected row {i}: [{check["family"]}] = {g}, but over the prefix sum of the selected positions up to it '
                                         f'({im["fold_sql"]}) = {w}'))
                break
    elif dec[0] == 'invrows':
        m = [[decode_inv(x, sc, cur, lab) for x, sc in zip(r, dec[1])] for r in mx]
        if check['keys'] is not None and im['keys'] != check['keys']:
            probs.append((check['kind'], f'group keys {im["keys"]} != expected first-seen order {check["keys"]}'))
        elif im['rows'] != m:
            probs.append((check['kind'], f'aggregates {im["rows"]} != model {m}'))
    elif dec[0] == 'usertable':
        m1 = [[decode_inv(x, dec[1], cur, lab) for x in r] for r in mx[0]]
        m2 = [[decode_inv(x, dec[1], cur, lab) for x in r] for r in mx[1]]
        for i, (run, m) in enumerate(zip(im['runs'], [m1, m2, m1, m2])):
            ex = 'first' if i < 2 else 'second'
            if run['keys'] is not None and run['keys'] != check['keys']:
                probs.append(('usertable', f'{ex} execution: group keys {run["keys"]} != {check["keys"]}'))
            elif run['rows'] != m:
                probs.append(('usertable', f'{ex} execution over the persistent table: aggregates {run["rows"]} != model {m}'))
        if im['mutated']:
            i = im['mutated'][0]
            probs.append(('input-mutated', f'the query changed its input: inventory of table row {i} was {im["before"][i]}, '
                                           f'is {im["after"][i]} after the queries'))
    elif dec[0] == 'balances':
        m = [[a, decode_inv(x, dec[1], cur, lab)] for a, x in zip(check['accounts'], mx)]
        if im != m:
            probs.append(('balances', f'BALANCES rows {im} != model {m}'))
    elif dec[0] == 'lastbal':
        mrows = [decode_inv(r[0][1], dec[1], cur, lab) for r in mx]
        exp = {}
        order = []
        for g, v in zip(check['gk'], mrows):
            if g not in exp:
                order.append(g)
            exp[g] = v
        e = [[g, exp[g]] for g in order]
        if check.get('limit') is not None:
            e = e[:check['limit']]
        if im != e:
            probs.append(('lastbal', f'last(balance) per account {im} != prefix sums {e}'))
    elif dec[0] == 'firstbal':
        lazy, text = mx
        # faithful model: rows emit [first?] [last]; text model: every selected row's balance
        both = check['both']
        gk = check['gk']
        firsts, lasts, order = {}, {}, []
        for g, r, tr in zip(gk, lazy, text):
            cells = [decode_inv(c[1], dec[1], cur, lab) for c in r]
            tv = decode_inv(tr[0][1], dec[1], cur, lab)
            if g not in firsts:
                order.append(g)
                firsts[g] = (cells[0], tv)
            if both:
                lasts[g] = cells[-1]
        exp_lazy = [[g, firsts[g][0]] + ([lasts[g]] if both else []) for g in order]
        if im != exp_lazy:
            probs.append(('firstbal', f'first(balance) rows {im} != lazy model {exp_lazy}'))
        exp_text = [[g, firsts[g][1]] for g in order]
        got = [[row[0], row[1]] for row in im]
        if got != exp_text:
            probs.append(('lazy-first', f'first(balance) per account {got} is not the prefix sum over the selected '
                                        f'postings up to the group\'s first posting {exp_text}'))
    elif dec[0] == 'andempty':
        lazy, text = mx
        alone = check['alone']
        ml = []
        for r in lazy:
            row = [bool(r[0][1])] + [decode_inv(c[1], dec[1], cur, lab) for c in r[1:]]
            ml.append(row)
        if im != ml:
            probs.append(('andempty', f'rows {im} != lazy model {ml}'))
        mt = [bool(r[1][1]) for r in text]
        if [row[0] for row in im] != mt:
            probs.append(('lazy-and', f'`flag AND empty(balance)` gives {[row[0] for row in im]}, with balance = prefix sum over '
                                      f'the selected postings it is {mt}'))
    return probs


# --------------------------------------------------------------------------
# direct validation of the Inventory model against beancount.core.inventory

INV_CURRENCIES = ['USD', 'EUR', 'HOOL', 'XAU']      # XAU: never held


def inv_case(rng):
    n = rng.choice([0, 1, 2, 3, 5, 8, 12])
    keys = []
    for _ in range(rng.randint(1, 4)):
        c = rng.choice(['USD', 'EUR', 'HOOL'])
        cost = None
        if rng.random() < 0.6:
            cost = (rng.choice(['10', '10.00', '12.5', '0']), rng.choice(['USD', 'EUR']),
                    rng.choice(['2020-01-05', '2020-01-06']), rng.choice([None, None, 'a']))
        keys.append((c, cost))
    ps = [(rng.choice(['1', '-1', '2', '-2', '0', '0.50', '-0.5', '3.25']),) + rng.choice(keys) for _ in range(n)]
    cut = rng.randint(0, n)
    return {'positions': ps, 'cut': cut}


def _mkpos(t):
    from beancount.core.amount import Amount
    from beancount.core.position import Position, Cost
    num, c, cost = t
    k = None
    if cost is not None:
        k = Cost(D(cost[0]), cost[1], datetime.date.fromisoformat(cost[2]), cost[3])
    return Position(Amount(D(num), c), k)


def inv_impl(case):
    from beancount.core.inventory import Inventory
    ps = [_mkpos(tuple(t)) for t in case['positions']]
    inv = Inventory()
    trace = []
    for p in ps:
        before, booking = inv.add_position(p)
        trace.append([None if before is None else frac_s(before.units.number), booking.value])
    a, b = Inventory(), Inventory()
    for p in ps[:case['cut']]:
        a.add_position(p)
    for p in ps[case['cut']:]:
        b.add_position(p)
    a.add_inventory(b)
    # the primitives of Model/PrimsInvFuncs.v (only / empty / filter_currency over inventories), on the final inventory
    funcs = [[frac_s(inv.get_currency_units(c).number), inv.get_currency_units(c).currency, bool(inv.is_empty()),
              canon_inv(Inventory(pos for pos in inv if pos.units.currency == c))] for c in INV_CURRENCIES]
    return {'trace': trace, 'final': canon_inv(inv), 'added': canon_inv(a), 'funcs': funcs}


def inv_model_expr(case, cur, lab):
    ps = [_mkpos(tuple(t)) for t in case['positions']]
    cs = [coq_pos(p.units.number, p.units.currency, p.cost, cur, lab) for p in ps]
    k = case['cut']
    funcs = clist([f'(let i := sum_pos {clist(cs)} in let c := {cur(c)} in OL [ON (fst (inventory_only c i)); '
                   f'ON (snd (inventory_only c i)); o_bool (inventory_empty i); o_inv (inventory_filter_currency i c)])'
                   for c in INV_CURRENCIES])
    return (f'OL [add_trace {clist(cs)}; o_inv (add_inventory (sum_pos {clist(cs[:k])}) (sum_pos {clist(cs[k:])})); '
            f'OL {funcs}]')


def inv_compare(case, im, mx, cur, lab):
    (trace, final), added = mx[0], mx[1]
    mt = [[None if not b else frac_s(Fraction(b[0], 10 ** A_SC)), bk] for b, bk in trace]
    probs = []
    if im['trace'] != mt:
        probs.append(f'add_position returns {im["trace"]} != model {mt}')
    if im['final'] != decode_inv(final, A_SC, cur, lab):
        probs.append(f'inventory {im["final"]} != model {decode_inv(final, A_SC, cur, lab)}')
    if im['added'] != decode_inv(added, A_SC, cur, lab):
        probs.append(f'add_inventory {im["added"]} != model {decode_inv(added, A_SC, cur, lab)}')
    mf = [[frac_s(Fraction(n, 10 ** A_SC)), cur.name(c), bool(e), decode_inv(f, A_SC, cur, lab)] for n, c, e, f in mx[2]]
    if im['funcs'] != mf:
        probs.append(f'get_currency_units / is_empty / Inventory(filtered positions) over {INV_CURRENCIES}: '
                     f'{im["funcs"]} != model {mf}')
    return probs


# --------------------------------------------------------------------------
# driver

IMPORTS = ['Model.Inventory', 'Model.Balance']


def coq_eval(tag, exprs, shard):
    """core.coq_eval, retried once: under heavy machine load a coqc process is occasionally killed."""
    import resource
    soft, hard = resource.getrlimit(resource.RLIMIT_STACK)
    want = 1 << 30
    if soft != resource.RLIM_INFINITY and soft < want and (hard == resource.RLIM_INFINITY or hard >= want):
        resource.setrlimit(resource.RLIMIT_STACK, (want, hard))   # inherited by coqc: long outputs recurse deeply
    try:
        return core.coq_eval(tag, IMPORTS, exprs, shard=shard)
    except RuntimeError as e:
        core.log(f'[C12] coqc failed once ({str(e)[:200]!r}), retrying')
        return core.coq_eval(tag + 'x', IMPORTS, exprs, shard=shard)


def make_cases(rng, n, tier, subdir='ledgers'):
    d = os.path.join(TMP, subdir)
    shutil.rmtree(d, ignore_errors=True)
    os.makedirs(d)
    cases = []
    for i in range(n):
        header, blocks, kinds = gen_ledger(rng)
        path = os.path.join(d, f'L{i:05d}.beancount')
        with open(path, 'w') as f:
            f.write(ledger_text(header, blocks))
        cases.append({'path': path, 'header': header, 'blocks': blocks, 'kinds': kinds, 'qseed': rng.randrange(1 << 30),
                      'plan': gen_plan(rng, tier), 'two_conns': rng.random() < 0.25})
    return cases


def evaluate(cases, tag):
    """Run implementation + model for ledger cases; returns list of (case, prep, problems)."""
    import time
    t0 = time.time()
    preps = core.pmap(prepare_safe, cases)
    t1 = time.time()
    ok = [(c, p) for c, p in zip(cases, preps) if 'error' not in p]
    outs = coq_eval(tag, [e for _, p in ok for e in p['coq']], 60)
    if len(cases) > 8:
        core.log(f'[C12] {len(cases)} ledgers: implementation {t1 - t0:.1f}s, model (vm_compute) {time.time() - t1:.1f}s')
    res = []
    it = iter(outs)
    for c, p in zip(cases, preps):
        if 'error' in p:
            res.append((c, p, [('harness-error', p['error'], None)]))
            continue
        mx = [None] * len(p['checks'])
        for ch in p['chunks']:
            for i, m in zip(ch, next(it)):
                mx[i] = m
        cur, lab = Interner(), Interner()
        for s in p['cur']:
            cur(s)
        for s in p['lab']:
            lab(s)
        probs = []
        for chk, m in zip(p['checks'], mx):
            if chk['kind'] == 'balance' and 'sum_same_selection' in chk:
                pass
            for kind, msg in compare(chk, m, cur, lab):
                probs.append((kind, msg, chk))
        res.append((c, p, probs))
    return res


LAZY_SIGS = {'lazy-first': 'lazy-balance:first(balance)', 'lazy-and': 'lazy-balance:flag AND empty(balance)'}


def shrink_case(case, kind, chk_sql):
    """ddmin over the ledger's dated blocks, keeping the failing query's kind."""
    idx = {'n': 0}

    def mk(blocks):
        idx['n'] += 1
        path = os.path.join(TMP, 'shrink', f'S{idx["n"]:05d}.beancount')
        os.makedirs(os.path.dirname(path), exist_ok=True)
        with open(path, 'w') as f:
            f.write(ledger_text(case['header'], blocks))
        c = dict(case)
        c.update(path=path, blocks=blocks)
        return c

    def fails_many(cands):
        cs = [mk(b) for b in cands]
        res = evaluate(cs, 'c12s')
        return [any(k == kind and (chk is None or chk['sql'] == chk_sql) for k, _, chk in probs) for _, _, probs in res]
    blocks = case['blocks']
    if len(blocks) >= 2:
        blocks = ddmin_batch(blocks, fails_many, max_rounds=25)
    return mk(blocks)


def run(tier, rng):
    n = int(os.environ.get('C12_N', 0)) or (240 if tier == 'quick' else 1200)
    os.makedirs(TMP, exist_ok=True)
    cases = make_cases(rng, n, tier)
    results = evaluate(cases, 'c12')

    # direct Inventory validation
    ninv = 300 if tier == 'quick' else 5000
    icases = [inv_case(rng) for _ in range(ninv)]
    cur, lab = Interner(), Interner()
    iexprs = [inv_model_expr(c, cur, lab) for c in icases]
    iouts = coq_eval('c12i', iexprs, 100)
    iimpl = [inv_impl(c) for c in icases]

    violations = []
    seen = set()
    hist = {'query_kinds': {}, 'selections': {}, 'postings_per_ledger': {}, 'txn_kinds': {}, 'balance_refs': {},
            'where_shapes': {}, 'ledgers_with_load_errors': 0, 'lots_per_ledger': {}, 'reductions_per_ledger': {},
            'two_connections': 0, 'convert_targets': {}, 'date_kinds': {}, 'key_deleted_events': 0, 'price_points': {},
            'value_branches_positions': {}, 'convert_branches_positions': {}, 'empty_selections': 0,
            'group_limit_vs_groups': {}}
    nchecks = 0
    lazy_best, lazy_count = {}, {}
    nontrivial = set()
    samples = []
    for c, p, probs in results:
        if 'error' not in p:
            info = p['info']
            b = min(info['postings'] // 5 * 5, 40)
            hist['postings_per_ledger'][b] = hist['postings_per_ledger'].get(b, 0) + 1
            hist['lots_per_ledger'][min(info['lots'], 6)] = hist['lots_per_ledger'].get(min(info['lots'], 6), 0) + 1
            hist['reductions_per_ledger'][min(info['reductions'], 6)] = \
                hist['reductions_per_ledger'].get(min(info['reductions'], 6), 0) + 1
            hist['price_points'][min(info['prices'], 6)] = hist['price_points'].get(min(info['prices'], 6), 0) + 1
            hist['ledgers_with_load_errors'] += info['errors'] > 0
            hist['two_connections'] += bool(c.get('two_conns'))
            for k in c['kinds']:
                hist['txn_kinds'][k] = hist['txn_kinds'].get(k, 0) + 1
            for chk in p['checks']:
                nchecks += 1
                hist['query_kinds'][chk['kind']] = hist['query_kinds'].get(chk['kind'], 0) + 1
                hist['selections'][chk['sel']] = hist['selections'].get(chk['sel'], 0) + 1
                if chk['kind'] == 'balance':
                    hist['balance_refs'][chk['refs']] = hist['balance_refs'].get(chk['refs'], 0) + 1
                    w = 'none' if chk['wshape'] is None else WSHAPES[chk['wshape'] % len(WSHAPES)][0]
                    hist['where_shapes'][w] = hist['where_shapes'].get(w, 0) + 1
                    for r0, r1 in zip(chk['impl'], chk['impl'][1:]):
                        if r0 and r1 and len(r1[-1]) < len(r0[-1]):
                            hist['key_deleted_events'] += 1
                if chk['kind'] == 'convert':
                    hist['convert_targets'][chk['target']] = hist['convert_targets'].get(chk['target'], 0) + 1
                if 'spelling' in chk:
                    hs = hist.setdefault('convert_currency_spellings', {}).setdefault(chk['kind'], {})
                    hs[chk['spelling']] = hs.get(chk['spelling'], 0) + 1
                if chk['kind'].endswith('-of-balance'):
                    hist['f_of_balance_rows'] = hist.get('f_of_balance_rows', 0) + len(chk['impl']['balance'])
                    hist['amount_vs_position_overload_rows'] = hist.get('amount_vs_position_overload_rows', 0) + len(chk['impl']['amounts'])
                if chk['kind'] in ('value', 'convert'):
                    dk = {'None': 'none', '2019-06-01': 'before-all', '2030-01-01': 'after-all'}.get(chk['date'], 'inside')
                    hist['date_kinds'][dk] = hist['date_kinds'].get(dk, 0) + 1
                    hb = hist[chk['kind'] + '_branches_positions']
                    for b, k in chk['branches'].items():
                        hb[b] = hb.get(b, 0) + k
                if chk['kind'] == 'grouplimit':
                    hist['group_limit_vs_groups'][chk['limit_vs_groups']] = \
                        hist['group_limit_vs_groups'].get(chk['limit_vs_groups'], 0) + 1
                if chk.get('nsel') == 0:
                    hist['empty_selections'] += 1
                if chk['kind'] == 'nullarg':
                    hn = hist.setdefault('nullarg', {'families': {}, 'rows': 0, 'rows_with_null_first_operand': 0, 'nonnull_rows_after_a_null': 0})
                    hn['families'][chk['family']] = hn['families'].get(chk['family'], 0) + 1
                    hn['rows'] += chk['nsel']
                    hn['rows_with_null_first_operand'] += chk['null_rows']
                    hn['nonnull_rows_after_a_null'] += chk['nonnull_rows_after_a_null']
                if info['postings'] >= 2:
                    nontrivial.add(chk['sql'] + '@' + c['path'])
                if len(samples) < 8 and chk['kind'] not in {s.split(':')[0] for s in samples}:
                    samples.append(f"{chk['kind']}: {chk['sql']}  -- {os.path.basename(c['path'])} ({info['postings']} postings)")
        for kind, msg, chk in probs:
            if kind in LAZY_SIGS:
                # known shape: no shrinking, keep the smallest ledger that shows it
                best = lazy_best.get(kind)
                if best is None or len(c['blocks']) < len(best[0]['blocks']):
                    lazy_best[kind] = (c, msg, chk)
                lazy_count[kind] = lazy_count.get(kind, 0) + 1
                continue
            if len([s for s in seen if s not in LAZY_SIGS.values()]) >= 3:
                continue
            if kind == 'harness-error':
                sig = 'harness-error:' + msg[:120]
                if sig not in seen:
                    seen.add(sig)
                    violations.append(core.Violation('harness-error', msg, {'case': _jsonable(c), 'traceback': p.get('traceback')},
                                                     signature=sig, found_input=False))
                continue
            small = shrink_case(c, kind, chk['sql'])
            text = ledger_text(small['header'], small['blocks'])
            sig = f'{kind}:{chk["sql"]} @ {hashlib.sha1(text.encode()).hexdigest()[:12]}'
            if sig in seen:
                continue
            seen.add(sig)
            sres = evaluate([small], 'c12s')[0][2]
            smsg = next((m for k, m, ch in sres if k == kind), msg)
            violations.append(core.Violation(kind, f'{chk["sql"]} on a {len(small["blocks"])}-directive ledger: {smsg[:900]}',
                                             {'ledger': text, 'case': _jsonable(small), 'sql': chk['sql'], 'kind': kind},
                                             signature=sig))
    for kind, (c, msg, chk) in lazy_best.items():
        violations.append(core.Violation(kind, f'{chk["sql"]} on a {len(c["blocks"])}-directive ledger: {msg[:900]} '
                                               f'({lazy_count[kind]} such cases in this run)',
                                         {'ledger': ledger_text(c['header'], c['blocks']), 'case': _jsonable(c),
                                          'sql': chk['sql'], 'kind': kind}, signature=LAZY_SIGS[kind]))
    ninv_bad = 0
    for c, im, mx in zip(icases, iimpl, iouts):
        probs = inv_compare(c, im, mx, cur, lab)
        if probs and ninv_bad < 2:
            ninv_bad += 1
            sig = 'inventory-ops:' + repr(c)
            violations.append(core.Violation('inventory-ops', f'Inventory operations on {c}: {probs[0][:600]}',
                                             {'inv_case': c}, signature=sig))
    cov = {
        'evaluations': nchecks + len(icases), 'distinct_nontrivial': len(nontrivial),
        'ledgers': len(cases), 'queries': nchecks, 'inventory_op_sequences': len(icases),
        'rule': 'random ledgers (1-16 dated directives: deposits, expenses/refunds that cancel, buys at cost with dates/labels, '
                're-buys of an existing or deleted lot key, sales reducing lots (STRICT with full lot spec, FIFO/LIFO with {}), '
                'FX with @ prices, zero postings, price directives in both directions) x 11 (quick) / 20 (thorough) queries drawn '
                'from: sum(position); sum(price) (NULLs); f(sum(position)) and sum(f(position)) for units, cost, value[date], '
                'convert to USD/EUR/HOOL/ACME/XYZ [date] with the currency argument spelled in upper, lower or capitalized case; with '
                'each of these value(balance[, date]) / convert(balance, c[, date]) per selected posting against the fold of '
                'value(position) / convert(position, c) over the query\'s own rows, and convert(units(position), c) = '
                'convert(position, c) on positions held without cost; GROUP BY account/currency/year,month/cost_currency with total and '
                'sum over the group inventories via a FROM-subquery; SELECT balance with 1-3 references, units()/cost() of it, '
                'subqueries scanning postings with balance between two references, the same as FROM-subquery, WHERE not '
                'consulting balance (12 selections incl. FROM filters) and 8 WHERE shapes consulting it (short-circuit AND/OR/NOT); '
                'last(balance)/first(balance) GROUP BY account; `flag AND empty(balance)`; JOURNAL [pattern] [AT units|cost] and '
                'BALANCES [AT units|cost] [FROM] [WHERE]; aggregates over subquery tables: sum(u), sum(c) over two Amount columns, '
                'sum(a), sum(b), first(b), last(a) and first(inv), sum(inv), last(inv), sum(units(inv)), units(sum(inv)) over '
                'Inventory columns holding group sums; first/sum/last(balance) in one query; a persistent user table with an '
                'Inventory column (one row per posting or per transaction) queried twice, grouped and ungrouped, with the '
                'input inventories checked unchanged afterwards; GROUP BY account/currency/narration/cost_currency ... LIMIT n without '
                'ORDER BY (n = 0, 1, 2, 3, groups-1, groups, groups+1; also on last(balance)): the first n groups in first-appearance '
                'order, each with its full sum; balance as a later operand of a function call (only, safediv, grep, date_add, subst, possign, '
                'filter_currency, convert; nested) whose earlier operand is a cost column that is NULL on cash legs, with and without another '
                'balance reference next to it, against the same calls over a user table holding the Python-folded prefix sums of the '
                'query\'s own position column; 1 in 4 ledgers alternate two connections; '
                'plus random add_position/add_inventory sequences on beancount Inventory directly. '
                'non-trivial = distinct (query, ledger) with >= 2 postings',
        'samples': samples,
        'traces_validated_against_impl': nchecks + len(icases),
        'histograms': hist,
    }
    if not os.environ.get('C12_KEEP'):
        for sub in ('ledgers', 'shrink', 'replay'):
            shutil.rmtree(os.path.join(TMP, sub), ignore_errors=True)
        try:
            os.rmdir(TMP)
        except OSError:
            pass
    return {'coverage': cov, 'violations': violations}


# --------------------------------------------------------------------------
# translator tie (PyMini): the balance column accessor and Row.__init__
ROW_ATTRS = ('rowid', 'posting', 'entry', 'balance', 'balance_rowid', 'balance_value')   # PrimsLedger.rowst_fields


def _row_census():
    """the attributes of a fresh query_env.Row are exactly the fields of Model/PrimsLedger.v's rowst_fields, the
    running balance starts as an empty Inventory, and copy.copy of an Inventory is an equal, distinct Inventory"""
    import copy
    from beancount.core import inventory
    from beanquery import query_env
    row = query_env.Row([], {})
    names = [k for k in vars(query_env.Row) if not k.startswith('__') and not callable(getattr(query_env.Row, k))]
    names += [k for k in vars(row) if k not in names]
    if sorted(names) != sorted(ROW_ATTRS):
        raise RuntimeError(f'Row attributes {sorted(names)} differ from the encoding {sorted(ROW_ATTRS)}')
    if not (isinstance(row.balance, inventory.Inventory) and row.balance.is_empty()):
        raise RuntimeError('Row.balance does not start as an empty Inventory')
    c = copy.copy(row.balance)
    if c is row.balance or c != row.balance:
        raise RuntimeError('copy.copy(Inventory) is not an equal, distinct Inventory')
    return {'row_attributes': sorted(names)}


def generate():
    """translator tie: regenerate coq/Gen/SrcLedgerBalance.v from the source of the imported accessor (py2mini)"""
    from . import gen_src
    out = gen_src.generate('ledger_balance')
    out['src_ledger_balance_row'] = _row_census()
    # group `envledger` (C12_source_units .. C12_source_getprice): coq/Gen/SrcEnvLedger.v from the registered functions
    from . import src_envledger
    out.update(gen_src.generate('envledger'))
    out.update(src_envledger.report())
    # group `agginv` (C12_source_sum_*): coq/Gen/SrcAggInv.v from the registered SumAmount / SumPosition / SumInventory
    # (last: a source outside the fragment raises here, after the other groups have been regenerated)
    from . import src_agginv
    out.update(gen_src.generate('agginv'))
    out.update(src_agginv.report())
    return out


def _jsonable(case):
    return {k: v for k, v in case.items() if k in ('header', 'blocks', 'qseed', 'plan', 'two_conns')}


def replay(rec):
    if 'inv_case' in rec:
        c = rec['inv_case']
        cur, lab = Interner(), Interner()
        mx = core.coq_eval('c12r', IMPORTS, [inv_model_expr(c, cur, lab)])[0]
        return not inv_compare(c, inv_impl(c), mx, cur, lab)
    case = dict(rec['case'])
    case['plan'] = [tuple(x) for x in case['plan']]
    os.makedirs(os.path.join(TMP, 'replay'), exist_ok=True)
    case['path'] = os.path.join(TMP, 'replay', 'R.beancount')
    with open(case['path'], 'w') as f:
        f.write(ledger_text(case['header'], case['blocks']))
    case['kinds'] = []
    res = evaluate([case], 'c12r')
    probs = res[0][2]
    kind = rec.get('kind')
    bad = [p for p in probs if kind is None or p[0] == kind]
    for k, msg, _ in bad[:3]:
        core.log(f'  {k}: {msg[:500]}')
    return not bad
