"""Group `render` of the translator-based tie (see PYMINI.md): the two-phase column renderers of
beanquery/query_render.py for the exact datatypes (C16).

Translated on every run from the source of the IMPORTED classes into coq/Gen/SrcRender.v:
  ColumnRenderer.prepare; ObjectRenderer.update/format (StringRenderer, IntRenderer, DictRenderer inherit them: checked);
  BoolRenderer.update/format; DateRenderer.update/format; DecimalRenderer.update/format and DecimalRenderer.prepare
  WITHOUT its last statement, which must be exactly `return super().prepare()` (checked structurally; the theorem then
  runs the translated ColumnRenderer.prepare on the resulting fields).

Rules added to py2mini's fragment by RenderTranslator:
  F1  an f-string whose parts are `{e:<spec>}` with <spec> = one of < > followed by `{width expression}`:
      f'{a:>{w}}{b:<{v}}' -> fstr(format:>(a, w), format:<(b, v))   (primitives "fstr", "format:>", "format:<":
      Model/PrimsRender.v, from Render.v's rjust / ljust / py_str).
  F2  an f-string part `{e:%...}` with a CONSTANT format spec that starts with % (CostRenderer.format: `{value.date:%Y-%m-%d}`)
      -> XPrim "format:spec" [e; spec]   (format(date, spec) = date.strftime(spec); Model/PrimsRenderCost.v).
Everything else fails closed with py2mini.Untranslatable."""
import ast
import enum
import inspect
import textwrap

from . import py2mini
from .py2mini import Untranslatable, glist
from .src_numberify import NumTranslator

PRIMS = ('builtins.max', 'builtins.str', 'decimal.Decimal', 'beancount.core.display_context.DisplayContext')


def enum_const(tr, e):
    """T9: E.M / mod.E.M for a module-level enum.Enum class E whose member M has an int value -> that int, read from
    the LIVE member; None when e is not such an expression"""
    if not isinstance(e, ast.Attribute):
        return None
    d = tr.dotted(e)
    if d is None:
        return None
    parts = d.split('.')
    try:
        obj = tr.resolve_free(parts[0])
        for a in parts[1:-1]:
            obj = getattr(obj, a)
    except (Untranslatable, AttributeError):
        return None
    if isinstance(obj, type) and issubclass(obj, enum.Enum):
        member = getattr(obj, parts[-1], None)
        if not isinstance(member, obj) or type(member.value) is not int:
            raise Untranslatable(f'{d} is not an int-valued member of the enum')
        return tr.const(member.value)
    return None


class RenderTranslator(py2mini.FuncTranslator):
    """F1 (f-strings), T9 (enum members as their int value) and, for the renderers that own other objects (Amount /
    Position): A1 `self.func(args)` for the attributes named in VALUE_CALLABLES (objects that are values of the model,
    here the number formatter built by prepare()) -> XPrim "apply" (self.func :: args);
    A2 `self.<attr>.prepare()` -> XMethod (TSelf attr) "prepare" []: prepare() changes its receiver (it is in
    SELF_ATTR_MUTATORS), the receiver is written back."""
    VALUE_CALLABLES = {'func'}
    SELF_ATTR_MUTATORS = {'prepare'}

    def expr(self, e):
        if isinstance(e, ast.JoinedStr):                                                   # F1
            parts = []
            for v in e.values:
                if isinstance(v, ast.Constant) and isinstance(v.value, str):
                    parts.append(self.const(v.value))
                    continue
                if isinstance(v, ast.FormattedValue) and v.conversion == -1 and v.format_spec is None:
                    parts.append(f'(XPrim "format:plain" [{self.expr(v.value)}])')
                    continue
                if not isinstance(v, ast.FormattedValue) or v.conversion != -1 or not isinstance(v.format_spec, ast.JoinedStr):
                    raise Untranslatable('f-string part that is not {value:<align>{width}}')
                if len(v.format_spec.values) == 1 and isinstance(v.format_spec.values[0], ast.Constant) \
                        and isinstance(v.format_spec.values[0].value, str) and v.format_spec.values[0].value.startswith('%'):   # F2
                    parts.append(f'(XPrim "format:spec" [{self.expr(v.value)}; {self.const(v.format_spec.values[0].value)}])')
                    continue
                spec = [x for x in v.format_spec.values if not (isinstance(x, ast.Constant) and x.value == '')]
                if not (len(spec) == 2 and isinstance(spec[0], ast.Constant) and spec[0].value in ('<', '>')
                        and isinstance(spec[1], ast.FormattedValue) and spec[1].conversion == -1
                        and spec[1].format_spec is None):
                    raise Untranslatable('f-string format spec that is not <align>{width}')
                parts.append(f'(XPrim "format:{spec[0].value}" [{self.expr(v.value)}; {self.expr(spec[1].value)}])')
            return f'(XPrim "fstr" {glist(parts)})'
        c = enum_const(self, e)                                                            # T9
        if c is not None:
            return c
        if isinstance(e, ast.Call) and isinstance(e.func, ast.Attribute) and not e.keywords \
                and not any(isinstance(a, ast.Starred) for a in e.args):
            f = e.func
            if isinstance(f.value, ast.Name) and f.value.id == self.self_name and f.attr in self.VALUE_CALLABLES:   # A1
                return f'(XPrim "apply" {glist([self.expr(f)] + [self.expr(a) for a in e.args])})'
            if isinstance(f.value, ast.Attribute) and isinstance(f.value.value, ast.Name) \
                    and f.value.value.id == self.self_name and f.attr in self.SELF_ATTR_MUTATORS:                  # A2
                return (f'(XMethod (TSelf {py2mini.gstr(f.value.attr)}) {py2mini.gstr(f.attr)} '
                        f'{glist([self.expr(a) for a in e.args])})')
        return super().expr(e)


class HeadTranslator(RenderTranslator):
    """the method without its last statement `return super().<same name>()`"""

    def __init__(self, func, refs, prims=()):
        super().__init__(func, refs, prims=prims)
        last = self.fd.body[-1]
        want = (f"Return(value=Call(func=Attribute(value=Call(func=Name(id='super', ctx=Load()), args=[], keywords=[]), "
                f"attr='{func.__name__}', ctx=Load()), args=[], keywords=[]))")
        if ast.dump(last) != want:
            raise Untranslatable(f'{func.__qualname__}: last statement is not `return super().{func.__name__}()`')
        self.fd.body = self.fd.body[:-1]


class TailTranslator(RenderTranslator):
    """__init__ without its first statement `super().__init__(ctx)` (the theorem runs the translated
    ColumnRenderer.__init__ first)"""

    def __init__(self, func, refs, prims=()):
        super().__init__(func, refs, prims=prims)
        body = [st for i, st in enumerate(self.fd.body)
                if not (i == 0 and isinstance(st, ast.Expr) and isinstance(st.value, ast.Constant))]
        want = ("Expr(value=Call(func=Attribute(value=Call(func=Name(id='super', ctx=Load()), args=[], keywords=[]), "
                f"attr='{func.__name__}', ctx=Load()), args=[Name(id='{self.params[1]}', ctx=Load())], keywords=[]))")
        if not body or ast.dump(body[0]) != want:
            raise Untranslatable(f'{func.__qualname__}: first statement is not `super().{func.__name__}({self.params[1]})`')
        self.fd.body = body[1:]


class TopTranslator(NumTranslator):
    """the top-level functions render_rows / render_csv / render_text: NumTranslator's rules (truth in test positions,
    tuple-pattern comprehensions, ...) plus
      T1  isinstance(x, list)            -> XPrim "isinstance:list" [x]
      T2  zip(*e)                        -> XPrim "zip*" [e]                       (transposition)
      T3  yield from e                   -> for $y in e: yield $y
      T4  for x in L: <body that mutates x in place through a list method>  (L a local list whose items are not
          aliased elsewhere)             -> $new = []; for x in L: <body>; $new.append(x)   then  L = $new
      T5  f.write(s) / w.writerow(r) / w.writerows(rs) on a LOCAL name  -> XMethod (the receiver is written back: the
          file is a value, its content; csv.writer(file) wraps that content and is the only way the file is reached afterwards)
      T7  for a, b in zip(X, L): <body that mutates b in place>  (L a local list, items not aliased elsewhere)
                                         -> $new = []; for a, b in zip(X, L): <body>; $new.append(b)
                                            then  L = $new + L[len($new):]
      T8  a = b = c = e                  -> a = e; b = a; c = a
      T9  E.M for a module-level enum.Enum class E whose member M has an int value (Align.LEFT) -> that int, read
          from the LIVE member (the encoding of an Align value is its .value: Model/PrimsRender.v "attr:align")
      T6  C(args, k=v) for a class C declared primitive keeps its keywords in the primitive's name (py2mini does that);
          F1 (f-strings) as in RenderTranslator."""

    IO_MUTATORS = {'write', 'writerow', 'writerows'}

    def __init__(self, func, refs, prims=(), coq_name='f', sink=None):
        # as FuncTranslator.__init__, but a trailing **kwargs that the body never mentions is dropped
        src = textwrap.dedent(inspect.getsource(func))
        fd = ast.parse(src).body[0]
        if isinstance(fd, ast.FunctionDef) and fd.args.kwarg is not None:
            kw = fd.args.kwarg.arg
            if any(isinstance(n, ast.Name) and n.id == kw for n in ast.walk(fd)):
                raise Untranslatable(f'**{kw} is used in the body')
            real = inspect.getsource
            try:
                fd.args.kwarg = None
                stripped = ast.unparse(fd)
                inspect.getsource = lambda f: stripped if f is func else real(f)
                super().__init__(func, refs, prims=prims, coq_name=coq_name, sink=sink)
            finally:
                inspect.getsource = real
        else:
            super().__init__(func, refs, prims=prims, coq_name=coq_name, sink=sink)

    def expr(self, e):
        if isinstance(e, ast.JoinedStr):
            return RenderTranslator.expr(self, e)
        c = enum_const(self, e)                                                                            # T9
        if c is not None:
            return c
        if isinstance(e, ast.Call) and isinstance(e.func, ast.Name) and e.func.id not in self.locals and not e.keywords:
            if e.func.id == 'isinstance' and len(e.args) == 2 and isinstance(e.args[1], ast.Name) \
                    and e.args[1].id not in self.locals and self.resolve_free(e.args[1].id) is list \
                    and self.resolve_free('isinstance') is isinstance:                                     # T1
                return f'(XPrim "isinstance:list" [{self.expr(e.args[0])}])'
            if e.func.id == 'zip' and len(e.args) == 1 and isinstance(e.args[0], ast.Starred) \
                    and self.resolve_free('zip') is zip:                                                   # T2
                return f'(XPrim "zip*" [{self.expr(e.args[0].value)}])'
        if isinstance(e, ast.Call) and isinstance(e.func, ast.Attribute) and isinstance(e.func.value, ast.Name) \
                and e.func.value.id in self.locals and e.func.value.id != self.self_name \
                and e.func.attr in self.IO_MUTATORS and not e.keywords:                                    # T5
            return (f'(XMethod (TName {py2mini.gstr(e.func.value.id)}) {py2mini.gstr(e.func.attr)} '
                    f'{glist([self.expr(a) for a in e.args])})')
        return super().expr(e)

    def stmt(self, s):
        if isinstance(s, ast.Assign) and len(s.targets) > 1 and all(isinstance(t, ast.Name) for t in s.targets):   # T8
            first = py2mini.gstr(s.targets[0].id)
            return '; '.join([f'(SAssign (TName {first}) {self.expr(s.value)})'] +
                             [f'(SAssign (TName {py2mini.gstr(t.id)}) (XName {first}))' for t in s.targets[1:]])
        if isinstance(s, ast.Expr) and isinstance(s.value, ast.YieldFrom):                                # T3
            self.locals.add('$y')
            return f'(SFor "$y" {self.expr(s.value.value)} [(SYield (XName "$y"))])'
        if isinstance(s, ast.For) and isinstance(s.target, ast.Name) and isinstance(s.iter, ast.Name) \
                and s.iter.id in self.locals and not s.orelse and self._mutates(s.body, s.target.id):      # T4
            x, lst = s.target.id, s.iter.id
            for n in ast.walk(ast.Module(body=s.body, type_ignores=[])):
                if isinstance(n, ast.Name) and n.id == lst:
                    raise Untranslatable('in-place loop body mentions the list it iterates over')
                if isinstance(n, (ast.Return, ast.Break, ast.Continue, ast.Yield, ast.YieldFrom)):
                    raise Untranslatable('in-place loop body leaves the loop / yields')
            self.locals.add('$new')
            body = self.block(s.body)
            assert body.endswith(']')
            sep = '' if body == '[]' else '; '
            body = body[:-1] + sep + f'(SExpr (XMethod (TName "$new") "append" [(XName {py2mini.gstr(x)})]))]'
            return (f'(SAssign (TName "$new") (XList [])); (SFor {py2mini.gstr(x)} (XName {py2mini.gstr(lst)}) {body}); '
                    f'(SAssign (TName {py2mini.gstr(lst)}) (XName "$new"))')
        if isinstance(s, ast.For) and isinstance(s.target, ast.Tuple) and not s.orelse \
                and all(isinstance(t, ast.Name) for t in s.target.elts) and isinstance(s.iter, ast.Call) \
                and isinstance(s.iter.func, ast.Name) and s.iter.func.id == 'zip' and s.iter.func.id not in self.locals \
                and self.resolve_free('zip') is zip and not s.iter.keywords \
                and len(s.iter.args) == len(s.target.elts):                                               # T7
            hits = [(t.id, a) for t, a in zip(s.target.elts, s.iter.args) if self._mutates(s.body, t.id)]
            if hits:
                if len(hits) != 1 or not (isinstance(hits[0][1], ast.Name) and hits[0][1].id in self.locals):
                    raise Untranslatable('in-place loop over zip: exactly one mutated item, taken from a local list')
                x, lst = hits[0][0], hits[0][1].id
                for n in ast.walk(ast.Module(body=s.body, type_ignores=[])):
                    if isinstance(n, ast.Name) and n.id == lst:
                        raise Untranslatable('in-place loop body mentions the list it iterates over')
                    if isinstance(n, (ast.Return, ast.Break, ast.Continue, ast.Yield, ast.YieldFrom)):
                        raise Untranslatable('in-place loop body leaves the loop / yields')
                self.locals.add('$new')
                body = self.block(s.body)
                sep = '' if body == '[]' else '; '
                body = body[:-1] + sep + f'(SExpr (XMethod (TName "$new") "append" [(XName {py2mini.gstr(x)})]))]'
                names = glist([py2mini.gstr(t.id) for t in s.target.elts])
                g = py2mini.gstr(lst)
                return (f'(SAssign (TName "$new") (XList [])); (SForUnpack {names} {self.expr(s.iter)} {body}); '
                        f'(SAssign (TName {g}) (XBin OAdd (XName "$new") (XSlice (XName {g}) (Some (XLen (XName "$new"))) None)))')
        return super().stmt(s)

    @staticmethod
    def _mutates(body, x):
        for st in body:
            for n in ast.walk(st):
                if isinstance(n, ast.Call) and isinstance(n.func, ast.Attribute) and isinstance(n.func.value, ast.Name) \
                        and n.func.value.id == x and n.func.attr in py2mini.MUTATORS:
                    return True
        return False


TOP_PRIMS = ('builtins.max', 'builtins.any', 'builtins.zip', 'beanquery.query_render.RenderContext', '_csv.writer')


def spec_render():
    from beanquery import query_render as qr
    for cls in (qr.StringRenderer, qr.IntRenderer, qr.DictRenderer):
        for m in ('update', 'format', 'prepare'):
            owner = next(c for c in cls.__mro__ if m in c.__dict__)
            want = qr.ColumnRenderer if m == 'prepare' else qr.ObjectRenderer
            if owner is not want:
                raise Untranslatable(f'{cls.__name__}.{m} is no longer inherited from {want.__name__}')
    for cls in (qr.ObjectRenderer, qr.BoolRenderer, qr.DateRenderer):
        if 'prepare' in cls.__dict__:
            raise Untranslatable(f'{cls.__name__} overrides prepare')
    if qr.DecimalRenderer.__mro__[1] is not qr.ColumnRenderer:
        raise Untranslatable('DecimalRenderer no longer derives directly from ColumnRenderer')
    out = [('render_base_prepare', qr.ColumnRenderer.prepare, 'beanquery.query_render.ColumnRenderer.prepare', False)]
    for cls, short in ((qr.ObjectRenderer, 'object'), (qr.BoolRenderer, 'bool'), (qr.DateRenderer, 'date'),
                       (qr.DecimalRenderer, 'decimal')):
        for m in ('update', 'format'):
            out.append((f'render_{short}_{m}', cls.__dict__[m], f'beanquery.query_render.{cls.__name__}.{m}', False))
    out.append(('render_decimal_prepare_head', qr.DecimalRenderer.__dict__['prepare'],
                'beanquery.query_render.DecimalRenderer.prepare without its last statement `return super().prepare()`', True))
    out.append(('render_rows_fn', qr.render_rows, 'beanquery.query_render.render_rows', 'top'))
    out.append(('render_csv_fn', qr.render_csv, 'beanquery.query_render.render_csv (without its unused **kwargs)', 'top'))
    out.append(('render_text_fn', qr.render_text, 'beanquery.query_render.render_text (without its unused **kwargs)', 'top'))
    # (after the top-level functions, so that their opaque callables keep the numbers 0 and 1)
    # Amount / Position renderers (bld-render3): every method; prepare without its last `return super().prepare()`,
    # __init__ without its first `super().__init__(ctx)`
    for cls in (qr.DecimalRenderer, qr.AmountRenderer, qr.PositionRenderer):
        if cls.__mro__[1] is not qr.ColumnRenderer:
            raise Untranslatable(f'{cls.__name__} no longer derives directly from ColumnRenderer')
    out.append(('render_base_init', qr.ColumnRenderer.__init__, 'beanquery.query_render.ColumnRenderer.__init__', False))
    out.append(('render_decimal_init_tail', qr.DecimalRenderer.__dict__['__init__'],
                'beanquery.query_render.DecimalRenderer.__init__ without its first statement `super().__init__(ctx)`', 'tail'))
    for cls, short in ((qr.AmountRenderer, 'amount'), (qr.PositionRenderer, 'position')):
        q = f'beanquery.query_render.{cls.__name__}'
        out.append((f'render_{short}_init_tail', cls.__dict__['__init__'],
                    f'{q}.__init__ without its first statement `super().__init__(ctx)`', 'tail'))
        out.append((f'render_{short}_update', cls.__dict__['update'], f'{q}.update', False))
        out.append((f'render_{short}_prepare_head', cls.__dict__['prepare'],
                    f'{q}.prepare without its last statement `return super().prepare()`', True))
        out.append((f'render_{short}_format', cls.__dict__['format'], f'{q}.format', False))
    # CostRenderer (bld-render4): derives from ObjectRenderer, which must add nothing to ColumnRenderer's __init__ / prepare
    # (so `super().__init__(ctx)` / `super().prepare()` ARE ColumnRenderer's, tied above)
    if qr.CostRenderer.__mro__[1:3] != (qr.ObjectRenderer, qr.ColumnRenderer):
        raise Untranslatable('CostRenderer no longer derives from ObjectRenderer < ColumnRenderer')
    if '__init__' in qr.ObjectRenderer.__dict__:
        raise Untranslatable('ObjectRenderer overrides __init__')
    q = 'beanquery.query_render.CostRenderer'
    out.append(('render_cost_init_tail', qr.CostRenderer.__dict__['__init__'],
                f'{q}.__init__ without its first statement `super().__init__(ctx)`', 'tail'))
    out.append(('render_cost_update', qr.CostRenderer.__dict__['update'], f'{q}.update', False))
    out.append(('render_cost_prepare_head', qr.CostRenderer.__dict__['prepare'],
                f'{q}.prepare without its last statement `return super().prepare()`', True))
    out.append(('render_cost_format', qr.CostRenderer.__dict__['format'], f'{q}.format', False))
    return out


class RenderGroup:
    @staticmethod
    def translate_all(spec, prims=()):
        refs = py2mini.Refs()
        defs, info = [], {}
        for name, fn, origin, head in spec:
            if head == 'top':
                tr = TopTranslator(fn, refs, prims=tuple(prims) + TOP_PRIMS, coq_name=name)
            elif head == 'tail':
                tr = TailTranslator(fn, refs, prims=prims)
            else:
                tr = (HeadTranslator if head else RenderTranslator)(fn, refs, prims=prims)
            term, defaults = tr.translate()
            defs.append((name, origin, term, defaults))
            info[name] = {'origin': origin, 'lines': len(textwrap.dedent(inspect.getsource(fn)).splitlines())}
        return py2mini.render(defs, refs), info


# ---------------------------------------------------------------- group `renderset` (bld-render5): SetRenderer, EnumRenderer
# Its own generated file (coq/Gen/SrcRenderSet.v) so that group `render` and its proofs are untouched.  `sum` and `sorted` are
# primitives here (Model/PrimsRenderSet.v); generator expressions are translated as list comprehensions (py2mini).
SET_PRIMS = PRIMS + ('builtins.sum', 'builtins.sorted')


def spec_renderset():
    from beanquery import query_render as qr
    if qr.EnumRenderer.__mro__[1:3] != (qr.ObjectRenderer, qr.ColumnRenderer):
        raise Untranslatable('EnumRenderer no longer derives from ObjectRenderer < ColumnRenderer')
    for m in ('__init__', 'update', 'prepare'):
        if m in qr.EnumRenderer.__dict__:
            raise Untranslatable(f'EnumRenderer overrides {m}')
    if qr.SetRenderer.__mro__[1] is not qr.ColumnRenderer:
        raise Untranslatable('SetRenderer no longer derives directly from ColumnRenderer')
    if 'prepare' in qr.SetRenderer.__dict__:
        raise Untranslatable('SetRenderer overrides prepare')
    q = 'beanquery.query_render'
    return [
        ('render_enum_format', qr.EnumRenderer.__dict__['format'], f'{q}.EnumRenderer.format', False),
        ('render_set_init_tail', qr.SetRenderer.__dict__['__init__'],
         f'{q}.SetRenderer.__init__ without its first statement `super().__init__(ctx)`', 'tail'),
        ('render_set_update', qr.SetRenderer.__dict__['update'], f'{q}.SetRenderer.update', False),
        ('render_set_format', qr.SetRenderer.__dict__['format'], f'{q}.SetRenderer.format', False),
        # the sort key of InventoryRenderer.format (a staticmethod: a plain function of the position)
        ('render_inv_sortkey', _plain(qr.InventoryRenderer.__dict__['positionsortkey']),
         f'{q}.InventoryRenderer.positionsortkey', False),
    ]


def _plain(f):
    if not isinstance(f, staticmethod):
        raise Untranslatable('InventoryRenderer.positionsortkey is no longer a staticmethod')
    return f.__func__
