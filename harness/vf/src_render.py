"""Group `render` of the translator-based tie (see PYMINI.md): the two-phase column renderers of
beanquery/query_render.py for the exact datatypes (C16).

Translated on every run from the source of the IMPORTED classes into coq/Gen/SrcRender.v:
  ColumnRenderer.prepare; ObjectRenderer.update/format (StringRenderer, IntRenderer, DictRenderer inherit them: checked);
  BoolRenderer.update/format; DateRenderer.update/format; DecimalRenderer.update/format and DecimalRenderer.prepare
  WITHOUT its last statement, which must be exactly `return super().prepare()` (checked structurally; the theorem then
  runs the translated ColumnRenderer.prepare on the resulting fields).

Rules added to py2mini's fragment by RenderTranslator:
  F1  an f-string whose parts are `{e:<spec>}` with <spec> = one of < > followed by `{width expression}`:
      f'{a:>{w}}{b:<{v}}' -> fstr(format:>(a, w), format:<(b, v))   (primitives "fstr", "format:>", "format:<":
      Model/PrimsRender.v, from Render.v's rjust / ljust / py_str).
Everything else fails closed with py2mini.Untranslatable."""
import ast
import inspect
import textwrap

from . import py2mini
from .py2mini import Untranslatable, glist

PRIMS = ('builtins.max', 'builtins.str')


class RenderTranslator(py2mini.FuncTranslator):
    def expr(self, e):
        if isinstance(e, ast.JoinedStr):                                                   # F1
            parts = []
            for v in e.values:
                if not isinstance(v, ast.FormattedValue) or v.conversion != -1 or not isinstance(v.format_spec, ast.JoinedStr):
                    raise Untranslatable('f-string part that is not {value:<align>{width}}')
                spec = [x for x in v.format_spec.values if not (isinstance(x, ast.Constant) and x.value == '')]
                if not (len(spec) == 2 and isinstance(spec[0], ast.Constant) and spec[0].value in ('<', '>')
                        and isinstance(spec[1], ast.FormattedValue) and spec[1].conversion == -1
                        and spec[1].format_spec is None):
                    raise Untranslatable('f-string format spec that is not <align>{width}')
                parts.append(f'(XPrim "format:{spec[0].value}" [{self.expr(v.value)}; {self.expr(spec[1].value)}])')
            return f'(XPrim "fstr" {glist(parts)})'
        return super().expr(e)


class HeadTranslator(RenderTranslator):
    """the method without its last statement `return super().<same name>()`"""

    def __init__(self, func, refs, prims=()):
        super().__init__(func, refs, prims=prims)
        last = self.fd.body[-1]
        want = (f"Return(value=Call(func=Attribute(value=Call(func=Name(id='super', ctx=Load()), args=[], keywords=[]), "
                f"attr='{func.__name__}', ctx=Load()), args=[], keywords=[]))")
        if ast.dump(last) != want:
            raise Untranslatable(f'{func.__qualname__}: last statement is not `return super().{func.__name__}()`')
        self.fd.body = self.fd.body[:-1]


def spec_render():
    from beanquery import query_render as qr
    for cls in (qr.StringRenderer, qr.IntRenderer, qr.DictRenderer):
        for m in ('update', 'format', 'prepare'):
            owner = next(c for c in cls.__mro__ if m in c.__dict__)
            want = qr.ColumnRenderer if m == 'prepare' else qr.ObjectRenderer
            if owner is not want:
                raise Untranslatable(f'{cls.__name__}.{m} is no longer inherited from {want.__name__}')
    for cls in (qr.ObjectRenderer, qr.BoolRenderer, qr.DateRenderer):
        if 'prepare' in cls.__dict__:
            raise Untranslatable(f'{cls.__name__} overrides prepare')
    if qr.DecimalRenderer.__mro__[1] is not qr.ColumnRenderer:
        raise Untranslatable('DecimalRenderer no longer derives directly from ColumnRenderer')
    out = [('render_base_prepare', qr.ColumnRenderer.prepare, 'beanquery.query_render.ColumnRenderer.prepare', False)]
    for cls, short in ((qr.ObjectRenderer, 'object'), (qr.BoolRenderer, 'bool'), (qr.DateRenderer, 'date'),
                       (qr.DecimalRenderer, 'decimal')):
        for m in ('update', 'format'):
            out.append((f'render_{short}_{m}', cls.__dict__[m], f'beanquery.query_render.{cls.__name__}.{m}', False))
    out.append(('render_decimal_prepare_head', qr.DecimalRenderer.__dict__['prepare'],
                'beanquery.query_render.DecimalRenderer.prepare without its last statement `return super().prepare()`', True))
    return out


class RenderGroup:
    @staticmethod
    def translate_all(spec, prims=()):
        refs = py2mini.Refs()
        defs, info = [], {}
        for name, fn, origin, head in spec:
            tr = (HeadTranslator if head else RenderTranslator)(fn, refs, prims=prims)
            term, defaults = tr.translate()
            defs.append((name, origin, term, defaults))
            info[name] = {'origin': origin, 'lines': len(textwrap.dedent(inspect.getsource(fn)).splitlines())}
        return py2mini.render(defs, refs), info
