"""Gen/Src.v: PyMini translations of the small imperative cores of beanquery (see Model/PyMini.v, py2mini.py)."""
import os

from . import core, impl  # noqa: F401  (impl forces the repository under test onto sys.path)
from . import py2mini


def spec_cursor():
    from beanquery import cursor
    C = cursor.Cursor
    return [
        ('cursor_fetchone', C.fetchone, 'beanquery.cursor.Cursor.fetchone'),
        ('cursor_fetchmany', C.fetchmany, 'beanquery.cursor.Cursor.fetchmany'),
        ('cursor_fetchall', C.fetchall, 'beanquery.cursor.Cursor.fetchall'),
        ('cursor_rowcount', C.rowcount.fget, 'beanquery.cursor.Cursor.rowcount'),
        ('cursor_rownumber', C.rownumber.fget, 'beanquery.cursor.Cursor.rownumber'),
        ('cursor_description', C.description.fget, 'beanquery.cursor.Cursor.description'),
    ]


def spec_eval():
    from beanquery import query_compile as qc, query_env  # noqa: F401
    out = [
        ('node_unary', qc.EvalUnaryOp.__call__, 'beanquery.query_compile.EvalUnaryOp.__call__'),
        ('node_unary_safe', qc.EvalUnaryOpSafe.__call__, 'beanquery.query_compile.EvalUnaryOpSafe.__call__'),
        ('node_binary', qc.EvalBinaryOp.__call__, 'beanquery.query_compile.EvalBinaryOp.__call__'),
        ('node_between', qc.EvalBetween.__call__, 'beanquery.query_compile.EvalBetween.__call__'),
        ('node_and', qc.EvalAnd.__call__, 'beanquery.query_compile.EvalAnd.__call__'),
        ('node_or', qc.EvalOr.__call__, 'beanquery.query_compile.EvalOr.__call__'),
        ('node_coalesce', qc.EvalCoalesce.__call__, 'beanquery.query_compile.EvalCoalesce.__call__'),
        ('node_constant', qc.EvalConstant.__call__, 'beanquery.query_compile.EvalConstant.__call__'),
    ]
    # the NULL-strict wrapper query_env.function() puts around every plain scalar function: one translation per
    # (pass_row, pass_context) configuration; every registered wrapper must share that code object
    seen = {}
    for name, ovs in qc.FUNCTIONS.items():
        for f in ovs:
            call = f.__dict__.get('__call__')
            if call is None or call.__qualname__ != 'function.<locals>.decorator.<locals>.Func.__call__':
                continue
            cells = dict(zip(call.__code__.co_freevars, (c.cell_contents for c in call.__closure__)))
            key = (bool(cells.get('pass_row')), bool(cells.get('pass_context')))
            seen.setdefault(key, (call, f'{name}'))
    for (pr, pc), (call, nm) in sorted(seen.items()):
        tag = 'plain' if not pr and not pc else ('row' if pr else 'context')
        out.append((f'func_wrapper_{tag}', call,
                    f'beanquery.query_env.function.<locals>.decorator.<locals>.Func.__call__ (pass_row={pr}, '
                    f'pass_context={pc}; instance: {nm})'))
    return out


def wrapper_census():
    """every overload in FUNCTIONS: is it a query_env.function wrapper (shares the translated code object)?"""
    from beanquery import query_compile as qc
    codes = {}
    n_wrapped = n_other = 0
    for name, ovs in qc.FUNCTIONS.items():
        for f in ovs:
            call = f.__dict__.get('__call__')
            if call is not None and call.__qualname__ == 'function.<locals>.decorator.<locals>.Func.__call__':
                codes.setdefault(id(call.__code__), 0)
                codes[id(call.__code__)] += 1
                n_wrapped += 1
            else:
                n_other += 1
    return {'wrapped_overloads': n_wrapped, 'distinct_wrapper_code_objects': len(codes), 'class_overloads': n_other}


GROUPS = {'cursor': ('SrcCursor.v', spec_cursor), 'eval': ('SrcEval.v', spec_eval)}


def generate(group):
    """Regenerate coq/Gen/Src<Group>.v from the live source; raises py2mini.Untranslatable (fail closed)."""
    fname, spec = GROUPS[group]
    text, info = py2mini.translate_all(spec())
    changed = core.write_if_changed(os.path.join(core.COQ, 'Gen', fname), text)
    out = {f'src_{group}_translated_functions': sorted(info), f'src_{group}_regenerated': changed,
           f'src_{group}_source_lines_translated': sum(v['lines'] for v in info.values())}
    if group == 'eval':
        out['src_wrapper_census'] = wrapper_census()
    return out


if __name__ == '__main__':
    for g in GROUPS:
        print(generate(g))
