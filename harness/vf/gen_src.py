"""Gen/Src.v: PyMini translations of the small imperative cores of beanquery (see Model/PyMini.v, py2mini.py)."""
import os

from . import core, impl  # noqa: F401  (impl forces the repository under test onto sys.path)
from . import py2mini


def spec_cursor():
    from beanquery import cursor
    C = cursor.Cursor
    return [
        ('cursor_fetchone', C.fetchone, 'beanquery.cursor.Cursor.fetchone'),
        ('cursor_fetchmany', C.fetchmany, 'beanquery.cursor.Cursor.fetchmany'),
        ('cursor_fetchall', C.fetchall, 'beanquery.cursor.Cursor.fetchall'),
        ('cursor_rowcount', C.rowcount.fget, 'beanquery.cursor.Cursor.rowcount'),
        ('cursor_rownumber', C.rownumber.fget, 'beanquery.cursor.Cursor.rownumber'),
        ('cursor_description', C.description.fget, 'beanquery.cursor.Cursor.description'),
    ] + spec_cursor_api()


def spec_cursor_api():
    """C10 (bld-api): the state-changing half of the Cursor API and Column's sequence protocol."""
    from beanquery import cursor
    C, Col = cursor.Cursor, cursor.Column
    out = [
        ('cursor_init', C.__init__, 'beanquery.cursor.Cursor.__init__'),
        ('cursor_execute', C.execute, 'beanquery.cursor.Cursor.execute'),
        ('cursor_connection', C.connection.fget, 'beanquery.cursor.Cursor.connection'),
        ('cursor_executemany', C.executemany, 'beanquery.cursor.Cursor.executemany'),
        ('cursor_iter', C.__iter__, 'beanquery.cursor.Cursor.__iter__'),
        ('column_init', Col.__init__, 'beanquery.cursor.Column.__init__'),
        ('column_len', Col.__len__, 'beanquery.cursor.Column.__len__'),
        ('column_getitem', Col.__getitem__, 'beanquery.cursor.Column.__getitem__'),
    ]
    for nm in column_var_names():
        out.append((f'column_prop_{nm}', getattr(Col, nm).fget, f'beanquery.cursor.Column.{nm}'))
    return out


def column_var_names():
    """the attribute names behind the class attribute Column._vars (a tuple of operator.attrgetter objects)"""
    import operator
    from beanquery import cursor
    names = []
    for g in cursor.Column._vars:
        fn, args = g.__reduce__()
        if fn is not operator.attrgetter or len(args) != 1 or '.' in args[0]:
            raise py2mini.Untranslatable(f'Column._vars item {g!r} is not a plain attrgetter')
        names.append(args[0])
    return names


def extra_cursor():
    names = column_var_names()
    return ('\n(* beanquery.cursor.Column._vars: the attribute each attrgetter reads, and the translated property *)\n'
            'Definition column_vars : list (string * fdef) :=\n  ' +
            py2mini.glist([f'({py2mini.gstr(n)}, column_prop_{n})' for n in names]) + '.\n')


def spec_eval():
    from beanquery import query_compile as qc, query_env  # noqa: F401
    out = [
        ('node_unary', qc.EvalUnaryOp.__call__, 'beanquery.query_compile.EvalUnaryOp.__call__'),
        ('node_unary_safe', qc.EvalUnaryOpSafe.__call__, 'beanquery.query_compile.EvalUnaryOpSafe.__call__'),
        ('node_binary', qc.EvalBinaryOp.__call__, 'beanquery.query_compile.EvalBinaryOp.__call__'),
        ('node_between', qc.EvalBetween.__call__, 'beanquery.query_compile.EvalBetween.__call__'),
        ('node_and', qc.EvalAnd.__call__, 'beanquery.query_compile.EvalAnd.__call__'),
        ('node_or', qc.EvalOr.__call__, 'beanquery.query_compile.EvalOr.__call__'),
        ('node_coalesce', qc.EvalCoalesce.__call__, 'beanquery.query_compile.EvalCoalesce.__call__'),
        ('node_constant', qc.EvalConstant.__call__, 'beanquery.query_compile.EvalConstant.__call__'),
    ]
    # the NULL-strict wrapper query_env.function() puts around every plain scalar function: one translation per
    # (pass_row, pass_context) configuration; every registered wrapper must share that code object
    seen = {}
    for name, ovs in qc.FUNCTIONS.items():
        for f in ovs:
            call = f.__dict__.get('__call__')
            if call is None or call.__qualname__ != 'function.<locals>.decorator.<locals>.Func.__call__':
                continue
            cells = dict(zip(call.__code__.co_freevars, (c.cell_contents for c in call.__closure__)))
            key = (bool(cells.get('pass_row')), bool(cells.get('pass_context')))
            seen.setdefault(key, (call, f'{name}'))
    for (pr, pc), (call, nm) in sorted(seen.items()):
        tag = 'plain' if not pr and not pc else ('row' if pr else 'context')
        out.append((f'func_wrapper_{tag}', call,
                    f'beanquery.query_env.function.<locals>.decorator.<locals>.Func.__call__ (pass_row={pr}, '
                    f'pass_context={pc}; instance: {nm})'))
    return out


def wrapper_census():
    """every overload in FUNCTIONS: is it a query_env.function wrapper (shares the translated code object)?"""
    from beanquery import query_compile as qc
    codes = {}
    n_wrapped = n_other = 0
    for name, ovs in qc.FUNCTIONS.items():
        for f in ovs:
            call = f.__dict__.get('__call__')
            if call is not None and call.__qualname__ == 'function.<locals>.decorator.<locals>.Func.__call__':
                codes.setdefault(id(call.__code__), 0)
                codes[id(call.__code__)] += 1
                n_wrapped += 1
            else:
                n_other += 1
    return {'wrapped_overloads': n_wrapped, 'distinct_wrapper_code_objects': len(codes), 'class_overloads': n_other}


# group -> (generated file, spec function[, options]); options: 'prims' (qualified names translated to XPrim),
# 'translator' (a FuncTranslator subclass), 'extra' (function returning Coq text appended to the generated file)
GROUPS = {'cursor': ('SrcCursor.v', spec_cursor, {'extra': extra_cursor}), 'eval': ('SrcEval.v', spec_eval)}


def _register_exec():
    """C03/C01/C15/C02 (bld-exec): the executor core of query_execute.py; spec and synthetic translators in src_exec.py"""
    from . import src_exec
    GROUPS['exec'] = ('SrcExec.v', src_exec.spec_exec, {'translator': src_exec.ExecTranslator, 'prims': src_exec.PRIMS})


_register_exec()


def _register_api():
    """C09/C07/C19 (bld-api): groups params, naming, shell; specs and translator rules in src_api.py"""
    from . import src_api
    src_api.register(GROUPS)


_register_api()


def _register_env():
    """C18 (bld-env): the scalar function library of query_env.py; spec and translators in src_env.py"""
    from . import src_env
    GROUPS['env'] = ('SrcEnv.v', src_env.spec_env, {'translator': src_env.EnvTranslator, 'prims': src_env.PRIMS})


_register_env()


def _register_envledger():
    """C12/C11 (bld-env): the ledger / inventory / metadata functions of query_env.py; spec in src_envledger.py"""
    from . import src_envledger
    GROUPS['envledger'] = ('SrcEnvLedger.v', src_envledger.spec_envledger,
                           {'translator': src_envledger.EnvLedgerTranslator, 'prims': src_envledger.PRIMS})


_register_envledger()


def _register_ledger():
    """C11-C14 (bld-ledger): the ledger-facing cores (BeanTable.prepare, the table iterators, the balance column,
    execute_print's selection loop, transform_balances/journal); specs and translator rules in src_ledger.py"""
    from . import src_ledger
    GROUPS.update(src_ledger.GROUPS)


_register_ledger()


def _register_render():
    """C17/C16 (bld-render): groups numberify (numberify.py) and render (column renderers of query_render.py);
    specs and translator rules in src_numberify.py / src_render.py"""
    from . import src_numberify
    GROUPS['numberify'] = ('SrcNumberify.v', src_numberify.spec_numberify,
                           {'translator': src_numberify.NumberifyTranslator, 'prims': src_numberify.PRIMS})
    from . import src_render
    GROUPS['render'] = ('SrcRender.v', src_render.spec_render,
                        {'translator': src_render.RenderGroup, 'prims': src_render.PRIMS})
    # bld-render5: SetRenderer / EnumRenderer in their own generated file
    GROUPS['renderset'] = ('SrcRenderSet.v', src_render.spec_renderset,
                           {'translator': src_render.RenderGroup, 'prims': src_render.SET_PRIMS})


_register_render()


def _register_agg():
    """C02 (bld-agg): the aggregated branch of execute_select, Allocator and the aggregator protocol methods of
    query_env.py; spec, desugaring rules and translators in src_agg.py"""
    from . import src_agg
    GROUPS['agg'] = ('SrcAgg.v', src_agg.spec_agg, {'translator': src_agg.AggGroup, 'prims': src_agg.PRIMS})


_register_agg()


def _register_agginv():
    """C12 (bld-inv): the aggregators whose state is an Inventory (SumAmount / SumPosition / SumInventory), left out of
    group agg; spec and the store-slot method rule A10 in src_agginv.py"""
    from . import src_agginv
    GROUPS['agginv'] = ('SrcAggInv.v', src_agginv.spec_agginv,
                        {'translator': src_agginv.AggInvGroup, 'prims': src_agginv.PRIMS})


_register_agginv()


def _register_compiler():
    """C05 (bld-compiler): groups lookup (types.function_lookup / _bases) and compiler (ORDER BY / GROUP BY / PIVOT BY
    resolution, the aggregate walk, operator overload selection); specs and translator rules in src_compiler.py"""
    from . import src_compiler
    src_compiler.register(GROUPS)


_register_compiler()


def _register_subquery():
    """C08 (bld-sub): SubqueryTable, EvalConstantSubquery1D, the IN / NOT IN operator node; spec, translator rules and the
    structural reading of the column factory in src_subquery.py"""
    from . import src_subquery
    GROUPS['subquery'] = ('SrcSubquery.v', src_subquery.spec_subquery,
                          {'translator': src_subquery.SubqueryGroup, 'prims': src_subquery.PRIMS})


_register_subquery()


def _register_misc():
    """C10/C07/C19 (bld-misc): groups column (Column.__getitem__ with the subscript primitive; src_column.py), prelude (the
    statements of execute_select in front of the row loops; src_prelude.py) and shell2 (BQLShell.on_Select, do_run;
    src_shell2.py)"""
    from . import src_column, src_prelude, src_shell2
    src_column.register(GROUPS)
    src_prelude.register(GROUPS)
    src_shell2.register(GROUPS)
    from . import src_shell3            # bld-shell3: the whole of BQLShell.do_run
    src_shell3.register(GROUPS)
    from . import src_attach            # bld-shell3 (C09): Connection.__init__ / attach
    src_attach.register(GROUPS)
    from . import src_attach2           # bld-inv2 (C09): sources.beancount.attach (the connection's containers)
    src_attach2.register(GROUPS)


_register_misc()


def _register_semantics():
    """C06 (bld-sem): group semantics (the methods of BQLSemantics, parser.parse, ParseError.__init__; src_semantics.py)"""
    from . import src_semantics
    src_semantics.register(GROUPS)


_register_semantics()


def _register_exprs():
    """C04 (bld-compiler4): group exprs (Compiler._unaryop / _between / _inop / _binaryop / _function: overload selection,
    implicit casts, constant folding); spec and translator rules X1-X6 in src_exprs.py"""
    from . import src_exprs
    src_exprs.register(GROUPS)


_register_exprs()


def _register_env2():
    """C18 (bld-env2): date_bin(relativedelta, date, date) with its `while True` loops fuelled; spec in src_env2.py"""
    from . import src_env2
    GROUPS['env2'] = ('SrcEnv2.v', src_env2.spec_env2, {'translator': src_env2.Env2Translator, 'prims': src_env2.PRIMS})


_register_env2()


def _register_hasaccount():
    """C14 (bld-env2): has_account(context, pattern), the FROM filter function; spec and rules in src_hasaccount.py"""
    from . import src_hasaccount
    src_hasaccount.register(GROUPS)


_register_hasaccount()


def _register_renderinv():
    """C16 (bld-render6): InventoryRenderer.format, the expanded layout; spec and rules I0-I2 in src_renderinv.py"""
    from . import src_renderinv
    src_renderinv.register(GROUPS)


_register_renderinv()


def generate(group):
    """Regenerate coq/Gen/Src<Group>.v from the live source; raises py2mini.Untranslatable (fail closed)."""
    fname, spec, *rest = GROUPS[group]
    opts = rest[0] if rest else {}
    if 'translator' in opts:
        text, info = opts['translator'].translate_all(spec(), prims=opts.get('prims', ()))
    else:
        text, info = py2mini.translate_all(spec(), prims=opts.get('prims', ()))
    if 'extra' in opts:
        text += opts['extra']()
    changed = core.write_if_changed(os.path.join(core.COQ, 'Gen', fname), text)
    out = {f'src_{group}_translated_functions': sorted(info), f'src_{group}_regenerated': changed,
           f'src_{group}_source_lines_translated': sum(v['lines'] for v in info.values())}
    if group == 'eval':
        out['src_wrapper_census'] = wrapper_census()
    return out


if __name__ == '__main__':
    for g in GROUPS:
        print(generate(g))
