"""Group `agginv` of the translator-based tie (see PYMINI.md): the aggregators of query_env.py whose state is a
Beancount Inventory - SumAmount, SumPosition, SumInventory (`sum` over Amount / Position / Inventory) - which group
`agg` (src_agg.py, C02) leaves out because their fold is C12's (Model/Inventory.v).

Translated on every run from the source of the IMPORTED classes (inspect.getsource + ast) into coq/Gen/SrcAggInv.v:

* for every class registered in query_compile.FUNCTIONS whose name src_agg.LEFT_OUT lists: the five protocol methods
  allocate / initialize / update / finalize / __call__, resolved through the MRO of the LIVE class, one term per
  distinct function object (`aggi_<Owner>_<method>`), and the table `agginv_classes` (qualified class name, registered
  BQL name, argument types, the class's resolved methods).  A class of LEFT_OUT that is no longer registered, or a
  registered aggregator over Amount / Position / Inventory arguments that is none of them, is a broken tie;
* for the same classes, the table `agginv_dtypes`: the qualified name of the `dtype` attribute of a LIVE instance (built
  by the class's own __init__ on a dummy operand) - the callable EvalAggregator.initialize calls for the fresh
  accumulator of a group - and whether calling it yields an empty beancount Inventory.

The methods are translated with src_agg.MethodTranslator (rules A1 callee side: a protocol method returns its first
parameter, the store; A8: item assignment on the store) plus one rule for these classes:

A10 method of a store slot   `p[i].m(args)` as an expression STATEMENT (result discarded), p a local list (the store),
                      i an attribute of self (the handle), m one of add_amount / add_position / add_inventory
                      -> `$slot = p[i]; $slot.m(args); p[i] = $slot`, the middle statement being a receiver-updating
                      method call (XMethod on the local `$slot`, as `add_position` in src_ledger.py) whose meaning is
                      the primitive "method:<m>" (Model/PrimsAggInv.v), the last one rule A8.
                      Fact this encodes (value semantics, NO aliasing): the Inventory in slot i is reachable only
                      through p[i] - in particular it is not one of the argument objects nor an object another slot,
                      another group's store or a table row holds - so changing it in place is the same as storing the
                      changed value back.  The tie cannot see a violation of this fact (an aggregator that ADOPTS an
                      incoming Inventory as its accumulator computes the same VALUES here); a source that does so has a
                      different term (the proofs are about this term), and the effect itself is what the correspondence
                      streams "input-mutated aliasing check" (c12.py) look for on the implementation.
                      Anywhere else (in an expression whose value is used, on another receiver) such a call is not
                      desugared: it becomes the pure call "call:<m>", which has no meaning in Model/PrimsAggInv.v.

FIRST / LAST over inventories (bld-inv2, C12_source_first_last_*).  `first(x)` / `last(x)` with x an Inventory / Position /
Amount go through the SAME classes as over scalars (query_env.First / Last are registered once, for [types.Any]); what
was missing is (1) that fact as generated data and (2) the methods tied on stores whose slots hold ENCODED INVENTORIES
(group agg's theorems are over scalar `value` slots).  Appended to the group, AFTER everything else:
* `aggi_First_*` / `aggi_Last_*`: the protocol methods of every overload registered under `first` / `last` (whatever it
  is; an overload that is not an aggregator class is a broken tie), through the live MRO, same translator - a First.update
  that copies / mutates the value (an A10 call, a `copy.copy`) gives a different term;
* `first_last_overloads`: (registered name, qualified class, argument types, resolved methods) of EVERY overload of
  `first` and `last` in the live query_compile.FUNCTIONS, in registry order;
* `first_last_dispatch`: for every datatype that occurs in the registry (argument or result type of any function) plus
  Inventory / Position / Amount: which class the LIVE types.function_lookup(FUNCTIONS, name, [operand of that type])
  returns, for name = first and last.

Everything fails closed with py2mini.Untranslatable."""
import ast
import inspect

from . import py2mini, src_agg
from .py2mini import Untranslatable, gstr, glist

PRIMS = ()
SLOT = '$slot'
SLOT_MUTATORS = ('add_amount', 'add_position', 'add_inventory')
CLASSES = src_agg.LEFT_OUT
INVENTORY = 'beancount.core.inventory.Inventory'
# the argument types whose `sum` must be one of CLASSES
INV_TYPES = ('beancount.core.amount.Amount', 'beancount.core.position.Position', INVENTORY)

_last_report = {}


def _qual(t):
    return f'{getattr(t, "__module__", "?")}.{getattr(t, "__qualname__", getattr(t, "__name__", repr(t)))}'


class SlotMethodTranslator(src_agg.MethodTranslator):
    """a protocol method of an inventory aggregator (rules A1, A8 of src_agg.py and A10)"""

    def __init__(self, func, refs, prims=(), inout=None):
        super().__init__(func, refs, prims=prims, inout=inout)
        self.used_a10 = 0
        if SLOT in self.locals:
            raise Untranslatable(f'{func.__qualname__}: a local is named {SLOT}')

    def _slot_call(self, s):
        """`p[i].m(args)` as a statement -> (p, i, call) or None"""
        if not (isinstance(s, ast.Expr) and isinstance(s.value, ast.Call)):
            return None
        c = s.value
        f = c.func
        if not (isinstance(f, ast.Attribute) and f.attr in SLOT_MUTATORS and isinstance(f.value, ast.Subscript)):
            return None
        sub = f.value
        if isinstance(sub.slice, ast.Slice) or not src_agg._is_name(sub.value) or sub.value.id not in self.locals \
                or sub.value.id == self.self_name or not self._pure_index(sub.slice):
            return None
        if c.keywords or any(isinstance(a, ast.Starred) for a in c.args):
            return None
        return sub.value.id, sub.slice, c

    def block(self, body):
        out = []
        for s in body:
            sc = self._slot_call(s)
            if sc is None:
                out.append(s)
                continue
            p, i, c = sc                                                                     # A10
            self.used_a10 += 1
            self.locals.add(SLOT)
            load = ast.Subscript(value=ast.Name(id=p, ctx=ast.Load()), slice=i, ctx=ast.Load())
            store = ast.Subscript(value=ast.Name(id=p, ctx=ast.Load()), slice=i, ctx=ast.Store())
            call = ast.Call(func=ast.Attribute(value=ast.Name(id=SLOT, ctx=ast.Load()), attr=c.func.attr, ctx=ast.Load()),
                            args=list(c.args), keywords=[])
            out.append(ast.Assign(targets=[ast.Name(id=SLOT, ctx=ast.Store())], value=load))
            out.append(ast.Expr(value=call))
            out.append(ast.Assign(targets=[store], value=ast.Name(id=SLOT, ctx=ast.Load())))
        return super().block(out)

    def expr(self, e):
        if isinstance(e, ast.Call) and isinstance(e.func, ast.Attribute) and src_agg._is_name(e.func.value, SLOT) \
                and e.func.attr in SLOT_MUTATORS and not e.keywords:
            return (f'(XMethod (TName {gstr(SLOT)}) {gstr(e.func.attr)} '
                    f'{glist([self.expr(a) for a in e.args])})')
        return super().expr(e)


def inventory_aggregators():
    """the registered aggregator classes over Amount / Position / Inventory arguments, in registry order"""
    out = []
    for regname, cls in src_agg.aggregator_classes():
        key = src_agg._class_key(cls)
        intypes = [_qual(t) for t in cls.__intypes__]
        if key in CLASSES:
            out.append((regname, cls))
        elif any(t in INV_TYPES for t in intypes):
            raise Untranslatable(f'{cls.__module__}.{key}: an aggregator over {intypes} that is not one of {CLASSES}')
    missing = [k for k in CLASSES if k not in [src_agg._class_key(c) for _, c in out]]
    if missing:
        raise Untranslatable(f'aggregator classes no longer registered: {missing}')
    return out


def live_dtype(cls):
    """(qualified name of the dtype a live instance carries, does dtype() give an empty beancount Inventory)"""
    from beancount.core import inventory
    from beanquery import query_compile as qc
    operand = qc.EvalConstant(None, cls.__intypes__[0])
    node = cls(None, [operand])
    dt = node.dtype
    fresh = dt()
    empty = isinstance(fresh, inventory.Inventory) and fresh.is_empty() and len(fresh) == 0 and dt() is not fresh
    return _qual(dt), bool(empty)


def spec_agginv():
    items, classes, seen = [], [], {}
    for regname, cls in inventory_aggregators():
        key = src_agg._class_key(cls)
        row = []
        for m in src_agg.METHODS:
            owner, fn = src_agg.resolve_method(cls, m)
            cn = f'aggi_{owner.__qualname__}_{m.strip("_")}'
            if id(fn) not in seen:
                seen[id(fn)] = cn
                inout = True if m in src_agg.PROTOCOL else None
                items.append((cn, f'{owner.__module__}.{owner.__qualname__}.{m}',
                              (lambda fn, inout: lambda refs, prims: SlotMethodTranslator(fn, refs, prims=prims, inout=inout))
                              (fn, inout), len(inspect.getsource(fn).splitlines())))
            row.append(seen[id(fn)])
        intypes = ','.join(_qual(t) for t in cls.__intypes__)
        classes.append((key, f'{cls.__module__}.{key}', regname, intypes, row, live_dtype(cls)))
    fl = first_last_census(items, seen)
    return items, classes, fl


FIRST_LAST = ('first', 'last')


def _tyname(t):
    from beanquery import types
    return 'any' if t is types.Any else _qual(t)


def registry_datatypes():
    """every datatype that occurs as an argument or result type of a registered function, plus the three inventory
    types, deduplicated by identity, in order of qualified name"""
    from beanquery import query_compile as qc, types
    from beancount.core import amount, inventory, position
    out = [inventory.Inventory, position.Position, amount.Amount]
    for ovs in qc.FUNCTIONS.values():
        for f in ovs:
            for t in list(getattr(f, '__intypes__', ())) + [getattr(f, '__outtype__', None)]:
                if inspect.isclass(t) and not any(t is u for u in out):
                    out.append(t)
    return sorted(out, key=_qual)


def first_last_census(items, seen):
    """(overloads, dispatch); appends the methods of the overloads' classes to `items` (bld-inv2)"""
    from beanquery import query_compile as qc, types
    overloads, rows = [], {}
    for regname in FIRST_LAST:
        ovs = list(qc.FUNCTIONS.get(regname, ()))
        if not ovs:
            raise Untranslatable(f'no function registered under {regname!r}')
        for f in ovs:
            if not (inspect.isclass(f) and issubclass(f, qc.EvalAggregator)):
                raise Untranslatable(f'{regname}: the overload {f!r} is not an aggregator class')
            key = src_agg._class_key(f)
            if key not in rows:
                row = []
                for m in src_agg.METHODS:
                    owner, fn = src_agg.resolve_method(f, m)
                    cn = f'aggi_{owner.__qualname__}_{m.strip("_")}'
                    if id(fn) not in seen:
                        if cn in seen.values():
                            raise Untranslatable(f'{cn}: two function objects of this name')
                        seen[id(fn)] = cn
                        inout = True if m in src_agg.PROTOCOL else None
                        items.append((cn, f'{owner.__module__}.{owner.__qualname__}.{m}',
                                      (lambda fn, inout: lambda refs, prims: SlotMethodTranslator(fn, refs, prims=prims, inout=inout))
                                      (fn, inout), len(inspect.getsource(fn).splitlines())))
                    row.append(seen[id(fn)])
                rows[key] = row
            overloads.append((regname, f'{f.__module__}.{key}', ','.join(_tyname(t) for t in f.__intypes__), key))
    dispatch = []
    for regname in FIRST_LAST:
        for t in registry_datatypes():
            f = types.function_lookup(qc.FUNCTIONS, regname, [qc.EvalConstant(None, t)])
            dispatch.append((regname, _qual(t), 'None' if f is None else f'{f.__module__}.{src_agg._class_key(f)}'))
    return overloads, rows, dispatch


class AggInvGroup:
    """plugs into gen_src.generate through the 'translator' option"""

    @staticmethod
    def translate_all(spec, prims=()):
        items, classes, (fl_overloads, fl_rows, fl_dispatch) = spec
        refs = py2mini.Refs()
        defs, info, a10 = [], {}, {}
        for name, origin, build, nlines in items:
            tr = build(refs, prims)
            term, _defaults = tr.translate()
            origin = origin + '; parameters: ' + ', '.join(tr.params)
            if tr.used_a10:
                origin += f'; rule A10 (method of a store slot) used {tr.used_a10}x'
                a10[name] = tr.used_a10
            defs.append((name, origin, term, []))
            info[name] = {'origin': origin, 'lines': nlines}
        text = py2mini.render(defs, refs)
        text += ('\n(* the aggregator classes of query_compile.FUNCTIONS whose state is an Inventory (left out of Gen/SrcAgg.v) '
                 'and the function each\n   protocol method resolves to through the MRO of the live class *)\n'
                 'From Verif Require Import Model.PrimsAgg.\n')
        for key, qn, regname, intypes, row, _dt in classes:
            text += (f'Definition class_{key} : aggcls :=\n  {{| c_allocate := {row[0]}; c_initialize := {row[1]}; '
                     f'c_update := {row[2]}; c_finalize := {row[3]}; c_call := {row[4]} |}}.\n')
        text += ('Definition agginv_classes : list (string * string * string * aggcls) :=\n  ' +
                 glist([f'({gstr(qn)}, {gstr(regname)}, {gstr(intypes)}, class_{key})'
                        for key, qn, regname, intypes, _, _ in classes]) + '.\n')
        text += ('\n(* the `dtype` attribute of a live instance of each class (set by its __init__): the callable '
                 'EvalAggregator.initialize\n   calls for the fresh accumulator, and whether calling it gave a new empty '
                 'beancount Inventory *)\n'
                 'Definition agginv_dtypes : list (string * string * bool) :=\n  ' +
                 glist([f'({gstr(qn)}, {gstr(dt[0])}, {"true" if dt[1] else "false"})'
                        for _, qn, _, _, _, dt in classes]) + '.\n')
        text += ('\n(* bld-inv2: EVERY overload registered under `first` / `last` in the live query_compile.FUNCTIONS (name, class, '
                 'argument types,\n   the function each protocol method resolves to through the MRO of the live class) *)\n')
        for key, row in fl_rows.items():
            text += (f'Definition class_{key} : aggcls :=\n  {{| c_allocate := {row[0]}; c_initialize := {row[1]}; '
                     f'c_update := {row[2]}; c_finalize := {row[3]}; c_call := {row[4]} |}}.\n')
        text += ('Definition first_last_overloads : list (string * string * string * aggcls) :=\n  ' +
                 glist([f'({gstr(rn)}, {gstr(qn)}, {gstr(it)}, class_{key})' for rn, qn, it, key in fl_overloads]) + '.\n')
        text += ('\n(* what the live types.function_lookup(FUNCTIONS, name, [operand of that datatype]) returns, for every datatype '
                 'of the registry\n   and Inventory / Position / Amount *)\n'
                 'Definition first_last_dispatch : list (string * string * string) :=\n  ' +
                 glist([f'({gstr(a)}, {gstr(b)}, {gstr(c)})' for a, b, c in fl_dispatch]) + '.\n')
        _last_report.clear()
        _last_report.update({'src_agginv_first_last_overloads': [list(o[:3]) for o in fl_overloads],
                             'src_agginv_first_last_dispatch_types': len(fl_dispatch) // 2,
                             'src_agginv_classes': [c[1] for c in classes],
                             'src_agginv_rule_A10_uses': a10,
                             'src_agginv_dtypes': {c[1]: c[5][0] for c in classes}})
        return text, info


def report():
    return dict(_last_report)
