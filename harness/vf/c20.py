"""C20: thread isolation.

Correspondence: real threads, whose interleaving is DRIVEN by model schedules through a
harness BQL function `vyield(col)` registered with the public decorator (a condition
variable hands control to the next thread of the schedule), are compared
  (a) with the serial execution of the same statements (the property), and
  (b) with Model/Threads.v run on the same schedule by vm_compute (results AND the global
      trace of yield points: which thread passed which vyield value in which order).
generate() writes coq/Gen/SharedState.v: the inventory of process-wide state of the
imported beanquery modules (static scan + dynamic diff over a workload).
"""
import collections
import datetime
import decimal
import itertools
import sys
import threading
import types as pytypes

from . import core, impl
from .core import cZ, clist, copt, cbool
from .shrink import ddmin

import beanquery
from beanquery import query_env, parser as bq_parser
from beancount import loader
from beancount.core import data, inventory

EXTRA_TARGETS = ['Gen/SharedState.vo', 'Proofs/ThreadsProofs.vo']

ASSUMPTIONS = [
    'PARTIAL BY NATURE: a schedule step is one evaluation step (from one vyield call of a thread to its next; the '
    'theorems also cover yield points at every row and around every access to a shared cell, fine=true); '
    'interleavings finer than that - CPython byte-code level switches, GIL release inside C code (decimal, re, '
    'lru_cache internals), free-threaded builds - are NOT modelled; the free-running stress run is only a smoke test',
    'values are abstracted: an Inventory is its USD number (single-currency ledgers without costs), Decimal and '
    'bool are integers; columns are year, day, number, balance',
    'the statement language of the model is SELECT targets / SELECT key, aggregates GROUP BY 1 over #postings with '
    'vyield/vnullodd/empty/+/</AND/IN-subquery/placeholders; ORDER BY, DISTINCT, LIMIT, PIVOT, HAVING and the '
    'other tables hold no per-process state (see the dynamic diff) and are not in the model',
    'subqueries scan the same table as the outer query (so the check is independent of DESIGN 7 D2)',
    'statements outside the model language (FROM OPEN/CLOSE/CLEAR, ORDER BY/DISTINCT/LIMIT, PIVOT BY, HAVING, BALANCES, '
    'JOURNAL, FROM-subqueries, #entries/#accounts) are run under driven schedules and compared with their serial '
    'results only (10 fixed scenario pairs + 4 generated families x 2 topologies); the statement-model theorems do '
    'not speak about them',
    'first-scan-of-typed-table (generated family, impl-only, oracle = serial execution on ANOTHER fresh connection): '
    'for each of #prices #transactions #balances #notes #events #documents, 2-3 statements over that table (row scan '
    'with vyield over year/month/day of the date in a target or in WHERE, plain scan, aggregate) on a FRESH shared '
    'connection per schedule, so the first-ever scans of the table object are the threaded statements; ALL '
    'interleavings (3-6 directives per table, <= 252 per case); the tables of other sources (user tables, CSV) and '
    'ledgers with more rows are not exercised',
    'generated families (impl-only, oracle = serial execution; the serial results on one shared connection must also '
    'equal those on separate connections): same-text = 2-3 threads execute the IDENTICAL statement given as a str '
    'without parameters (or as one parsed object) with yield points between the aggregate values of a finalised '
    'group, in the scan phase, in plain/subquery/pivot statements; from-subquery-namespace = statements over '
    'FROM-subqueries whose column names collide (other positions / other types) with yield points at compile time '
    '(vyield of a constant is folded after the FROM clause is compiled and before later columns are bound); '
    'quick runs 10 schedules per case and topology, not all interleavings; '
    'placeholder-offset-collision = 2-3 DIFFERENT plain-text statements with 1-3 placeholders and own parameter values '
    'per thread, padded so that a placeholder sits at the same character offset in two texts as another ordinal, with a '
    'compile-time yield point before the first placeholder (controls: named parameters, positional against named, the '
    'identical text as text / as one parsed object); ALL interleavings in every tier when there are <= 252 of them',
    'the keyed-cell model (kcomp: column namespace of a FROM-subquery, aggregator nodes of a compiled statement) is '
    'tied to the code only through the inventory (shared = the inventory lists a cell the statement model does not '
    'interpret); its shared=true branch describes designs that the unchanged tree does not have and is validated '
    'only by the seeded-change experiments (the witness schedules of Properties/C20.v are the ones the driven runs '
    'found there)',
    'the inventory sees per-connection state only as attributes of the Connection object (fingerprint and size after '
    'every workload statement) and class-level containers only when the workload changes them or an instance method '
    'writes them through self (static AST scan); the attributes of every table object of a connection are '
    'fingerprinted (2 levels deep) before the first-ever scan of each table, while that scan is suspended in its first '
    '3 rows (inside vyield / between iterator steps) and after it; state hidden in closures, C extensions or objects '
    'reachable only from cursors is not enumerated',
    'Connection.tables, ledger entries and options are only read by queries (checked by the dynamic diff of the '
    'module/class level state; per-connection objects are fingerprinted in the workload as well)',
    'memo tables internal to CPython/stdlib (functools.singledispatch dispatch cache, re pattern cache, decimal '
    'context, which is thread-local) are value-transparent and not enumerated by the static scan',
    'TatSu parsing happens inside one evaluation step (a fresh BQLParser per parse call); a module-level parser '
    'instance (any module-level object of a tatsu class, or any module-level instance whose fingerprint the workload '
    'changes) is listed as a shared cell by the inventory; parsing in several threads at once is exercised by the '
    'free-running text-statement stream (4 threads x 8/25 text statements behind a barrier, switch interval 1e-5), '
    'whose failures are violations but whose passing proves nothing about byte-code level interleavings',
    'the ledger data reachable from a connection (every directive and posting with its meta dict) is fingerprinted '
    'after every workload statement (incl. any_meta/entry_meta/getitem/meta queries): queries must not write it',
    'translator tie (C20_source_no_connection_cache, group params regenerated by this check too): trusted are the '
    'translator py2mini/src_api, the PyMini interpreter and the primitives of Model/PrimsApi.v; the cursor made by '
    'Connection.cursor() and its execute are opaque (what Cursor.execute stores on the CURSOR is C10\'s tie; that it '
    'stores nothing on the connection is not seen by this theorem but by the inventory\'s connection-attribute diff); '
    'Connection.attach and the part of __init__ after the leading self.<attr> assignments are not translated',
]

# --------------------------------------------------------------------------
# the scheduler hook


class HarnessError(Exception):
    pass


class _Sched:
    def __init__(self):
        self.cv = threading.Condition()
        self.turn = None
        self.slots = {}
        self.free = set()
        self.log = []


S = _Sched()
TIMEOUT = 30.0


def _canon(v):
    if v is None:
        return None
    if isinstance(v, bool):
        return int(v)
    if isinstance(v, int):
        return v
    if isinstance(v, decimal.Decimal):
        assert v == v.to_integral_value(), v
        return int(v)
    if isinstance(v, inventory.Inventory):
        n = v.get_currency_units('USD').number
        assert all(p.units.currency == 'USD' and p.cost is None for p in v), v
        return int(n)
    raise HarnessError(f'unexpected value {v!r}')


def _hook(x):
    probe = getattr(S, 'probe', None)
    if probe is not None:
        # inventory (suspended-scan probe): the scan of the running statement is suspended in this row right now
        probe()
    tid = S.slots.get(threading.get_ident())
    if tid is None:
        return x
    try:
        S.log.append((tid, _canon(x)))
    except (HarnessError, AssertionError):
        # a value of a type the function was not compiled for (e.g. a column bound to another statement's column):
        # evidence for the comparison with the serial run / the model trace, not an error of the harness
        S.log.append((tid, f'?{type(x).__name__}:{x}'))
    if tid in S.free:
        return x
    with S.cv:
        S.turn = None
        S.cv.notify_all()
        while S.turn != tid:
            if not S.cv.wait(TIMEOUT):
                raise HarnessError('scheduler timeout in vyield')
    return x


def _register():
    if 'vyield' in query_env.query_compile.FUNCTIONS:
        return
    for t in (int, decimal.Decimal, bool, inventory.Inventory):
        query_env.function([t], t, name='vyield')(_hook)

    def vnullodd(x):
        return None if x % 2 else x
    for t in (int, decimal.Decimal):
        query_env.function([t], t, name='vnullodd')(vnullodd)
    # harness-owned overloads: the registry translator (gen_registry.collect) leaves them out
    for n in ('vyield', 'vnullodd'):
        for f in query_env.query_compile.FUNCTIONS[n]:
            f.__verif_harness__ = True


_register()


def run_threads(schedule, jobs):
    """Run the callables `jobs` in one thread each; thread i runs exactly when the schedule
    says so (one entry = up to its next vyield call or its end; entries naming a finished
    thread are skipped); afterwards the threads are completed one after the other.
    Returns (results, trace)."""
    n = len(jobs)
    results = [None] * n
    done = [False] * n
    S.free = set()
    S.slots = {}
    S.log = []
    S.turn = None
    errors = []

    def worker(i):
        S.slots[threading.get_ident()] = i
        with S.cv:
            while S.turn != i:
                if not S.cv.wait(TIMEOUT):
                    errors.append('start timeout')
                    return
        try:
            results[i] = jobs[i]()
        except HarnessError as e:
            errors.append(repr(e))
        except Exception as e:  # noqa: BLE001
            results[i] = ['exception', type(e).__name__, str(e)[:200]]
        with S.cv:
            done[i] = True
            S.turn = None
            S.cv.notify_all()

    ths = [threading.Thread(target=worker, args=(i,), daemon=True) for i in range(n)]
    for t in ths:
        t.start()

    def give(i):
        with S.cv:
            S.turn = i
            S.cv.notify_all()
            while S.turn is not None:
                if not S.cv.wait(TIMEOUT):
                    raise HarnessError('scheduler timeout waiting for thread %d' % i)

    for i in schedule:
        if 0 <= i < n and not done[i]:
            give(i)
    for i in range(n):
        if not done[i]:
            S.free.add(i)
            give(i)
    for t in ths:
        t.join(TIMEOUT)
    S.slots = {}
    if errors:
        raise HarnessError('; '.join(errors))
    return results, list(S.log)


# --------------------------------------------------------------------------
# ledgers

ACCOUNTS = ['Assets:A', 'Assets:B', 'Income:C']
_LEDGER_CACHE = {}


def ledger_text(txs):
    """txs: [(year, day, [amounts...])], amounts sum to zero."""
    lines = ['2018-01-01 open Assets:A', '2018-01-01 open Assets:B', '2018-01-01 open Income:C']
    for k, (year, day, amounts) in enumerate(txs):
        lines.append(f'{year}-03-{day:02d} * "t{k}"')
        for j, a in enumerate(amounts):
            lines.append(f'  {ACCOUNTS[j % 3]}  {a} USD')
    return '\n'.join(lines) + '\n'


def load_ledger(txs):
    key = repr(txs)
    if key not in _LEDGER_CACHE:
        entries, errors, options = loader.load_string(ledger_text(txs))
        if errors:
            raise HarnessError(f'ledger errors: {errors}')
        rows = []
        for e in entries:
            if isinstance(e, data.Transaction):
                for p in e.postings:
                    rows.append((e.date.year, e.date.day, int(p.units.number)))
        _LEDGER_CACHE[key] = (entries, options, rows)
    return _LEDGER_CACHE[key]


def gen_txs(rng, npost):
    txs = []
    left = npost
    while left > 0:
        k = 3 if left == 3 or (left > 3 and rng.random() < 0.4) else 2
        k = min(k, left) if left >= 2 else 2
        amts = [rng.choice([-7, -3, -2, 1, 2, 4, 5, 7, 10]) for _ in range(k - 1)]
        amts.append(-sum(amts))
        txs.append((rng.choice([2019, 2020, 2020, 2021]), rng.randint(1, 9), amts))
        left -= k
    return txs


LEDGER_META = '''
2018-01-01 open Assets:A
2018-01-01 open Assets:B
2018-01-01 open Income:C

2020-01-05 * "t1"
  ref: "E1"
  Assets:A   -10 USD
  Assets:B    10 USD

2020-01-06 * "t2"
  ref: "E2"
  Assets:A  -500 USD
    ref: "P2"
  Income:C   500 USD

2020-01-07 * "t3"
  Assets:A   -20 USD
  Assets:B    20 USD

2020-01-08 * "t4"
  ref: "E4"
  Assets:A   -30 USD
  Assets:B    30 USD

2021-01-09 * "t5"
  ref: "E5"
  Assets:A   -40 USD
  Assets:B    40 USD
    ref: "P5"
'''


TYPED_TABLES = ['prices', 'transactions', 'balances', 'notes', 'events', 'documents']


def typed_ledger_text(n):
    """n directives of EVERY directive type that has a typed table (#prices #transactions #balances #notes #events
    #documents), all with different dates (year, month and day depend on the row)"""
    lines = ['2018-01-01 open Assets:A', '2018-01-01 open Assets:B', '2018-01-01 open Income:C', '2018-01-01 commodity USD']
    bal = 0
    for k in range(n):
        y, m = 2019 + k // 2, 1 + k      # increasing dates: the balance assertions hold
        bal -= 10 * (k + 1)
        lines += [f'{y}-{m:02d}-02 price HOOL {100 + 10 * k} USD',
                  f'{y}-{m:02d}-05 * "t{k}"', f'  Assets:A  {-10 * (k + 1)} USD', f'  {ACCOUNTS[1 + k % 2]}  {10 * (k + 1)} USD',
                  f'{y}-{m:02d}-06 balance Assets:A {bal} USD',
                  f'{y}-{m:02d}-08 note {ACCOUNTS[k % 3]} "n{k}"',
                  f'{y}-{m:02d}-11 event "{["location", "employer"][k % 2]}" "v{k}"',
                  f'{y}-{m:02d}-14 document {ACCOUNTS[k % 2]} "/nonexistent/d{k}.pdf"']
    return '\n'.join(lines) + '\n'


def is_typed(led):
    return isinstance(led, str) and led.startswith('typed')


def connection(txs, fresh=False):
    """txs: a transaction list (see ledger_text), the string 'meta' (LEDGER_META) or 'typed<n>' (typed_ledger_text(n)).
    fresh: load the ledger anew, so that nothing (entries, postings, their meta dicts) is shared with any other
    connection."""
    if fresh or isinstance(txs, str):
        entries, errors, options = loader.load_string(
            LEDGER_META if txs == 'meta' else typed_ledger_text(int(txs[5:])) if is_typed(txs) else ledger_text(txs))
        if is_typed(txs):
            # the document files do not exist (the loader says so and keeps the directives)
            errors = [e for e in errors if type(e).__name__ != 'DocumentError']
        if errors:
            raise HarnessError(f'ledger errors: {errors}')
    else:
        entries, options, _ = load_ledger(txs)
    conn = beanquery.Connection()
    impl.bq_beancount.attach(conn, 'beancount:', entries=entries, errors=[], options=options)
    return conn


def ledger_fp(conn):
    """fingerprint of the ledger data reachable from the connection: every directive with its meta dict, every
    posting with its meta dict (repr of the namedtuples prints all of it), options keys"""
    import hashlib
    t = conn.tables.get('entries')
    entries = getattr(t, 'entries', [])
    h = hashlib.sha256()
    for e in entries:
        h.update(repr(e).encode())
    h.update(repr(sorted(map(str, getattr(t, 'options', {}) or {}))).encode())
    return h.hexdigest()


# --------------------------------------------------------------------------
# statements: Python tuples <-> BQL text <-> Gallina

def e_bql(e, ph):
    k = e[0]
    if k == 'const':
        v, kind = e[1], e[2]
        if kind == 'bool':
            return 'TRUE' if v else 'FALSE'
        if kind == 'dec':
            return f'{v}.0' if v >= 0 else f'(-{-v}.0)'
        return str(v) if v >= 0 else f'(-{-v})'
    if k == 'col':
        return e[1]
    if k == 'balance':
        return 'balance'
    if k == 'param':
        return ph[e[1]]
    if k == 'yield':
        return f'vyield({e_bql(e[1], ph)})'
    if k == 'unknown':
        return f'nosuchfn({e_bql(e[1], ph)})'
    if k == 'empty':
        return f'empty({e_bql(e[1], ph)})'
    if k == 'nullodd':
        return f'vnullodd({e_bql(e[1], ph)})'
    if k == 'add':
        return f'({e_bql(e[1], ph)} + {e_bql(e[2], ph)})'
    if k == 'lt':
        return f'({e_bql(e[1], ph)} < {e_bql(e[2], ph)})'
    if k == 'and':
        return f'({e_bql(e[1], ph)} AND {e_bql(e[2], ph)})'
    if k == 'in':
        w = '' if e[4] == TRUE else f' WHERE {e_bql(e[4], ph)}'
        return f'({e_bql(e[2], ph)} IN (SELECT {e_bql(e[3], ph)} FROM #postings{w}))'
    raise ValueError(e)


TRUE = ('const', 1, 'bool')
COLS = {'year': 'CYear', 'day': 'CDay', 'number': 'CNumber'}


def e_coq(e):
    k = e[0]
    if k == 'const':
        return f'(EConst (Some {cZ(e[1])}))'
    if k == 'col':
        return f'(ECol {COLS[e[1]]})'
    if k == 'balance':
        return 'EBalance'
    if k == 'param':
        return f'(EParam {e[1]}%nat)'
    if k in ('yield', 'unknown', 'empty', 'nullodd'):
        c = {'yield': 'EYield', 'unknown': 'EUnknown', 'empty': 'EEmpty', 'nullodd': 'ENullOdd'}[k]
        return f'({c} {e_coq(e[1])})'
    if k in ('add', 'lt', 'and'):
        c = {'add': 'EAdd', 'lt': 'ELt', 'and': 'EAnd'}[k]
        return f'({c} {e_coq(e[1])} {e_coq(e[2])})'
    if k == 'in':
        return f'(EIn {e[1]}%nat {e_coq(e[2])} {e_coq(e[3])} {e_coq(e[4])})'
    raise ValueError(e)


def e_walk(e):
    yield e
    for x in e[1:]:
        if isinstance(x, tuple):
            yield from e_walk(x)


def st_exprs(st):
    """expressions of a statement in source order"""
    if st['kind'] == 'select':
        return list(st['targets']) + [st['where']]
    return [st['key']] + [e for _, e in st['aggs']] + [st['where']]


def st_bql(st):
    """BQL text; `st['ph']` is the list of placeholder names in source order ('' -> %s, 'p3' -> %(p3)s)."""
    ph = ['%s' if n == '' else f'%({n})s' for n in st['ph']]
    w = '' if st['where'] == TRUE else f' WHERE {e_bql(st["where"], ph)}'
    if st['kind'] == 'select':
        return 'SELECT ' + ', '.join(e_bql(t, ph) for t in st['targets']) + ' FROM #postings' + w
    aggs = ', '.join(f'{f}({e_bql(e, ph)})' for f, e in st['aggs'])
    return f'SELECT {e_bql(st["key"], ph)}, {aggs} FROM #postings{w} GROUP BY 1'


AGGF = {'sum': 'ASum', 'count': 'ACount', 'first': 'AFirst', 'last': 'ALast'}


def st_coq(st):
    names = clist(['PhEmpty' if n == '' else f'(PhName {int(n[1:])})' for n in st['ph']])
    if st['kind'] == 'select':
        q = f'(QSelect {clist([e_coq(t) for t in st["targets"]])} {e_coq(st["where"])})'
    else:
        aggs = clist([f'({AGGF[f]}, {e_coq(e)})' for f, e in st['aggs']])
        q = f'(QAgg {e_coq(st["key"])} {aggs} {e_coq(st["where"])})'
    return f'(mkStmt {names} {q})'


def params_coq(p):
    if p is None:
        return 'PNone'
    if isinstance(p, dict):
        return 'PMap ' + clist([f'({int(k[1:])}, Some {cZ(v)})' for k, v in p.items()])
    return 'PSeq ' + clist([f'Some {cZ(v)}' for v in p])


def rows_coq(rows):
    return clist([f'mkP {cZ(y)} {cZ(d)} {cZ(n)}' for y, d, n in rows])


def prog_coq(pr):
    _, _, rows = load_ledger(pr['ledger'])
    return (f'(mkProg {st_coq(pr["stmt"])} {copt(pr["share"], lambda k: f"{k}%nat")} '
            f'({params_coq(pr["params"])}) {rows_coq(rows)})')


def case_coq(case, schedules):
    ps = clist([prog_coq(p) for p in case['progs']])
    ss = clist([clist([f'{i}%nat' for i in s]) for s in schedules])
    return (f'let ps := {ps} in OL (map (fun s => run_out query_time_shared_cells compile_writes_statement s ps) {ss})')


# --------------------------------------------------------------------------
# running a case on the implementation

ERR = {'ProgrammingError': 1, 'TypeError': 2, 'CompilationError': 3}


def _job(conn, stmt, params):
    def job():
        try:
            cur = conn.cursor()
            cur.execute(stmt, params)
            return [0, [[[] if v is None else [v] for v in map(_canon, row)] for row in cur.fetchall()]]
        except HarnessError:
            raise
        except beanquery.CompilationError:
            return [1, 3]
        except beanquery.ProgrammingError:
            return [1, 1]
        except TypeError:
            return [1, 2]
        except Exception:  # noqa: BLE001
            return [1, 4]
    return job


_PARSED = {}


def _parsed_copy(text):
    """TatSu needs ~50-100 ms per statement: parse each text once per process and hand out deep copies
    (a fresh statement object per run, as the AST may be written by compile on some trees)."""
    import copy
    if text not in _PARSED:
        _PARSED[text] = bq_parser.parse(text)
    return copy.deepcopy(_PARSED[text])


def make_jobs(case, raw_text=False):
    """Fresh connections / parsed statements for one run of the case. raw_text: statements that are not
    marked preparsed/shared are passed as strings (parsed inside Cursor.execute, in the thread)."""
    topo = case['topology']
    progs = case['progs']
    shared_conn = {}
    parsed = {}
    jobs = []
    for pr in progs:
        key = repr(pr['ledger'])
        if topo == 'shared-connection':
            if key not in shared_conn:
                shared_conn[key] = connection(pr['ledger'])
            conn = shared_conn[key]
        else:
            conn = connection(pr['ledger'])
        text = st_bql(pr['stmt'])
        if pr['share'] is not None:
            if pr['share'] not in parsed:
                parsed[pr['share']] = _parsed_copy(text)
            stmt = parsed[pr['share']]
        elif pr.get('preparsed') or not raw_text:
            stmt = _parsed_copy(text)
        else:
            stmt = text
        jobs.append(_job(conn, stmt, pr['params']))
    return jobs


def impl_serial(case, raw_text=False):
    return [j() for j in make_jobs(case, raw_text)]


def impl_sched(case, schedule, raw_text=False):
    res, trace = run_threads(schedule, make_jobs(case, raw_text))
    return [res, [[t, v] for t, v in trace]]


def _impl_unit(args):
    """('serial', case) or ('sched', case, schedules, raw_text_for_first)"""
    if args[0] == 'serial':
        a = impl_serial(args[1], raw_text=True)
        b = impl_serial(args[1])
        return a if a == b else ['serial-raw-vs-parsed-differ', a, b]
    _, case, schedules, raw = args
    return [impl_sched(case, s, raw_text=(raw and k == 0)) for k, s in enumerate(schedules)]


# --------------------------------------------------------------------------
# case generation

def number_params(st, style, rng):
    """Give every ('param', None, value) leaf its index in source order; build placeholder
    names and the parameter container."""
    ph, vals = [], []

    def go(e):
        if e[0] == 'param':
            ph.append(None)
            vals.append(e[2])
            return ('param', len(ph) - 1)
        return tuple(go(x) if isinstance(x, tuple) else x for x in e)
    if st['kind'] == 'select':
        st['targets'] = [go(t) for t in st['targets']]
    else:
        st['key'] = go(st['key'])
        st['aggs'] = [(f, go(e)) for f, e in st['aggs']]
    st['where'] = go(st['where'])
    n = len(ph)
    if style == 'named':
        names = [f'p{rng.randint(1, 3)}' for _ in range(n)]
        # the same name gets the same value
        m = {}
        for nm, v in zip(names, vals):
            m.setdefault(nm, v)
        st['ph'] = names
        return dict(m)
    st['ph'] = [''] * n
    return list(vals)


def gen_expr(rng, kind, depth, ctx):
    """ctx: {'agg': bool (inside key/where of an aggregate query: no balance), 'sub': nesting, 'ids': counter,
    'params': allow}"""
    r = rng.random()
    if kind == 'int':
        if depth <= 0 or r < 0.35:
            c = rng.random()
            if c < 0.45:
                return ('col', rng.choice(['year', 'day']))
            if c < 0.65 and ctx['params']:
                return ('param', None, rng.choice([0, 1, 2, 3, 2020, 5]))
            return ('const', rng.choice([0, 1, 2, 3, 5, 2020, -1]), 'int')
        if r < 0.65:
            return ('yield', gen_expr(rng, 'int', depth - 1, ctx))
        if r < 0.78:
            return ('nullodd', gen_expr(rng, 'int', depth - 1, ctx))
        return ('add', gen_expr(rng, 'int', depth - 1, ctx), gen_expr(rng, 'int', depth - 1, ctx))
    if kind == 'dec':
        if depth <= 0 or r < 0.5:
            return ('col', 'number')
        if r < 0.8:
            return ('yield', gen_expr(rng, 'dec', depth - 1, ctx))
        if r < 0.9:
            return ('nullodd', gen_expr(rng, 'dec', depth - 1, ctx))
        return ('add', gen_expr(rng, 'dec', depth - 1, ctx), gen_expr(rng, rng.choice(['int', 'dec']), depth - 1, ctx))
    if kind == 'inv':
        if depth <= 0 or r < 0.6:
            return ('balance',)
        return ('yield', ('balance',))
    if kind == 'bool':
        if depth <= 0 or r < 0.35:
            a = rng.choice(['int', 'dec'])
            return ('lt', gen_expr(rng, a, depth - 1, ctx), gen_expr(rng, rng.choice(['int', 'dec']), depth - 1, ctx))
        if r < 0.5:
            return ('and', gen_expr(rng, 'bool', depth - 1, ctx), gen_expr(rng, 'bool', depth - 1, ctx))
        if r < 0.62:
            return ('empty', gen_expr(rng, 'inv', depth - 1, ctx))
        if r < 0.72:
            return ('yield', gen_expr(rng, 'bool', depth - 1, ctx))
        if r < 0.92 and ctx['sub'] < 2:
            ctx['ids'] += 1
            i = ctx['ids']
            k = rng.choice(['int', 'dec'])
            sub = dict(ctx, sub=ctx['sub'] + 1)
            a = gen_expr(rng, k, depth - 1, ctx)
            t = gen_expr(rng, k, depth - 1, sub)
            w = TRUE if rng.random() < 0.4 else gen_expr(rng, 'bool', depth - 1, sub)
            ctx['ids'] = sub['ids']
            return ('in', i, a, t, w)
        return ('const', rng.choice([0, 1]), 'bool')
    raise ValueError(kind)


def gen_stmt(rng, flavour):
    ctx = {'sub': 0, 'ids': 0, 'params': flavour.get('params') is not None}
    if flavour.get('agg'):
        key = gen_expr(rng, 'int', 1, ctx)
        aggs = []
        for _ in range(rng.randint(1, 3)):
            f = rng.choice(['sum', 'count', 'first', 'last'])
            k = rng.choice(['int', 'dec', 'inv']) if f == 'sum' else rng.choice(['int', 'dec', 'inv', 'bool'])
            aggs.append((f, gen_expr(rng, k, 2, ctx)))
        st = {'kind': 'agg', 'key': key, 'aggs': aggs}
    else:
        ts = [gen_expr(rng, rng.choice(['int', 'dec', 'inv', 'inv', 'bool']), 2, ctx)
              for _ in range(rng.randint(1, 4))]
        if flavour.get('balance2'):
            ts = [('balance',), ('yield', ('col', rng.choice(['year', 'day']))), ('balance',)] + ts[:1]
        st = {'kind': 'select', 'targets': ts}
    st['where'] = TRUE if rng.random() < 0.5 else gen_expr(rng, 'bool', 2, ctx)
    if flavour.get('unknown') and st['kind'] == 'select':
        st['targets'].append(('unknown', ('col', 'year')))
    params = number_params(st, flavour.get('params') or 'positional', rng)
    if not st['ph']:
        params = None if rng.random() < 0.7 else params
    return st, params


def count_yields(st):
    return sum(1 for e in st_exprs(st) for x in e_walk(e) if x[0] == 'yield')


def gen_case(rng, nthreads, maxpost=4):
    topo = rng.choice(['shared-connection', 'connection-per-thread', 'connection-per-thread'])
    base = gen_txs(rng, rng.randint(2, maxpost))
    same_ledger = rng.random() < 0.6
    progs = []
    share_stmt = rng.random() < 0.25
    shared = None
    for t in range(nthreads):
        flavour = {
            'agg': rng.random() < 0.3,
            'balance2': rng.random() < 0.3,
            'params': rng.choice([None, 'positional', 'positional', 'named']),
            'unknown': rng.random() < 0.04,
        }
        for _ in range(20):
            st, params = gen_stmt(rng, flavour)
            if 1 <= count_yields(st) <= 3:
                break
        ledger = base if (same_ledger or topo == 'shared-connection' and rng.random() < 0.5) \
            else gen_txs(rng, rng.randint(2, maxpost))
        pr = {'stmt': st, 'params': params, 'share': None, 'ledger': ledger, 'preparsed': rng.random() < 0.3}
        if share_stmt:
            if shared is None:
                shared = pr
                pr['share'] = 0
            else:
                # the SAME parsed statement object, other parameters
                pr = dict(shared)
                pr['ledger'] = ledger
                if isinstance(shared['params'], dict):
                    pr['params'] = {k: v + 1 for k, v in shared['params'].items()}
                elif isinstance(shared['params'], list):
                    pr['params'] = [v + 1 for v in shared['params']]
        # parameter error paths
        r = rng.random()
        if pr['stmt']['ph'] and r < 0.08:
            if isinstance(pr['params'], list):
                pr['params'] = pr['params'][:-1] if rng.random() < 0.5 else {'p1': 1}
            elif isinstance(pr['params'], dict):
                pr['params'] = list(pr['params'].values()) if rng.random() < 0.5 else \
                    {k: v for k, v in list(pr['params'].items())[:-1]}
        progs.append(pr)
    return {'topology': topo, 'progs': progs}


def sel(targets, where=TRUE, ph=(), **kw):
    return {'kind': 'select', 'targets': list(targets), 'where': where, 'ph': list(ph)}


Y = lambda e: ('yield', e)  # noqa: E731
YEAR, DAY, NUM, BAL = ('col', 'year'), ('col', 'day'), ('col', 'number'), ('balance',)


def corpus_cases():
    """Named query pairs of the property text."""
    L1 = [(2020, 2, [5, -5]), (2021, 3, [7, -7])]
    L2 = [(2019, 4, [2, 1, -3]), (2020, 5, [10, -10])]

    def pr(st, params=None, share=None, ledger=L1, preparsed=False):
        return {'stmt': st, 'params': params, 'share': share, 'ledger': ledger, 'preparsed': preparsed}
    double = sel([BAL, Y(YEAR), BAL])
    agg = {'kind': 'agg', 'key': Y(YEAR), 'aggs': [('sum', Y(NUM)), ('last', BAL), ('count', Y(DAY)), ('first', Y(BAL))],
           'where': TRUE, 'ph': []}
    sub = sel([Y(DAY), ('in', 1, YEAR, Y(YEAR), ('lt', NUM, ('param', 0))), BAL], ph=[''])
    subbal = sel([BAL, ('in', 1, YEAR, YEAR, ('empty', Y(BAL))), BAL])
    pos2 = sel([('add', Y(YEAR), ('param', 0)), BAL], where=('lt', NUM, ('param', 1)), ph=['', ''])
    pos1 = sel([('add', Y(YEAR), ('param', 0)), Y(DAY)], ph=[''])
    named = sel([('add', Y(YEAR), ('param', 0)), BAL, Y(('param', 1))], where=('lt', NUM, ('param', 2)),
                ph=['p1', 'p2', 'p1'])
    cfold = sel([Y(('param', 0)), Y(DAY), Y(('const', 3, 'int')), ('param', 1)], ph=['', ''])
    out = []
    for topo in ('shared-connection', 'connection-per-thread'):
        out.append(('double-balance', {'topology': topo, 'progs': [pr(double), pr(double)]}))
        out.append(('double-balance/other-ledger', {'topology': topo, 'progs': [pr(double), pr(double, ledger=L2)]}))
        out.append(('aggregates', {'topology': topo, 'progs': [pr(agg), pr(agg, ledger=L2)]}))
        out.append(('in-subquery', {'topology': topo, 'progs': [pr(sub, [6]), pr(sub, [0], ledger=L2)]}))
        out.append(('subquery-balance', {'topology': topo, 'progs': [pr(subbal), pr(double)]}))
        out.append(('params-positional', {'topology': topo, 'progs': [pr(pos2, [1, 6]), pr(pos2, [100, 0])]}))
        out.append(('params-named', {'topology': topo, 'progs': [pr(named, {'p1': 1, 'p2': 8}),
                                                                 pr(named, {'p1': 2, 'p2': 9}, ledger=L2)]}))
        out.append(('same-statement-1pos', {'topology': topo, 'progs': [pr(pos1, [1], share=0), pr(pos1, [50], share=0)]}))
        out.append(('same-statement-named', {'topology': topo, 'progs': [pr(named, {'p1': 1, 'p2': 8}, share=0),
                                                                       pr(named, {'p1': 2, 'p2': 9}, share=0)]}))
        out.append(('same-statement-2pos', {'topology': topo, 'progs': [pr(pos2, [1, 6], share=0), pr(pos2, [100, 0], share=0)]}))
        out.append(('same-statement-compile-yield', {'topology': topo, 'progs': [pr(cfold, [4, 6], share=0),
                                                                               pr(cfold, [8, 9], share=0)]}))
        out.append(('mixed', {'topology': topo, 'progs': [pr(double), pr(agg, ledger=L2), pr(sub, [6])]}))
    return out


def segments(case):
    """number of schedule entries each thread needs (its yields under serial execution + 1)"""
    jobs = make_jobs(case)
    counts = []
    for i, j in enumerate(jobs):
        S.slots = {threading.get_ident(): i}
        S.free = {i}
        S.log = []
        try:
            j()
        finally:
            S.slots = {}
        counts.append(len(S.log) + 1)
    return counts


def all_interleavings(segs, cap=None):
    items = [i for i, k in enumerate(segs) for _ in range(k)]
    out = []

    def go(prefix, left):
        if cap is not None and len(out) >= cap:
            return
        if not any(left):
            out.append(prefix)
            return
        for i, k in enumerate(left):
            if k:
                go(prefix + [i], left[:i] + [k - 1] + left[i + 1:])
    go([], list(segs))
    return out, len(items)


def pick_schedules(rng, segs, n):
    """structured + random schedules"""
    total = sum(segs)
    nth = len(segs)
    out = [[], [0, 1, 0], [1, 0, 1], list(range(nth)) * total]
    while len(out) < n:
        items = [i for i, k in enumerate(segs) for _ in range(k)]
        rng.shuffle(items)
        if rng.random() < 0.3:
            items = items[:rng.randint(1, len(items))]
        if rng.random() < 0.1:
            items.insert(rng.randrange(len(items) + 1), nth)   # an id that names no thread
        out.append(items)
    uniq = []
    for s in out:
        if s not in uniq:
            uniq.append(s)
    return uniq[:n]


# --------------------------------------------------------------------------
# the check

def features(case):
    f = set()
    for pr in case['progs']:
        st = pr['stmt']
        xs = [x for e in st_exprs(st) for x in e_walk(e)]
        nbal = sum(1 for x in xs if x[0] == 'balance')
        if nbal >= 2:
            f.add('balance>=2')
        elif nbal:
            f.add('balance')
        if st['kind'] == 'agg':
            f.add('aggregate-group-by')
        if any(x[0] == 'in' for x in xs):
            f.add('in-subquery')
        if any(x[0] == 'in' and any(y[0] == 'yield' for z in x[3:] for y in e_walk(z)) for x in xs):
            f.add('yield-inside-subquery')
        if any(x[0] == 'yield' and x[1][0] in ('param', 'const') for x in xs):
            f.add('compile-time-yield')
        if st['ph']:
            f.add('params-named' if st['ph'][0] else 'params-positional')
        if pr['share'] is not None:
            f.add('same-parsed-statement')
        if any(x[0] == 'nullodd' for x in xs):
            f.add('null-source')
        if any(x[0] == 'unknown' for x in xs):
            f.add('unknown-function')
    f.add(case['topology'])
    if len({repr(p['ledger']) for p in case['progs']}) > 1:
        f.add('different-ledgers')
    else:
        f.add('same-ledger')
    f.add(f'{len(case["progs"])}-threads')
    return f


def switches(trace_or_sched):
    return sum(1 for a, b in zip(trace_or_sched, trace_or_sched[1:]) if a != b)


def describe(case, schedule=None):
    parts = []
    for pr in case['progs']:
        parts.append(f'{st_bql(pr["stmt"])} {pr["params"]!r}' + (f' [shared stmt {pr["share"]}]' if pr['share'] is not None else ''))
    s = f'{case["topology"]}: ' + ' || '.join(parts)
    if schedule is not None:
        s += f' schedule={schedule}'
    return s


def check_cases(named_cases, schedules_of, tag):
    """named_cases: [(name, case)]; schedules_of(case, segs) -> list of schedules.
    Returns (stats, violations)."""
    work = []
    for name, case in named_cases:
        segs = segments(case)
        work.append((name, case, segs, schedules_of(case, segs)))
    units, uowner = [], []
    for k, (_, c, _, s) in enumerate(work):
        units.append(('serial', c))
        uowner.append(k)
        for j in range(0, len(s), 6):
            units.append(('sched', c, s[j:j + 6], j == 0 and k % 4 == 0))
            uowner.append(k)
    uout = core.pmap(_impl_unit, units, chunksize=1)
    impl_out = [[None, []] for _ in work]
    for k, u, o in zip(uowner, units, uout):
        if u[0] == 'serial':
            impl_out[k][0] = o
        else:
            impl_out[k][1].extend(o)
    CH = 12   # schedules per Gallina expression (long outputs overflow coqc's stack in [show])
    exprs, owner = [], []
    for k, (_, c, _, s) in enumerate(work):
        for j in range(0, len(s), CH):
            exprs.append(case_coq(c, s[j:j + CH]))
            owner.append(k)
    flat = core.coq_eval(tag, ['Model.Threads', 'Gen.SharedState'], exprs, shard=max(8, len(exprs) // core.NCPU + 1))
    model_out = [[] for _ in work]
    for k, part in zip(owner, flat):
        model_out[k].extend(part)
    stats = {'runs': 0, 'interleaved_runs': 0, 'feature_hist': collections.Counter(), 'yields_per_thread': collections.Counter(),
             'schedules_per_case': collections.Counter(), 'switches_hist': collections.Counter(), 'traces': 0,
             'error_results': 0, 'row_results': 0, 'serial_order_dependent_cases': 0}
    viol = []
    sigs = set()
    for (name, case, segs, scheds), (ser, runs), mouts in zip(work, impl_out, model_out):
        fs = features(case)
        stats['schedules_per_case'][min(len(scheds), 5000) // 10 * 10] += 1
        for k in segs:
            stats['yields_per_thread'][k - 1] += 1
        for r in ser:
            stats['error_results' if r[0] == 1 else 'row_results'] += 1
        for sched, (res, trace), mo in zip(scheds, runs, mouts):
            stats['runs'] += 1
            stats['traces'] += 1
            sw = switches([t for t, _ in trace])
            stats['switches_hist'][min(sw, 12)] += 1
            if sw >= 2:
                stats['interleaved_runs'] += 1
            for f in fs:
                stats['feature_hist'][f] += 1
            m_res, m_trace = mo
            if res != ser and len(sigs) < 3:
                small = ddmin(sched, lambda s: impl_sched(case, s)[0] != impl_serial(case), max_tests=60) if sched else sched
                sig = f'schedule-dependent:{name}:' + describe(case, small)
                if sig not in sigs:
                    sigs.add(sig)
                    viol.append(core.Violation(
                        'schedule-dependent-result',
                        f'{describe(case, small)}: threads return {impl_sched(case, small)[0]} but serial execution '
                        f'returns {impl_serial(case)}',
                        {'case': case, 'schedule': small, 'serial': ser, 'scheduled': res}, signature=sig))
            if (res != m_res or trace != m_trace) and len(sigs) < 3:
                sig = f'model-mismatch:{name}:' + describe(case, sched)
                if sig not in sigs:
                    sigs.add(sig)
                    viol.append(core.Violation(
                        'model-mismatch',
                        f'{describe(case, sched)}: implementation results/trace {res} {trace} but the model gives '
                        f'{m_res} {m_trace}',
                        {'case': case, 'schedule': sched, 'impl': [res, trace], 'model': mo}, signature=sig))
    return stats, viol


# statements outside the model's language: schedule-driven threads vs serial only (no model side)
L_IO = [(2019, 4, [2, 1, -3]), (2020, 2, [5, -5]), (2020, 7, [3, 4, -7]), (2021, 3, [7, -7])]
IMPL_ONLY_META = [
    # a query using any_meta / 3-argument getitem / entry_meta next to readers of the posting metadata
    ('any_meta-vs-meta', ["SELECT vyield(year), narration, account, any_meta('ref') AS ref",
                          "SELECT vyield(year), account, meta('ref') AS ref, meta"]),
    ('any_meta-vs-count-meta', ["SELECT vyield(day), any_meta('ref'), getitem(meta, 'zz', 'dflt'), entry_meta('ref')",
                                "SELECT account, count(meta('ref')), count(meta('zz')), count(vyield(day)) GROUP BY account ORDER BY account"]),
]
IMPL_ONLY = [
    ('open-vs-plain', ['SELECT vyield(1), vyield(year), balance FROM OPEN ON 2020-06-01',
                       'SELECT vyield(2), vyield(year), balance']),
    ('close-clear-vs-plain', ['SELECT vyield(1), account, vyield(number) FROM CLOSE ON 2020-06-01 CLEAR',
                              'SELECT vyield(2), account, vyield(number) FROM year = 2020']),
    ('open-vs-open', ['SELECT vyield(1), account, sum(vyield(number)) FROM OPEN ON 2020-01-01 CLOSE ON 2021-01-01 GROUP BY 1, 2',
                      'SELECT vyield(2), account, sum(vyield(number)) FROM OPEN ON 2021-01-01 GROUP BY 1, 2']),
    ('order-distinct-limit', ['SELECT DISTINCT vyield(year) AS y, account ORDER BY 1 DESC, 2 LIMIT 3',
                              'SELECT vyield(day) AS d, last(balance) GROUP BY 1 ORDER BY 1 LIMIT 2']),
    ('pivot', ['SELECT account, vyield(year) AS y, sum(number) AS s GROUP BY 1, 2 PIVOT BY 1, 2',
               'SELECT year, count(vyield(day)), sum(position) GROUP BY 1 HAVING count(*) > 1']),
    ('balances-journal', ['BALANCES FROM vyield(year) = 2020', "JOURNAL 'Assets' FROM vyield(year) < 2021"]),
    ('from-subquery', ['SELECT y, b FROM (SELECT vyield(year) AS y, balance AS b FROM #postings WHERE number > 0)',
                       'SELECT vyield(year), type FROM #entries']),
    ('subquery-other-table', ["SELECT vyield(day), account IN (SELECT account FROM #accounts), balance",
                              "SELECT vyield(year) IN (SELECT vyield(year(date)) FROM #entries WHERE type = 'transaction'), balance"]),
]


def _text_job(conn, text, raw=False, params=None):
    """raw: the statement is handed to Cursor.execute as a str (parsed inside execute, in the thread; this is the
    path on which anything keyed by the statement TEXT would act), else as a freshly copied parsed statement."""
    return _job_of(conn, text if raw else _parsed_copy(text), params)


def _job_of(conn, stmt, params=None):
    def job():
        try:
            cur = conn.cursor()
            cur.execute(stmt, params)
            return ([f'{c.name}:{getattr(c.datatype, "__name__", c.datatype)}' for c in cur.description],
                    [[f'{type(v).__name__}:{v}' for v in row] for row in cur.fetchall()])
        except HarnessError:
            raise
        except Exception as e:  # noqa: BLE001
            return ['exception', type(e).__name__, str(e)[:120]]
    return job


def _impl_only_unit(args):
    texts, topo, schedules = args[:3]
    led = args[3] if len(args) > 3 else L_IO
    raw = args[4] if len(args) > 4 else False     # False: a fresh parsed copy per thread; True: the text;
    #                                                 'shared': ONE parsed statement object per distinct text
    # query parameters, one container (sequence / mapping / None) per thread
    params = (args[5] if len(args) > 5 else None) or [None] * len(texts)

    def jobs():
        # always freshly loaded ledgers: the serial reference must not share data with the scheduled runs
        shared = connection(led, fresh=True)
        if raw == 'shared':
            objs = {t: _parsed_copy(t) for t in texts}
            return [_job_of(shared if topo == 'shared-connection' else connection(led, fresh=True), objs[t], p)
                    for t, p in zip(texts, params)]
        return [_text_job(shared if topo == 'shared-connection' else connection(led, fresh=True), t, bool(raw), p)
                for t, p in zip(texts, params)]
    ser = [j() for j in jobs()]
    segs = []
    for i, j in enumerate(jobs()):
        S.slots = {threading.get_ident(): i}
        S.free = {i}
        S.log = []
        try:
            j()
        finally:
            S.slots = {}
        segs.append(len(S.log) + 1)
    if schedules is None:
        return ser, segs
    return ser, [run_threads(s, jobs())[0] for s in schedules]


# Generated scenario FAMILIES outside the model language, derived from the property text ("on one shared connection or
# on separate connections", "aggregates, subqueries", "all interleavings of their row and sub-expression evaluation
# steps").  What they add to the fixed pairs above:
#   same-text:   every thread runs the IDENTICAL statement, handed to Cursor.execute as a str without parameters (so
#                parsing, compilation and anything keyed by the statement text happen inside the threads), with yield
#                points BETWEEN the targets of a finalised group (vyield over an aggregate value), inside aggregate
#                arguments and group keys (scan phase), and in plain / subquery statements;
#   from-subquery-namespace: every thread selects from a FROM-subquery; the subqueries use the same column names for
#                different positions and types; yield points at COMPILE time (vyield of a constant is folded while
#                the targets / WHERE are compiled, i.e. after the FROM clause has been compiled and before the
#                later column references are bound) and at run time.
AGG_POOL = [('count(*)', True), ('count(number)', True), ('sum(number)', True), ('sum(position)', True),
            ('max(number)', True), ('min(day)', True), ('first(number)', True), ('last(day)', True),
            ('last(year)', True), ('max(date)', False), ('min(narration)', False), ('count(payee)', True)]


def gen_same_text(rng, i):
    """-> (name, texts, ledger, raw=True, info)"""
    fl = i % 4
    n = 3 if i % 5 == 4 else 2
    if fl in (0, 1):
        # yield points in the result phase only: between the aggregate values of one finalised group
        key = rng.choice(['account', 'year', 'day'])
        k = rng.randint(2, 4)
        aggs = rng.sample(AGG_POOL, k)
        while not any(ok for _, ok in aggs[:k - 1]):
            aggs = rng.sample(AGG_POOL, k)
        wrap = {rng.choice([j for j in range(k - 1) if aggs[j][1]])} | {j for j in range(k) if rng.random() < 0.4}
        ts = [f'vyield({a})' if (j in wrap and ok) else a for j, (a, ok) in enumerate(aggs)]
        text = f'SELECT {key}, ' + ', '.join(ts) + f' GROUP BY {key}'
        if rng.random() < 0.3:
            text += ' HAVING count(*) > 0'
        if rng.random() < 0.5:
            text += ' ORDER BY 1' + rng.choice(['', ' DESC'])
        shape = 'aggregate/yield-between-group-values'
    elif fl == 2:
        # scan-phase and result-phase yield points
        k = rng.randint(2, 3)
        aggs = rng.sample([a for a in AGG_POOL if a[1]], k)
        ts = []
        for a, _ in aggs:
            r = rng.random()
            if r < 0.4 and '(*)' not in a and 'payee' not in a and 'position' not in a:
                f, arg = a[:-1].split('(')
                ts.append(f'{f}(vyield({arg}))')
            elif r < 0.8:
                ts.append(f'vyield({a})')
            else:
                ts.append(a)
        key = rng.choice(['vyield(year)', 'year', 'account'])
        text = f'SELECT {key} AS k, ' + ', '.join(ts) + ' GROUP BY 1'
        shape = 'aggregate/yield-in-scan-and-result-phase'
    else:
        text = rng.choice([
            'SELECT vyield(year), balance, vyield(number), account',
            'SELECT balance, vyield(day), balance WHERE number > 0',
            'SELECT vyield(day), year IN (SELECT vyield(year) FROM #postings WHERE number > 4), balance',
            'SELECT vyield(y), b, vyield(n) FROM (SELECT year AS y, balance AS b, number AS n FROM #postings WHERE number > 0)',
            'SELECT DISTINCT vyield(year) AS y, account ORDER BY 2, 1 LIMIT 4',
            'SELECT account, vyield(year) AS y, vyield(sum(number)) AS s GROUP BY 1, 2 PIVOT BY 1, 2',
        ])
        shape = 'plain/subquery/pivot'
    # mostly as text; some as ONE parsed statement object executed by all threads
    mode = 'shared' if i % 5 == 1 else True
    return (f'same-text{i}', [text] * n, L_IO, mode,
            {'family': 'same-text', 'shape': shape + ('/one-parsed-object' if mode == 'shared' else '/text'), 'threads': n})


FS_INNER = [('account', 'str'), ('number', 'dec'), ('year', 'int'), ('day', 'int'), ('narration', 'str'),
            ('position', 'pos'), ('date', 'date')]


def gen_fromsub(rng, i):
    """-> (name, texts, ledger, raw, info): statements over FROM-subqueries whose column names collide"""
    n = 3 if i % 5 == 4 else 2
    k = rng.choice([2, 2, 3])
    names = ['a', 'b', 'c'][:k]
    base = rng.sample(FS_INNER, k)
    texts = []
    layouts = []
    for t in range(n):
        if t == 0:
            cols = list(base)
            nm = list(names)
        elif i % 3 == 0:
            # the same name -> expression mapping, other positions
            perm = list(range(k))
            while perm == list(range(k)):
                rng.shuffle(perm)
            cols = [base[j] for j in perm]
            nm = [names[j] for j in perm]
        elif i % 3 == 1:
            # the same positions, the names rotated (other expression / type under each name)
            cols = list(base)
            nm = names[t % k:] + names[:t % k]
        else:
            cols = rng.sample(FS_INNER, k)
            nm = rng.sample(names, k)
        layouts.append(list(zip(nm, [c for c, _ in cols])))
        inner = 'SELECT ' + ', '.join(f'{c} AS {a}' for (c, _), a in zip(cols, nm)) + ' FROM #postings' + \
            rng.choice(['', ' WHERE number > 0', ' WHERE number < 0'])
        typ = {a: ty for (_, ty), a in zip(cols, nm)}
        grouped = rng.random() < 0.25 and any(typ[a] in ('str', 'int') for a in nm)
        cy = f'vyield({t + 1})'
        if grouped:
            g = rng.choice([a for a in nm if typ[a] in ('str', 'int')])
            others = [a for a in nm if a != g]
            ts = [g, cy] + [f'count({a})' for a in others]
            if rng.random() < 0.5:
                ts = [cy] + ts[:1] + ts[2:]
            # a constant target of an aggregate query has to be covered by GROUP BY as well
            outer = 'SELECT ' + ', '.join(ts) + f' FROM ({inner}) GROUP BY 1, 2'
        else:
            refs = rng.sample(nm, k) + [rng.choice(nm) for _ in range(rng.randint(0, 1))]
            ts = [f'vyield({a})' if typ[a] in ('int', 'dec') and rng.random() < 0.3 else a for a in refs]
            # compile-time yield points: always one before the first column reference is bound or between two of them
            ts.insert(rng.randint(0, len(ts) - 1), cy)
            if rng.random() < 0.3:
                ts.insert(rng.randint(0, len(ts)), f'vyield({10 + t})')
            outer = 'SELECT ' + ', '.join(ts) + f' FROM ({inner})'
            num = [a for a in nm if typ[a] in ('int', 'dec')]
            if num and rng.random() < 0.4:
                outer += f' WHERE {rng.choice(num)} > vyield(-1000)'
            if rng.random() < 0.3:
                outer += f' ORDER BY {rng.choice([a for a in nm if typ[a] != "pos"] or nm[:1])}'
        texts.append(outer)
    return (f'from-subquery-namespace{i}', texts, L_IO, i % 2 == 1,
            {'family': 'from-subquery-namespace', 'shape': ['same-map/other-positions', 'same-positions/names-rotated', 'random'][i % 3],
             'threads': n})


#   placeholder-offset-collision ("... parameters", "on one shared connection or on separate connections"): 2-3
#                DIFFERENT plain-text statements with 1-3 placeholders each, built so that a placeholder sits at
#                the SAME character offset in the texts of two threads but is another ordinal there (texts padded
#                with spaces / a longer alias), every thread with its own parameter values, and a compile-time yield
#                point (vyield of a constant: first target, or first conjunct of WHERE) BEFORE the first placeholder
#                is compiled - sometimes a second one between two placeholders.  Anything that identifies a placeholder
#                by something that is not private to the execution (its position in the text, its ordinal, its name,
#                the node of a shared parsed statement) binds another parameter under some interleaving.  Controls:
#                the same texts with named parameters, positional against named, and the identical text in all
#                threads (as text and as ONE parsed object) with different parameters.
PH_COLS = ['day', 'year', 'number', 'account', 'narration', 'day AS d', 'year AS y', 'date']
# (template, kinds of the parameters)   kinds: day/num/year -> int, acct -> str (regular expression)
PH_TARGETS = [('{} AS p', ['any']), ('day + {} AS e', ['day']), ('{} AS q', ['acct']), ('year - {} AS z', ['year']),
              ('{} + {} AS r', ['any', 'any'])]
# conjuncts: (template, kinds, the same condition in Python over a posting r = {year, day, number, account}); the
# Python reading only steers the choice of parameter values (rows selected: some, not all), the oracle is the serial run
PH_CONJ = [('day >= {}', ['day'], lambda r, a: r['day'] >= a), ('day <= {}', ['day'], lambda r, a: r['day'] <= a),
           ('number > {}', ['num'], lambda r, a: r['number'] > a), ('number < {}', ['num'], lambda r, a: r['number'] < a),
           ('number BETWEEN {} AND {}', ['num', 'num'], lambda r, a, b: a <= r['number'] <= b),
           ('year = {}', ['year'], lambda r, a: r['year'] == a), ('year >= {}', ['year'], lambda r, a: r['year'] >= a),
           ('account ~ {}', ['acct'], lambda r, a: __import__('re').search(a, r['account']) is not None),
           ('day * {} > {}', ['mul', 'prod'], lambda r, a, b: r['day'] * a > b),
           ('day - {} >= {}', ['day', 'day'], lambda r, a, b: r['day'] - a >= b),
           ('day BETWEEN {} AND {}', ['day', 'day'], lambda r, a, b: a <= r['day'] <= b),
           ('year - {} < {}', ['year', 'day'], lambda r, a, b: r['year'] - a < b)]
PH_NAMES = ['a', 'b', 'c', 'lo', 'hi', 'v', 'w', 'k']
PH_MARK = '\x00'


def _ph_re():
    import re
    return re.compile(r'%(?:\((\w+)\))?s')


def ph_offsets(text):
    """character offsets of the placeholders of a statement text, in textual order"""
    return [m.start() for m in _ph_re().finditer(text)]


def ph_collisions(texts):
    """[(thread s, thread t, offset, ordinal in s, ordinal in t)]: a placeholder at the same offset in the texts of
    two threads, with another ordinal"""
    offs = [ph_offsets(x) for x in texts]
    return [(s, t, o, offs[s].index(o), offs[t].index(o))
            for s in range(len(texts)) for t in range(s + 1, len(texts)) for o in offs[s]
            if o in offs[t] and offs[s].index(o) != offs[t].index(o)]


def _ph_value(rng, kind, t):
    # values that tell the threads and the positions apart (no two equal within a statement where it can be helped)
    if kind == 'day':
        return rng.choice([1, 2, 3, 4, 5, 6, 7, 8])
    if kind == 'num':
        return rng.choice([-6, -4, -2, 0, 1, 2, 3, 4, 6, 8])
    if kind == 'year':
        return rng.choice([2019, 2020, 2021])
    if kind == 'acct':
        return rng.choice(['Assets', 'Income', 'A$', 'B$', 'C$', ':A', 's:B'])
    if kind == 'mul':
        return rng.choice([2, 3, 4, 5])
    if kind == 'prod':
        return rng.choice([5, 7, 9, 10, 13, 17, 22])
    return rng.choice([11, 12, 13, 14, 15, 16, 17, 18, 19]) + 10 * t


def ph_statement(rng, t, nph, second_yield):
    """one statement with nph placeholder marks and a compile-time yield before the first of them -> (text with
    PH_MARK for the placeholders, parameter kinds in textual order, where the first yield point is, number of
    placeholders among the targets, the WHERE conjuncts with placeholders in textual order)"""
    where_yield = rng.random() < 0.4
    slots_t, slots_w, left = [], [], nph
    while left:
        in_target = not where_yield and rng.random() < 0.4
        slot = rng.choice([x for x in (PH_TARGETS if in_target else PH_CONJ)
                           if len(x[1]) <= left and x not in slots_t + slots_w])
        (slots_t if in_target else slots_w).append(slot)
        kinds = slot[1]
        left -= len(kinds)
    cols = rng.sample(PH_COLS[:6] if rng.random() < 0.8 else PH_COLS, rng.randint(1, 3))
    # targets: the yield first, then columns and placeholder targets in any order
    rest = cols + [tpl for tpl, _ in slots_t]
    rng.shuffle(rest)
    kinds = []
    for x in rest:
        kinds += next((k for tpl, k in slots_t if tpl == x), [])
    targets = ([] if where_yield else [f'vyield({t + 1}) AS g']) + rest
    extra_t = second_yield and not where_yield and slots_t and rng.random() < 0.5
    if extra_t:
        targets.append(f'vyield({10 + t}) AS h')
    ntarget = len(kinds)
    conj = [x[0] for x in slots_w]
    for x in slots_w:
        kinds += x[1]
    if second_yield and not extra_t and len(conj) >= 1 and (where_yield or nph >= 2):
        conj.insert(rng.randint(1, len(conj)), f'vyield({20 + t}) = {20 + t}')
    if where_yield:
        conj.insert(0, 'vyield(0) = 0')
    text = 'SELECT ' + ', '.join(targets) + ' FROM #postings'
    if conj:
        text += ' WHERE ' + ' AND '.join(conj)
    if rng.random() < 0.3:
        text += ' ORDER BY 1'
    return text.replace('{}', PH_MARK), kinds, 'where-conjunct' if where_yield else 'first-target', ntarget, slots_w


def _ph_postings(led):
    return [{'year': y, 'day': d, 'number': a, 'account': ACCOUNTS[j % 3]} for y, d, amounts in led for j, a in enumerate(amounts)]


def _ph_selected(rows, slots_w, vals):
    """indexes of the postings the WHERE conjuncts with placeholders select (plain Python reading of the templates)"""
    out = []
    for j, r in enumerate(rows):
        k, ok = 0, True
        for _, kinds, fn in slots_w:
            ok = ok and fn(r, *vals[k:k + len(kinds)])
            k += len(kinds)
        if ok:
            out.append(j)
    return out


def ph_fill(text, names):
    """names: per placeholder '' (-> %s) or a name (-> %(name)s)"""
    parts = text.split(PH_MARK)
    out = parts[0]
    for nm, p in zip(names, parts[1:]):
        out += ('%s' if nm == '' else f'%({nm})s') + p
    return out


def ph_align(rng, texts, ords, how):
    """Pad the texts so that placeholder number ords[t] of texts[t] sits at the same character offset in all of them
    (how: 'spaces' = blanks inserted at a blank before it, 'alias' = a longer alias of the yield target when there is
    one before it)."""
    offs = [ph_offsets(x)[o] for x, o in zip(texts, ords)]
    goal = max(offs)
    out = []
    for x, off in zip(texts, offs):
        d = goal - off
        if d and how == 'alias' and ' AS g' in x[:off]:
            x = x.replace(' AS g', ' AS g' + 'g' * d, 1)
        elif d:
            blanks = [j for j in range(off) if x[j] == ' ']
            j = rng.choice(blanks[-3:] if rng.random() < 0.5 else blanks)
            x = x[:j] + ' ' * d + x[j:]
        out.append(x)
    return out


def gen_phcollide(rng, i):
    """-> (name, texts, ledger, raw, info); info['params'] = one parameter container per thread"""
    style = ['positional', 'positional', 'positional', 'control/named', 'positional', 'control/same-text',
             'positional', 'mixed-positional-named'][i % 8]
    n = 3 if i % 4 == 2 else 2
    second_yield = n == 2 and rng.random() < 0.35
    if style == 'control/same-text':
        nphs = [rng.randint(1, 3)] * n
    elif n == 2:
        nphs = list(rng.choice([(2, 1), (1, 2), (2, 2), (2, 2), (2, 3), (3, 2), (3, 3), (1, 3), (3, 1)]))
    else:
        nphs = list(rng.choice([(1, 2, 3), (3, 2, 1), (2, 3, 1), (2, 2, 3), (3, 3, 3), (2, 3, 2), (3, 1, 2)]))
    marked, kinds, where, ntarget, conjs = [], [], [], [], []
    for t in range(n):
        if style == 'control/same-text' and t:
            for lst in (marked, kinds, where, ntarget, conjs):
                lst.append(lst[0])
            continue
        for _ in range(50):
            m, k, w, nt, cj = ph_statement(rng, t, nphs[t], second_yield)
            if m not in marked:
                break
        marked.append(m), kinds.append(k), where.append(w), ntarget.append(nt), conjs.append(cj)
    rows = _ph_postings(L_IO)
    # placeholder spellings and parameter containers: every thread has its own values
    names, params, seen_vals, seen_picked = [], [], [], []
    for t in range(n):
        named = style == 'control/named' or (style == 'mixed-positional-named' and t % 2 == 1)
        if style == 'control/same-text' and t:
            nm = names[0]
        else:
            nm = rng.sample(PH_NAMES, nphs[t]) if named else [''] * nphs[t]
        for _ in range(200):
            vals = [_ph_value(rng, k, t) for k in kinds[t]]
            # distinct within the statement, other values than the other threads, and the WHERE conjuncts select
            # some postings but not all: a parameter bound to the wrong placeholder then shows in the rows
            # (identical texts: every thread selects other rows / shows other values than the others)
            picked = (_ph_selected(rows, conjs[t], vals[ntarget[t]:]), vals[:ntarget[t]])
            if len(set(map(repr, vals))) == len(vals) and vals not in seen_vals and \
                    (not conjs[t] or 0 < len(picked[0]) < len(rows)) and \
                    (style != 'control/same-text' or picked not in seen_picked):
                break
        seen_vals.append(vals)
        seen_picked.append(picked)
        names.append(nm)
        params.append(dict(zip(nm, vals)) if nm and nm[0] else list(vals))
    texts = [ph_fill(m, nm) for m, nm in zip(marked, names)]
    how = 'none'
    ords = None
    if style != 'control/same-text':
        # the ordinals to bring to one offset: pairwise different where the statements have enough placeholders
        cands = [o for o in itertools.product(*[range(k) for k in nphs]) if len(set(o)) == n] or \
            [o for o in itertools.product(*[range(k) for k in nphs]) if len(set(o)) > 1]
        ords = list(rng.choice(cands))
        how = 'alias' if i % 3 == 1 else 'spaces'
        texts = ph_align(rng, texts, ords, how)
    if style == 'control/same-text':
        raw = 'shared' if i % 16 < 8 else True
    else:
        raw = i % 2 == 0 and n == 2
    return (f'placeholder-offset-collision{i}', texts, L_IO, raw,
            {'family': 'placeholder-offset-collision',
             'shape': style + ('/one-parsed-object' if raw == 'shared' else '/text' if raw else '/parsed-copy-per-thread'),
             'threads': n, 'params': params, 'all_interleavings': True, 'aligned_ordinals': ords, 'alignment': how,
             'yield_before_first_placeholder': where, 'second_compile_time_yield': bool(second_yield)})


def _ph_coverage(acc, texts, params, info):
    """evidence about one placeholder-offset-collision scenario (the collisions are computed from the TEXT and
    confirmed against the positions the parser reports for the Placeholder nodes)"""
    acc['scenarios'] += 1
    col = ph_collisions(texts)
    for x in texts:
        acc['placeholders_per_statement'][len(ph_offsets(x))] += 1
    for p in params:
        acc['parameter_style_hist']['named' if isinstance(p, dict) else 'positional'] += 1
    acc['colliding_offsets_with_different_ordinals_per_scenario'][len(col)] += 1
    for _, _, _, a, b in col:
        acc['colliding_ordinal_pairs'][f'{a}-{b}'] += 1
    acc['alignment_hist'][info['alignment']] += 1
    for w, x in zip(info['yield_before_first_placeholder'], texts):
        acc['compile_time_yield_hist'][w + ('+second-between-or-after-placeholders' if x.count('vyield(') > 1 else '')] += 1
    try:
        pos = [sorted(nd.parseinfo.pos for nd in _parsed_copy(x).walk() if isinstance(nd, bq_parser.ast.Placeholder))
               for x in texts]
        ok = pos == [ph_offsets(x) for x in texts]
    except Exception:  # noqa: BLE001
        ok = False
    acc['collisions_confirmed_by_parseinfo_pos' if ok else 'collisions_not_confirmed_by_parseinfo_pos'] += len(col)
    if len(acc['samples']) < 8:
        acc['samples'].append({'texts': texts, 'parameters': params, 'placeholder_offsets': [ph_offsets(x) for x in texts],
                               'shape': info['shape']})


#   first-scan-of-typed-table ("on one shared connection", "table objects" of why_tests_cant): the table objects of a
#                connection are shared by every statement executed on it.  For every typed table (#prices,
#                #transactions, #balances, #notes, #events, #documents) 2-3 statements over THAT table are executed on a
#                FRESH shared connection per schedule, so that the first-ever scans of the table object are the threaded
#                statements themselves (the serial reference runs on another fresh connection): a scan that starts
#                while the first one is suspended in a row (vyield over a row-dependent int: year/month/day of the
#                directive's date) must see the whole table.  ALL interleavings (<= 252 per case) in every tier.
FS_INT = ['year(date)', 'month(date)', 'day(date)', 'year(date) - 2000', 'month(date) + day(date)']
FS_SHAPES = ['row-yield-scan/plain-scan', 'row-yield-scan/row-yield-scan', 'row-yield-scan/aggregate', '3-threads/one-row-yield-scan']


def _typed_columns(name):
    """the columns of a typed table that print the same in every process: no meta (file names), no sets"""
    cls = next(c for c in impl.bq_beancount.TABLES if getattr(c, 'name', None) == name)
    return [c for c, col in cls.columns.items() if c != 'meta' and getattr(col.dtype, '__name__', '') != 'frozenset']


def gen_firstscan(rng, i):
    """-> (name, texts, ledger, raw, info)"""
    table = TYPED_TABLES[i % len(TYPED_TABLES)]
    shape = (i + i // len(TYPED_TABLES)) % len(FS_SHAPES)
    cols = _typed_columns(table)
    nrows = rng.choice([4, 5, 6]) if shape in (0, 3) else 3 if shape == 1 else rng.choice([3, 4])

    def where():
        return rng.choice(['', '', f' WHERE year(date) >= {rng.choice([2019, 2020])}', f' WHERE month(date) <= {rng.randint(2, nrows)}',
                           " WHERE date > 2019-01-31"])

    def order():
        return rng.choice(['', '', ' ORDER BY date DESC', ' ORDER BY date'])

    def scan(yields):
        ts = rng.sample(cols, rng.randint(1, min(3, len(cols))))
        w = where()
        if yields:
            y = f'vyield({rng.choice(FS_INT)})'
            if rng.random() < 0.25:
                # the yield point in the WHERE clause (evaluated for every row of the table)
                w = f' WHERE {y} > 0'
            else:
                ts.insert(rng.randint(0, len(ts)), y + ' AS g')
        return 'SELECT ' + ', '.join(ts) + f' FROM #{table}{w}{order()}'

    def aggregate(yields):
        arg = rng.choice(FS_INT)
        aggs = rng.sample(['count(*)', f'sum({arg})', 'max(date)', 'min(date)', f'last({arg})', f'count({rng.choice(cols)})'], rng.randint(1, 3))
        if yields:
            aggs.append(f'{rng.choice(["sum", "max", "count"])}(vyield({rng.choice(FS_INT)}))')
        key = rng.choice(['', '', 'year(date)'])
        return 'SELECT ' + (key + ' AS k, ' if key else '') + ', '.join(aggs) + f' FROM #{table}{where()}' + (' GROUP BY 1' if key else '')

    if shape == 0:
        texts = [scan(True), scan(False)]
    elif shape == 1:
        texts = [scan(True), scan(True)]
    elif shape == 2:
        texts = [scan(True), aggregate(nrows == 3 and rng.random() < 0.5)]
    else:
        texts = [scan(True), scan(False), aggregate(False)]
    if rng.random() < 0.5:
        texts.reverse()
    return (f'first-scan-of-typed-table{i}', texts, f'typed{nrows}', i % 3 == 2,
            {'family': 'first-scan-of-typed-table', 'shape': f'#{table}:' + FS_SHAPES[shape], 'threads': len(texts),
             'all_interleavings': True, 'table': table, 'rows_per_typed_table': nrows})


def family_scenarios(rng, n_same, n_fs, n_ph=0, n_first=0):
    return [gen_same_text(rng, i) for i in range(n_same)] + [gen_fromsub(rng, i) for i in range(n_fs)] + \
        [gen_phcollide(rng, i) for i in range(n_ph)] + [gen_firstscan(rng, i) for i in range(n_first)]


def _n_interleavings(segs):
    import math
    n = math.factorial(sum(segs))
    for k in segs:
        n //= math.factorial(k)
    return n


def _differs(texts, topo, sched, led, raw, params=None):
    ser, res = _impl_only_unit((texts, topo, [sched], led, raw, params))
    return res[0] != ser


def check_impl_only(rng, cap, families=(), targeted=False):
    """Fixed scenario pairs + generated families, every topology, under driven schedules, against the serial results
    (and the serial results of the two topologies against each other).  targeted: second pass, made when the
    inventory found a shared cell and the first pass no schedule-dependent result - search harder (all interleavings
    of family cases with <= 252 of them, 40 schedules for the others) for a schedule that shows it."""
    viol, runs, errs = [], 0, 0
    units, meta = [], []
    fam = {'scenarios': collections.Counter(), 'runs': collections.Counter(), 'shape_hist': collections.Counter(),
           'threads_hist': collections.Counter(), 'yield_points_per_thread': collections.Counter(),
           'raw_text_runs': 0, 'shared_parsed_object_runs': 0, 'exhaustive_cases': 0, 'statements_raising': 0, 'samples': [],
           'placeholder_offset_collision': {
               'scenarios': 0, 'placeholders_per_statement': collections.Counter(), 'parameter_style_hist': collections.Counter(),
               'colliding_offsets_with_different_ordinals_per_scenario': collections.Counter(),
               'colliding_ordinal_pairs': collections.Counter(), 'alignment_hist': collections.Counter(),
               'compile_time_yield_hist': collections.Counter(), 'collisions_confirmed_by_parseinfo_pos': 0,
               'collisions_not_confirmed_by_parseinfo_pos': 0, 'all_interleavings_cases': 0, 'samples': []},
           'first_scan_of_typed_table': {
               'rule': 'a FRESH shared connection per schedule: the first-ever scans of the typed table object are the '
                       'threaded statements; serial reference on another fresh connection',
               'all_interleavings_cases': 0, 'sampled_cases': 0, 'table_hist': collections.Counter(),
               'rows_per_typed_table': collections.Counter(), 'interleavings_per_case': collections.Counter(),
               'yield_points_per_statement': collections.Counter(), 'samples': []}}
    scen = [(n, t, 'meta', False, None) for n, t in IMPL_ONLY_META] + [(n, t, L_IO, False, None) for n, t in IMPL_ONLY]
    scen += list(families)
    sigs = set()
    for name, texts, led, raw, info in scen:
        sers = {}
        params = info.get('params') if info else None
        if info and info.get('family') == 'placeholder-offset-collision':
            _ph_coverage(fam['placeholder_offset_collision'], texts, params, info)
        for topo in ('shared-connection', 'connection-per-thread'):
            ser, segs = _impl_only_unit((texts, topo, None, led, raw, params))
            sers[topo] = ser
            nraise = sum(1 for r in ser if r and r[0] == 'exception')
            errs += nraise
            if info:
                fam['scenarios'][info['family']] += 1
                fam['shape_hist'][info['shape']] += 1
                fam['threads_hist'][info['threads']] += 1
                fam['statements_raising'] += nraise
                for k in segs:
                    fam['yield_points_per_thread'][min(k - 1, 40) // 5 * 5] += 1
                if topo == 'shared-connection' and len(fam['samples']) < 14 and (info['family'] != 'same-text' or len(fam['samples']) < 7):
                    fam['samples'].append(' || '.join(texts))
            # statements given as text are parsed in every run (~0.1 s each): the generated families are enumerated
            # exhaustively only up to 252 interleavings (2 threads x 5 steps), else 100 schedules
            if info is None:
                exhaustive = sum(segs) <= 14 and cap >= 3432
            elif info.get('all_interleavings'):
                # few (compile-time) yield points per statement: every interleaving, in every tier
                exhaustive = _n_interleavings(segs) <= 252
                if info['family'] == 'placeholder-offset-collision':
                    fam['placeholder_offset_collision']['all_interleavings_cases'] += 1 if exhaustive else 0
                elif info['family'] == 'first-scan-of-typed-table':
                    fs = fam['first_scan_of_typed_table']
                    fs['all_interleavings_cases' if exhaustive else 'sampled_cases'] += 1
                    fs['table_hist'][info['table'] + '/' + topo] += 1
                    fs['rows_per_typed_table'][info['rows_per_typed_table']] += 1
                    fs['interleavings_per_case'][_n_interleavings(segs)] += 1
                    fs['yield_points_per_statement'].update(k - 1 for k in segs)
                    if topo == 'shared-connection' and len(fs['samples']) < 8:
                        fs['samples'].append({'texts': texts, 'ledger': led, 'shape': info['shape'], 'segments': segs})
            else:
                exhaustive = _n_interleavings(segs) <= 252 and (cap >= 3432 or targeted)
            if exhaustive:
                scheds = all_interleavings(segs)[0]
                if info:
                    fam['exhaustive_cases'] += 1
            else:
                scheds = pick_schedules(rng, segs, (min(cap, 150) if info is None else min(cap, 100)) if not targeted else 40)
            for j in range(0, len(scheds), 8):
                units.append((texts, topo, scheds[j:j + 8], led, raw, params))
                meta.append((name, topo, texts, scheds[j:j + 8], led, raw, info))
        if sers['shared-connection'] != sers['connection-per-thread'] and len(sigs) < 3:
            sig = f'topology-dependent:{name}: ' + ' || '.join(texts)
            sigs.add(sig)
            viol.append(core.Violation(
                'topology-dependent-serial-result',
                f'{" || ".join(texts)}: executed one after the other on ONE shared connection the statements return '
                f'{sers["shared-connection"]}, on one fresh connection each {sers["connection-per-thread"]}',
                {'texts': texts, 'topology': 'both', 'schedule': [], 'ledger': led, 'raw': raw, 'params': params,
                 'serial_shared': sers['shared-connection'], 'serial_separate': sers['connection-per-thread']},
                signature=sig))
    outs = core.pmap(_impl_only_unit, units, chunksize=1)
    seen_names = set()
    for (name, topo, texts, scheds, led, raw, info), (ser, res) in zip(meta, outs):
        for s, r in zip(scheds, res):
            runs += 1
            if info:
                fam['runs'][info['family']] += 1
                fam['raw_text_runs'] += 1 if raw is True else 0
                fam['shared_parsed_object_runs'] += 1 if raw == 'shared' else 0
            if r != ser and name not in seen_names and len(sigs) < 3:
                seen_names.add(name)
                params = info.get('params') if info else None
                small = ddmin(s, lambda s2: _differs(texts, topo, s2, led, raw, params), max_tests=40) if s else s
                ser2, res2 = _impl_only_unit((texts, topo, [small], led, raw, params))
                if res2[0] == ser2:      # not reproducible after shrinking: keep the schedule as observed
                    small, ser2, res2 = s, ser, [r]
                sig = f'schedule-dependent:{name}:{topo}: ' + ' || '.join(texts) + \
                    (f' parameters={params!r}' if params else '') + f' schedule={small}'
                sigs.add(sig)
                viol.append(core.Violation('schedule-dependent-result',
                                           f'{topo}: {" || ".join(texts)}{" [statements given as text]" if raw is True else " [one parsed statement object per text]" if raw else ""}'
                                           f'{f" with the parameters {params!r} (one container per thread)" if params else ""} '
                                           f'schedule={small}: threads return {res2[0]} but serial '
                                           f'execution returns {ser2}',
                                           {'texts': texts, 'topology': topo, 'schedule': small, 'serial': ser2,
                                            'scheduled': res2[0], 'ledger': led, 'raw': raw, 'params': params},
                                           signature=sig))
    def plain(v):
        if isinstance(v, collections.Counter):
            return dict(sorted(v.items(), key=lambda kv: str(kv[0])))
        return {k: plain(x) for k, x in v.items()} if isinstance(v, dict) else v
    fam = {k: plain(v) for k, v in fam.items()}
    return runs, errs, viol, fam


# text statements (parsed inside Cursor.execute, in the threads), free running: SMOKE STREAM, but a failure is a violation
TEXT_STRESS = [
    ('SELECT year, day + 1 AS y, balance FROM #postings WHERE number > -100 AND day < 15 ORDER BY 1 DESC, 2', None),
    ('SELECT year, sum(number) AS s, count(*) AS n, last(balance) FROM #postings GROUP BY year ORDER BY year', None),
    ('SELECT day FROM #postings WHERE year IN (SELECT year FROM #postings WHERE number > 0) LIMIT 4', None),
    ('SELECT number FROM #postings WHERE day >= %s AND day <= %s', (2, 7)),
    ('SELECT number, vyield(year) FROM #postings WHERE year = %(a)s OR year = %(b)s', {'a': 2019, 'b': 2021}),
]


def text_stress(rounds, nthreads=4, per_thread=25):
    """4 threads x 25 statements given as TEXT behind a barrier, switch interval 1e-5, on one shared connection and
    on one connection per thread; every execution must give the serial result of its statement."""
    def ex(conn, q, p):
        try:
            return [[str(v) for v in row] for row in conn.execute(q, p).fetchall()]
        except Exception as e:  # noqa: BLE001
            return ['exception', type(e).__name__, str(e)[:100]]
    expected = [ex(connection(L_IO), q, p) for q, p in TEXT_STRESS]
    problems, runs = [], 0
    old = sys.getswitchinterval()
    sys.setswitchinterval(1e-5)
    try:
        for _ in range(rounds):
            for shared in (True, False):
                conn = connection(L_IO)
                barrier = threading.Barrier(nthreads)
                out = []

                def work(i):
                    c = conn if shared else connection(L_IO)
                    barrier.wait()
                    for k in range(per_thread):
                        j = (i + k) % len(TEXT_STRESS)
                        r = ex(c, *TEXT_STRESS[j])
                        if r != expected[j]:
                            out.append({'thread': i, 'round': k, 'statement': TEXT_STRESS[j][0], 'params': repr(TEXT_STRESS[j][1]),
                                        'got': r, 'expected': expected[j], 'shared_connection': shared})
                ths = [threading.Thread(target=work, args=(i,)) for i in range(nthreads)]
                for t in ths:
                    t.start()
                for t in ths:
                    t.join()
                runs += nthreads * per_thread
                problems += out
    finally:
        sys.setswitchinterval(old)
    return runs, problems


def free_running(rng, rounds, nthreads=4):
    """SMOKE TEST ONLY: no hook, the interpreter decides when to switch."""
    cases = [c for n, c in corpus_cases() if n in ('double-balance', 'aggregates', 'in-subquery', 'params-named',
                                                   'same-statement-named', 'mixed')]
    old = sys.getswitchinterval()
    sys.setswitchinterval(1e-6)
    bad = []
    runs = 0
    try:
        for case in cases:
            ser = impl_serial(case)
            for _ in range(rounds):
                jobs = make_jobs(case) * nthreads
                res = [None] * len(jobs)
                go = threading.Event()

                def w(i):
                    go.wait()
                    res[i] = jobs[i]()
                ths = [threading.Thread(target=w, args=(i,)) for i in range(len(jobs))]
                for t in ths:
                    t.start()
                go.set()
                for t in ths:
                    t.join()
                runs += len(jobs)
                if res != ser * nthreads:
                    bad.append((case, res, ser))
    finally:
        sys.setswitchinterval(old)
    return runs, bad


def run(tier, rng):
    violations = []
    cov = {}
    if beanquery.threadsafety != 2:
        violations.append(core.Violation('threadsafety', f'beanquery.threadsafety = {beanquery.threadsafety!r}, expected 2',
                                         {'threadsafety': repr(beanquery.threadsafety)}, signature='threadsafety'))
    inv = gen_inventory()
    pre = len(violations)
    quick = tier == 'quick'
    corpus = corpus_cases()
    nsched = 8 if quick else 40
    stats, v = check_cases(corpus, lambda c, segs: pick_schedules(rng, segs, nsched), 'c20a')
    violations += v
    # random pairs and triples
    ncases = 40 if quick else 400
    rnd = [(f'random{i}', gen_case(rng, 2 if rng.random() < 0.7 else 3)) for i in range(ncases)]
    stats2, v = check_cases(rnd, lambda c, segs: pick_schedules(rng, segs, 6 if quick else 12), 'c20b')
    violations += v
    exhaustive = False
    stats3 = None
    if not quick:
        # ALL interleavings of 2 threads with <= 6 yield points each, for the corpus pairs + random pairs
        pairs = [(n, c) for n, c in corpus if len(c['progs']) == 2]
        pairs += [(f'randompair{i}', gen_case(rng, 2, maxpost=3)) for i in range(12)]

        def every(case, segs):
            if any(k > 7 for k in segs):
                return pick_schedules(rng, segs, 200)
            return all_interleavings(segs)[0]
        stats3, v = check_cases(pairs, every, 'c20c')
        violations += v
        exhaustive = True
    else:
        # quick: all interleavings of the headline pair
        head = [(n, c) for n, c in corpus if n == 'double-balance'][:1]
        stats3, v = check_cases(head, lambda c, segs: all_interleavings(segs)[0], 'c20c')
        violations += v
    # generated families outside the model language; a shared cell in the inventory triggers the targeted search
    fams = family_scenarios(rng, 8 if quick else 24, 9 if quick else 27, 16 if quick else 64, 12 if quick else 48)
    io_runs, io_errs, v, fam_cov = check_impl_only(rng, 10 if quick else 3432, fams)
    violations += v
    targeted_runs = 0
    if inv['cells'] and not any(x.kind in ('schedule-dependent-result', 'topology-dependent-serial-result') for x in violations):
        targeted_runs, _, v, _ = check_impl_only(rng, 40, fams + family_scenarios(rng, 8, 9, 16, 12), targeted=True)
        violations += v
    fr_runs, fr_bad = free_running(rng, 3 if quick else 30)
    ts_runs, ts_bad = text_stress(1, per_thread=8) if quick else text_stress(4, per_thread=25)
    if ts_bad:
        b = ts_bad[0]
        violations.append(core.Violation(
            'free-running-text-statement',
            f'{len(ts_bad)} of {ts_runs} executions of text statements from 4 free-running threads '
            f'({"one shared connection" if b["shared_connection"] else "one connection per thread"}) did not give the '
            f'serial result, e.g. {b["statement"]!r} {b["params"]} -> {b["got"]} instead of {b["expected"]}',
            {'text_stress': True, 'failures': ts_bad[:5], 'executions': ts_runs},
            signature='free-running-text:' + b['statement']))
    for case, res, ser in fr_bad[:1]:
        violations.append(core.Violation('free-running-mismatch', f'free-running threads: {describe(case)} gave {res}, serial {ser}',
                                         {'case': case, 'results': res, 'serial': ser},
                                         signature='free-running:' + describe(case)))

    # the inventory's cells, each with a concrete schedule (when the driven runs found one) as witness
    witness = next((x.detail for x in violations if x.kind in ('schedule-dependent-result', 'topology-dependent-serial-result')),
                   None) or next((x.detail for x in violations if x.kind in ('model-mismatch', 'free-running-text-statement',
                                                                             'free-running-mismatch')), None)
    cellv = []
    for cell, name in inv['cells'][:3]:
        cellv.append(core.Violation(
            'shared-cell', f'state shared between threads is written at query time: {name} ({cell}); the hypothesis '
            f'query_time_shared_cells = [] of C20_isolation does not hold for this tree '
            f'(changed by the workload: {inv["changed"]}, functools caches: {inv["caches"]}, class-level containers '
            f'written through self: {inv.get("class_writes", [])}); '
            + (f'witness schedule: {_witness_text(witness)}' if witness else 'the targeted schedule search found no '
               'schedule-dependent result'),
            {'cell': cell, 'name': name, 'changed_by_workload': inv['changed'], 'functools_caches': inv['caches'],
             'class_level_containers_written_through_self': inv.get('class_writes', []),
             'connection_attributes': inv.get('conn_attrs', {}), 'witness': witness,
             'workload': [q for q, _ in WORKLOAD]}, signature='shared-cell:' + name, found_input=witness is not None))
    violations[pre:pre] = cellv

    def merge(*ss):
        out = {}
        for s in ss:
            if not s:
                continue
            for k, val in s.items():
                if isinstance(val, collections.Counter):
                    out.setdefault(k, collections.Counter()).update(val)
                else:
                    out[k] = out.get(k, 0) + val
        return {k: (dict(sorted(val.items(), key=lambda kv: str(kv[0]))) if isinstance(val, collections.Counter) else val)
                for k, val in out.items()}
    m = merge(stats, stats2, stats3)
    cov.update({
        'evaluations': m['runs'],
        'distinct_nontrivial': m['interleaved_runs'],
        'rule': 'one evaluation = one (case, schedule) run on real threads driven by the vyield hook, compared with the '
                'serial results and with the model (results + global yield trace); outside the model language fixed '
                'scenario pairs and the generated families same-text / from-subquery-namespace / '
                'placeholder-offset-collision (see generated_families) '
                'are compared with the serial results; cases = 12 named scenarios x 2 '
                'topologies + random pairs/triples; schedules = structured (A,B,A ...), random, and all interleavings '
                '(quick: headline pair; thorough: every pair with <= 6 yield points per thread); non-trivial = the '
                'observed trace switches thread at least twice',
        'samples': [describe(c) for _, c in (corpus[:3] + rnd[:4])],
        'traces_validated_against_impl': m['traces'],
        'threadsafety': beanquery.threadsafety,
        'exhaustive': exhaustive,
        'all_interleavings_runs': stats3['runs'] if stats3 else 0,
        'free_running_smoke_test_executions': fr_runs,
        'free_running_text_statement_executions': ts_runs,
        'impl_only_runs_outside_model_language': io_runs,
        'impl_only_statements_raising': io_errs,
        'impl_only_scenarios': [n for n, _ in IMPL_ONLY_META + IMPL_ONLY],
        'generated_families': fam_cov,
        'targeted_search_runs': targeted_runs,
    })
    for k in ('feature_hist', 'yields_per_thread', 'schedules_per_case', 'switches_hist', 'error_results', 'row_results'):
        cov[k] = m[k]
    return {'coverage': cov, 'violations': violations}


def _fix_case(case):
    """JSON round trip turns tuples into lists."""
    def tup(e):
        return tuple(tup(x) if isinstance(x, list) else x for x in e)
    for pr in case['progs']:
        st = pr['stmt']
        if st['kind'] == 'select':
            st['targets'] = [tup(t) for t in st['targets']]
        else:
            st['key'] = tup(st['key'])
            st['aggs'] = [(f, tup(e)) for f, e in st['aggs']]
        st['where'] = tup(st['where'])
        pr['ledger'] = [(y, d, list(a)) for y, d, a in pr['ledger']]
    return case


def _witness_text(w):
    if w.get('text_stress'):
        return f'free-running threads, text statements: {w["failures"][:1]}'
    if 'texts' in w:
        return f'{w["topology"]}: {" || ".join(w["texts"])}' + \
            (f' parameters={w["params"]!r}' if w.get('params') else '') + f' schedule={w["schedule"]}'
    return describe(w['case'], w.get('schedule'))


def replay(rec):
    if 'cell' in rec:
        # the inventory must be empty AND the witness schedule (if one was found) must give the serial results
        ok = not gen_inventory()['cells']
        w = rec.get('witness')
        return (replay(w) if w else True) and ok
    if 'threadsafety' in rec:
        return beanquery.threadsafety == 2
    if rec.get('text_stress'):
        return all(not text_stress(1)[1] for _ in range(3))
    if 'texts' in rec:
        led = rec.get('ledger', L_IO)
        led = led if isinstance(led, str) else [(y, d, list(a)) for y, d, a in led]
        raw = rec.get('raw', False)
        params = rec.get('params')
        if rec['topology'] == 'both':
            return _impl_only_unit((rec['texts'], 'shared-connection', None, led, raw, params))[0] == \
                _impl_only_unit((rec['texts'], 'connection-per-thread', None, led, raw, params))[0]
        ser, res = _impl_only_unit((rec['texts'], rec['topology'], [rec['schedule']], led, raw, params))
        return res[0] == ser
    if 'case' not in rec:
        return not gen_inventory()['cells']
    case = _fix_case(rec['case'])
    if 'schedule' not in rec:
        return free_running_case(case)
    sched = rec['schedule']
    res, trace = impl_sched(case, sched)
    if res != impl_serial(case):
        return False
    mo = core.coq_eval('c20r', ['Model.Threads', 'Gen.SharedState'], [case_coq(case, [sched])])[0][0]
    return [res, trace] == mo


def free_running_case(case):
    ser = impl_serial(case)
    for _ in range(50):
        jobs = make_jobs(case)
        res = [None] * len(jobs)

        def w(i):
            res[i] = jobs[i]()
        ths = [threading.Thread(target=w, args=(i,)) for i in range(len(jobs))]
        for t in ths:
            t.start()
        for t in ths:
            t.join()
        if res != ser:
            return False
    return True


# --------------------------------------------------------------------------
# Gen/SharedState.v: inventory of process-wide state

MUTABLE = (dict, list, set, collections.deque, bytearray)


def _import_all():
    import importlib
    import pkgutil
    for mi in pkgutil.walk_packages(beanquery.__path__, 'beanquery.'):
        if mi.name.endswith('_test') or '.tests' in mi.name or mi.name.endswith('__main__'):
            continue
        try:
            importlib.import_module(mi.name)
        except Exception:  # noqa: BLE001
            pass


def _defines(mn, an):
    import inspect
    import re
    try:
        src = inspect.getsource(sys.modules[mn])
    except Exception:  # noqa: BLE001
        return False
    return re.search(r'^%s\s*(:[^=]*)?=' % re.escape(an), src, re.M) is not None


def _modules():
    _import_all()
    return sorted(n for n, m in sys.modules.items()
                  if m is not None and (n == 'beanquery' or n.startswith('beanquery.')) and not n.endswith('_test'))


def _is_cache(o):
    return callable(getattr(o, 'cache_info', None)) and callable(getattr(o, 'cache_clear', None))


def _fname(o):
    return f'{getattr(o, "__module__", "?")}.{getattr(o, "__qualname__", getattr(o, "__name__", "?"))}'


def _fp(o, d, seen):
    """structural fingerprint"""
    if o is None or isinstance(o, (bool, int, float, str, bytes, decimal.Decimal, datetime.date)):
        return repr(o)
    if isinstance(o, type):
        return f'<class {_fname(o)}>'
    if _is_cache(o):
        return f'<cache {_fname(o)} {tuple(o.cache_info())}>'
    if isinstance(o, (pytypes.FunctionType, pytypes.BuiltinFunctionType, pytypes.MethodType, staticmethod, classmethod,
                      property, pytypes.ModuleType)):
        return f'<fn {_fname(o)}>' if not isinstance(o, pytypes.ModuleType) else f'<module {o.__name__}>'
    if id(o) in seen or d <= 0:
        try:
            return f'<{type(o).__name__} len={len(o)}>'
        except TypeError:
            return f'<{type(o).__name__}>'
    seen = seen | {id(o)}
    if isinstance(o, dict):
        return '{' + ','.join(sorted(f'{_fp(k, d - 1, seen)}:{_fp(v, d - 1, seen)}' for k, v in list(o.items()))) + '}'
    if isinstance(o, (list, tuple, collections.deque)):
        return '[' + ','.join(_fp(x, d - 1, seen) for x in list(o)) + ']'
    if isinstance(o, (set, frozenset)):
        return 'set(' + ','.join(sorted(_fp(x, d - 1, seen) for x in list(o))) + ')'
    attrs = {}
    if hasattr(o, '__dict__'):
        attrs.update(vars(o))
    for s in getattr(type(o), '__slots__', ()) or ():
        if isinstance(s, str) and hasattr(o, s):
            attrs[s] = getattr(o, s)
    call = type(o).__dict__.get('__call__')
    if isinstance(call, staticmethod):
        attrs['__call__'] = call.__func__
    return f'<{_fname(type(o))} ' + ','.join(f'{k}={_fp(v, d - 1, seen)}' for k, v in sorted(attrs.items())) + '>'


def _state_items():
    """(qualified name, object) of every module-level and class-level non-callable attribute (containers and
    scalars), and of every functools cache reachable from them, of the beanquery modules."""
    items = []
    caches = {}

    def note_cache(name, o):
        if _is_cache(o) and id(o) not in caches:
            caches[id(o)] = (name, o)

    def scan_values(name, o, depth):
        note_cache(name, o)
        if isinstance(o, staticmethod):
            note_cache(name, o.__func__)
        if depth <= 0:
            return
        if isinstance(o, dict):
            for k, v in list(o.items()):
                scan_values(f'{name}[{k!r}]' if isinstance(k, str) else f'{name}[{_fp(k, 0, set())}]', v, depth - 1)
        elif isinstance(o, (list, tuple, set, frozenset)):
            for i, v in enumerate(list(o)):
                scan_values(f'{name}[{i}]', v, depth - 1)
        elif isinstance(o, type):
            call = o.__dict__.get('__call__')
            if call is not None:
                scan_values(f'{name}.__call__', call, 0)
        elif not isinstance(o, (pytypes.FunctionType, pytypes.ModuleType, str, int)):
            call = type(o).__dict__.get('__call__')
            if call is not None:
                scan_values(f'{name}.__call__', call, 0)

    for mn in _modules():
        m = sys.modules[mn]
        for an, o in sorted(vars(m).items()):
            if an.startswith('__'):
                continue
            q = f'{mn}.{an}'
            if isinstance(o, pytypes.ModuleType):
                continue
            note_cache(q, o)
            if isinstance(o, type):
                if o.__module__ != mn:
                    continue
                for cn, co in sorted(vars(o).items()):
                    if cn.startswith('__') and cn != '__call__':
                        continue
                    cq = f'{q}.{cn}'
                    scan_values(cq, co, 3)
                    if callable(co) or isinstance(co, (staticmethod, classmethod, property, pytypes.MemberDescriptorType,
                                                       pytypes.GetSetDescriptorType)):
                        continue
                    items.append((cq, co, 'class'))
                continue
            if isinstance(o, (pytypes.FunctionType, pytypes.BuiltinFunctionType, pytypes.MethodType,
                              pytypes.MethodWrapperType, pytypes.WrapperDescriptorType)) or _is_cache(o):
                continue
            if type(o).__module__ in ('typing', 'functools', 'collections.abc', 'abc', 'enum', 're', '__future__'):
                continue      # typing special forms, partial objects, compiled patterns: immutable
            scan_values(q, o, 3)
            items.append((q, o, 'module'))
    # one name per object: an imported alias (from .query_compile import FUNCTIONS) is not another container
    byid = {}
    for q, o, kind in items:
        if isinstance(o, MUTABLE):
            byid.setdefault(id(o), []).append(q)
    drop = set()
    for names in byid.values():
        if len(names) > 1:
            owner = [q for q in names if _defines(*q.rsplit('.', 1))] or names[:1]
            drop.update(q for q in names if q != owner[0])
    items = [it for it in items if it[0] not in drop]
    return items, sorted(caches.values(), key=lambda x: x[0])


IMMUTABLE = (type(None), bool, int, float, str, bytes, tuple, frozenset, decimal.Decimal, datetime.date)


def _stateful_instances(items):
    """module-level objects created at import that carry instance state (a __dict__ or slots with content) and
    are neither containers nor immutable values: e.g. a parser instance. (name, class, tatsu?)"""
    out = []
    for q, o, kind in items:
        if kind != 'module' or isinstance(o, MUTABLE + IMMUTABLE + (type,)):
            continue
        state = dict(getattr(o, '__dict__', {}) or {})
        for sl in getattr(type(o), '__slots__', ()) or ():
            if isinstance(sl, str) and hasattr(o, sl):
                state[sl] = getattr(o, sl)
        mro_mods = {c.__module__.split('.')[0] for c in type(o).__mro__}
        if state or 'tatsu' in mro_mods:
            out.append((q, _fname(type(o)), 'tatsu' in mro_mods))
    return out


def _snapshot():
    items, caches = _state_items()
    snap = {}
    for q, o, _ in items:
        snap[q] = _fp(o, 4, set())
    for q, o in caches:
        snap['cache:' + q] = repr(tuple(o.cache_info()))
    return snap


WORKLOAD = [
    ('SELECT balance, vyield(year), balance', None),
    ('SELECT date, account, position, balance WHERE number > 0 ORDER BY date DESC LIMIT 3', None),
    ('SELECT year, sum(number), last(balance), count(*) GROUP BY 1 ORDER BY 1', None),
    ('SELECT account, sum(position) AS s GROUP BY account HAVING count(*) > 1', None),
    ('SELECT DISTINCT account, year IN (SELECT year FROM #postings WHERE number > %s) ', (3,)),
    ('SELECT balance, year IN (SELECT year FROM #postings WHERE NOT empty(balance)), balance', None),
    ('SELECT account, number FROM #postings WHERE number > %(lo)s AND number < %(hi)s', {'lo': 0, 'hi': 100}),
    ('SELECT number + %s, %s', (1, 'x')),
    ('SELECT * FROM #postings', None),
    ('SELECT * FROM #entries', None),
    ('SELECT type, count(*) FROM #entries GROUP BY 1', None),
    # the typed tables (rows: the 'typed3' workload ledger, on which only these statements are run, twice)
    ('SELECT * FROM #prices', None), ('SELECT date, narration FROM #transactions', None),
    ('SELECT account, last(amount) FROM #balances GROUP BY 1', None), ('SELECT * FROM #notes', None),
    ('SELECT type, description FROM #events WHERE year(date) > 2019', None), ('SELECT * FROM #documents', None),
    ('SELECT account, year, sum(number) GROUP BY 1, 2 PIVOT BY 1, 2', None),
    ('SELECT account, sum(position) FROM OPEN ON 2020-01-01 CLOSE ON 2021-01-01 CLEAR GROUP BY 1', None),
    ('SELECT account, sum(number) FROM year = 2020 GROUP BY 1', None),
    ('BALANCES', None),
    ('BALANCES AT cost FROM year = 2020', None),
    ("JOURNAL 'Assets'", None),
    ('SELECT root(account, 1), parent(account), str(number), date_trunc(\'month\', date), upper(narration), '
     'number ~ \'1\', meta(\'filename\') IS NULL, entry.date, getitem(meta, \'lineno\')', None),
    ('SELECT nosuchfn(year)', None),
    ('SELECT nosuchcolumn', None),
    ('SELECT FROM WHERE', None),
    ('SELECT year WHERE number > %s', None),
    ('SELECT sum(sum(number))', None),
    ('SELECT a FROM #nosuchtable', None),
    ('SELECT 1 + 1, coalesce(payee, narration), today() > date', None),
    ("SELECT narration, account, any_meta('ref') AS ref, meta('ref'), entry_meta('ref')", None),
    ("SELECT account, getitem(meta, 'ref', 'dflt'), getitem(meta, 'nokey', 'dflt'), getitem(entry.meta, 'ref')", None),
    ("SELECT account, count(meta('ref')), count(any_meta('nokey')) GROUP BY account ORDER BY account", None),
    ("SELECT meta, entry.meta, tags, links, other_accounts FROM #postings", None),
    ("SELECT id, type, meta('ref'), meta FROM #entries", None),
    # FROM-subqueries (their tables and column namespaces are built at compile time), nested, grouped, with other names
    ('SELECT y, b FROM (SELECT year AS y, balance AS b FROM #postings WHERE number > 0)', None),
    ('SELECT b, y, n FROM (SELECT number AS n, year AS y, account AS b FROM #postings) WHERE n < 0 ORDER BY b', None),
    ('SELECT a, count(n) FROM (SELECT account AS a, number AS n FROM (SELECT account, number FROM #postings)) GROUP BY a', None),
    ('SELECT * FROM (SELECT type AS t, count(*) AS c FROM #entries GROUP BY 1)', None),
    # the same texts again: anything keyed by the statement text is hit a second time
    ('SELECT year, sum(number), last(balance), count(*) GROUP BY 1 ORDER BY 1', None),
    ('SELECT y, b FROM (SELECT year AS y, balance AS b FROM #postings WHERE number > 0)', None),
]


def _table_attrs(conn):
    """{(table name, attribute): (fingerprint, size)} of every table object of the connection"""
    out = {}
    for name, t in conn.tables.items():
        attrs = dict(getattr(t, '__dict__', {}) or {})
        for sl in getattr(type(t), '__slots__', ()) or ():
            if isinstance(sl, str) and hasattr(t, sl):
                attrs[sl] = getattr(t, sl)
        for a, v in attrs.items():
            try:
                size = len(v)
            except TypeError:
                size = None
            out[(name, a)] = (_fp(v, 2, set()), size)
    return out


SCAN_PROBE = {'tables_probed': [], 'scans_through_a_statement': 0, 'scans_by_iteration': 0, 'snapshots_during_suspended_scans': 0,
              'rows_at_which_suspended': collections.Counter()}


def _scan_probe(conn):
    """DYNAMIC, per table object of a connection that has executed nothing yet: the attributes of EVERY table object of
    the connection are fingerprinted before the first-ever scan of the table, WHILE that scan is suspended in a row
    (inside vyield evaluated for the row, for tables with a date/year column; else between two steps of the table's
    iterator) and after it has completed.  An attribute that appears, changes or grows while a scan is suspended is
    state that a scan starting at that moment in another thread would read half-written; one that differs after the
    scan is a per-connection cell as well.  -> names of the changed cells"""
    found = []

    def note(name, before, now, when):
        for k in sorted(set(before) | set(now), key=str):
            if before.get(k) != now.get(k):
                sizes = (before.get(k, (None, None))[1], now.get(k, (None, None))[1])
                q = f"<connection>.tables['{k[0]}'].{k[1]}"
                if not any(x.startswith(q + ' ') for x in found):
                    found.append(f'{q} (written by a scan of #{name}: differs {when}, size {sizes[0]} -> {sizes[1]})')

    for name, t in list(conn.tables.items()):
        if not name:
            continue
        cols = getattr(t, 'columns', {}) or {}
        before = _table_attrs(conn)
        SCAN_PROBE['tables_probed'].append(name) if name not in SCAN_PROBE['tables_probed'] else None
        text = f'SELECT vyield(year(date)) FROM #{name}' if 'date' in cols else f'SELECT vyield(year) FROM #{name}' if 'year' in cols else None
        calls = [0]
        if text is not None:
            def probe():
                calls[0] += 1
                if calls[0] <= 3:
                    SCAN_PROBE['snapshots_during_suspended_scans'] += 1
                    SCAN_PROBE['rows_at_which_suspended'][calls[0]] += 1
                    note(name, before, _table_attrs(conn), f'while the scan is suspended in row {calls[0]}')
            S.probe = probe
            try:
                conn.execute(text).fetchall()
                SCAN_PROBE['scans_through_a_statement'] += 1
            except Exception:  # noqa: BLE001
                text = None
            finally:
                S.probe = None
        if text is None or not calls[0]:
            # no statement with a yield point per row (or no rows seen by it): step the table's iterator by hand
            try:
                it = iter(t)
                for k in range(3):
                    next(it)
                    SCAN_PROBE['snapshots_during_suspended_scans'] += 1
                    note(name, before, _table_attrs(conn), f'while the iterator is suspended after row {k + 1}')
                for _ in it:
                    pass
            except StopIteration:
                pass
            except Exception:  # noqa: BLE001
                pass
            SCAN_PROBE['scans_by_iteration'] += 1
        note(name, before, _table_attrs(conn), 'after the completed scan')
    return found


def _workload():
    txs = [(2020, 2, [5, -5]), (2020, 7, [3, 4, -7]), (2021, 3, [7, -7])]
    n = 0
    probed = []
    for led in ('typed3', txs):
        # suspended-scan probe, on connections of their own that have executed nothing yet (one name per attribute)
        conn = connection(led, fresh=True)
        probed += [x for x in _scan_probe(conn) if not any(y.split(' (')[0] == x.split(' (')[0] for y in probed)]
        n += len(conn.tables)
    for rep in range(4):
        conn = connection('meta' if rep == 2 else 'typed3' if rep == 3 else txs, fresh=True)
        fp0 = _fp(conn.tables, 5, set())
        fp1 = _conn_fp(conn)
        fp2 = ledger_fp(conn)
        attrs = _conn_attrs(conn)
        prev = '(attach)'
        work = WORKLOAD if rep < 3 else [w for w in WORKLOAD if any('#' + t in w[0] for t in TYPED_TABLES)] * 2
        for q, params in work + [('SELECT 1', None)]:
            n += 1
            # every attribute of the Connection object: a new or changed one is state shared by the threads that
            # share the connection (a per-connection cache); its size is followed over the workload
            now = _conn_attrs(conn)
            for a in sorted(set(now) | set(attrs)):
                if now.get(a) != attrs.get(a):
                    rec = CONN_ATTR_CHANGES.setdefault(a, {'first_changed_after': prev[:70], 'sizes': []})
                    rec['sizes'].append(now.get(a, (None, None))[1])
            attrs = now
            if _conn_fp(conn) != fp1:
                return n, probed + [f'<connection>.tables after workload statement: {prev[:70]}']
            if ledger_fp(conn) != fp2:
                return n, probed + [f'<connection ledger data: entries/postings/meta dicts> after workload statement: {prev[:70]}']
            prev = q
            try:
                cur = conn.cursor()
                cur.execute(q, params)
                cur.fetchall()
                try:
                    import io
                    from beanquery import query_render
                    c2 = conn.execute(q, params)
                    query_render.render_text(c2.description, c2.fetchall(), conn.options['dcontext'], io.StringIO())
                except Exception:  # noqa: BLE001
                    pass
            except Exception:  # noqa: BLE001
                pass
        # a parsed statement executed twice, executemany
        try:
            st = conn.parse('SELECT account WHERE number > %s')
            conn.execute(st, (1,))
            conn.execute(st, (2,))
            conn.cursor().executemany('SELECT account WHERE number > %s', [(1,), (2,)])
            n += 4
        except Exception:  # noqa: BLE001
            pass
        if _fp(conn.tables, 5, set()) != fp0:
            return n, probed + ['<connection>.tables']
    return n, probed


CONN_ATTR_CHANGES = {}


def _conn_attrs(conn):
    """{attribute: (fingerprint, size)} of the Connection object itself, apart from tables/options/errors, which
    _conn_fp and ledger_fp follow (deeper)"""
    out = {}
    for a, v in vars(conn).items():
        if a in ('tables', 'options', 'errors'):
            continue
        try:
            size = len(v)
        except TypeError:
            size = None
        out[a] = (_fp(v, 3, set()), size)
    return out


def _self_attr(node, selfname):
    import ast
    if isinstance(node, ast.Attribute) and isinstance(node.value, ast.Name) and node.value.id == selfname:
        return node.attr
    return None


MUTATORS = {'append', 'extend', 'insert', 'update', 'setdefault', 'add', 'pop', 'popitem', 'clear', 'remove', 'discard',
            'appendleft', 'popleft', 'sort', 'reverse', '__setitem__', '__delitem__'}


def _fn_self_writes(f):
    """(attributes of self that the function rebinds: self.a = ..., attributes whose CONTENT it writes:
    self.a[k] = v, del self.a[k], self.a.append(..) ...) from the function's source"""
    import ast
    import inspect
    import textwrap
    try:
        tree = ast.parse(textwrap.dedent(inspect.getsource(f)))
    except Exception:  # noqa: BLE001
        return set(), set()
    fn = next((x for x in ast.walk(tree) if isinstance(x, (ast.FunctionDef, ast.AsyncFunctionDef))), None)
    if fn is None or not fn.args.args:
        return set(), set()
    me = fn.args.args[0].arg
    bound, written = set(), set()
    for x in ast.walk(fn):
        if isinstance(x, (ast.Assign, ast.AnnAssign, ast.AugAssign)):
            tgts = x.targets if isinstance(x, ast.Assign) else [x.target]
            for t in tgts:
                for y in ast.walk(t):
                    a = _self_attr(y, me)
                    if a is not None and y is t and not isinstance(x, ast.AugAssign):
                        bound.add(a)
                    elif a is not None and y is t:
                        written.add(a)
                    if isinstance(y, ast.Subscript) and _self_attr(y.value, me) is not None:
                        written.add(_self_attr(y.value, me))
        elif isinstance(x, ast.Delete):
            for t in x.targets:
                if isinstance(t, ast.Subscript) and _self_attr(t.value, me) is not None:
                    written.add(_self_attr(t.value, me))
        elif isinstance(x, ast.Call) and isinstance(x.func, ast.Attribute) and x.func.attr in MUTATORS:
            a = _self_attr(x.func.value, me)
            if a is not None:
                written.add(a)
    return bound, written


def _class_container_writes():
    """STATIC: mutable containers living on a CLASS of the beanquery modules (class body attribute, also inherited)
    whose content an instance method writes through self while no __init__ along the MRO (nor the method itself)
    gives the instance its own container of that name: every instance - every statement, connection and thread -
    then writes the one class-level object.  -> [(qualified container name, 'Class.method')]"""
    out = {}
    for mn in _modules():
        m = sys.modules[mn]
        for cn, cls in sorted(vars(m).items()):
            if not isinstance(cls, type) or cls.__module__ != mn:
                continue
            cont = {}
            for base in cls.__mro__:
                if not (base.__module__ or '').startswith('beanquery'):
                    continue
                for an, o in vars(base).items():
                    if isinstance(o, MUTABLE) and not an.startswith('__'):
                        cont.setdefault(an, base)
            if not cont:
                continue
            own = set()
            for base in cls.__mro__:
                f = vars(base).get('__init__')
                if isinstance(f, pytypes.FunctionType):
                    own |= _fn_self_writes(f)[0]
            for base in cls.__mro__:
                if not (base.__module__ or '').startswith('beanquery'):
                    continue
                for fname, f in sorted(vars(base).items()):
                    if not isinstance(f, pytypes.FunctionType):
                        continue        # classmethods/staticmethods: registration at import time
                    bound, written = _fn_self_writes(f)
                    for a in sorted(written):
                        if a in cont and a not in own and a not in bound:
                            owner = cont[a]
                            out.setdefault(f'{owner.__module__}.{owner.__qualname__}.{a}', f'{cls.__qualname__}.{fname}')
    return sorted(out.items())


def _conn_fp(conn):
    return _fp([conn.tables, conn.options.get('dcontext') is not None, len(conn.errors)], 4, set())


def compile_writes_statement():
    st = bq_parser.parse('SELECT %s, %s')
    before = [n.name for n in st.walk() if isinstance(n, bq_parser.ast.Placeholder)]
    try:
        beanquery.Connection().compile(st) if False else beanquery.compiler.compile(beanquery.Connection(), st, (1, 2))
    except Exception:  # noqa: BLE001
        pass
    after = [n.name for n in st.walk() if isinstance(n, bq_parser.ast.Placeholder)]
    return before != after


_INV = None


def gen_inventory():
    global _INV
    if _INV is not None:
        return _INV
    items, caches = _state_items()
    before = _snapshot()
    CONN_ATTR_CHANGES.clear()
    nwork, conn_changed = _workload()
    after = _snapshot()
    changed = sorted(k for k in set(before) | set(after) if before.get(k) != after.get(k))
    changed += conn_changed
    scan_probe_cells = [k for k in conn_changed if k.startswith("<connection>.tables['")]
    conn_attrs = {f'<connection>.{a}': dict(r, grows=len(set(r['sizes'])) > 1) for a, r in sorted(CONN_ATTR_CHANGES.items())}
    changed += [k for k in conn_attrs if k not in changed]
    class_writes = _class_container_writes()
    cells = []
    for q, o in caches:
        w = getattr(o, '__wrapped__', None)
        if getattr(w, '__name__', '') == 'balance' and getattr(w, '__module__', '') == 'beanquery.query_env':
            cells.append(('CBalanceCache', q))
        else:
            cells.append((f'CUnknown "{q}"', q))
    cache_names = {'cache:' + q for q, _ in caches}
    for k in changed:
        if k not in cache_names:
            cells.append((f'CUnknown {cs(k)}', k))
    for q, meth in class_writes:
        if q not in changed:
            cells.append((f'CUnknown {cs(q)}', q))
    instances = _stateful_instances(items)
    for q, cls, is_tatsu in instances:
        # parsing machinery keeps the text, position, stacks and memo tables of the parse in progress on the instance
        if is_tatsu and q not in changed:
            cells.append((f'CUnknown {cs(q + " : " + cls)}', q))
    containers = [(q, type(o).__name__, len(o), kind) for q, o, kind in items if isinstance(o, MUTABLE)]
    _INV = {
        'modules': _modules(), 'caches': [q for q, _ in caches], 'containers': containers,
        'scalars': len([1 for q, o, k in items if not isinstance(o, MUTABLE)]),
        'snapshot_entries': len(before), 'workload': nwork, 'changed': changed, 'cells': cells,
        'instances': instances,
        'astw': compile_writes_statement(),
        'conn_attrs': conn_attrs,
        'class_writes': [f'{q} written by {m}' for q, m in class_writes],
        'scan_probe_cells': scan_probe_cells,
    }
    return _INV


def cs(s):
    return '"' + s.replace('"', '""') + '"'


def generate():
    inv = gen_inventory()
    regs = [(q, t, n) for q, t, n, k in inv['containers'] if q not in inv['changed']]
    text = '''(* GENERATED by harness/vf/c20.py (generate) from the imported beanquery modules - do not edit.
   Inventory of the process-wide state of beanquery:
   (a) static scan of every module-level and class-level attribute of the imported beanquery.* modules for
       functools caches (objects with cache_info/cache_clear, also behind staticmethod/__call__ of registered
       column objects) and mutable containers (dict/list/set/deque);
   (b) dynamic diff: structural fingerprint of all of them (and of the module/class level scalars) before and
       after a workload of statements (queries with balance, aggregates, subqueries, parameters, BALANCES,
       JOURNAL, PIVOT, OPEN/CLOSE/CLEAR, rendering, failing statements, re-executed parsed statements).
   (c) every attribute of the Connection objects used by the workload (fingerprint and size after every statement):
       a new or changed attribute is a per-connection cell, shared by the threads that share the connection;
   (d) static scan of the methods of every class for writes THROUGH self into a mutable container that lives on
       the class (no __init__ along the MRO gives the instance its own);
   (e) suspended-scan probe: on connections that have executed nothing yet, the attributes of every table object
       are fingerprinted before the first-ever scan of each table, while that scan is suspended in a row (inside
       vyield) and after it: an attribute that appears, changes or grows is a per-connection cell.
   A container that the workload does not change is a registry (read-only after import); a functools cache or
   anything changed by the workload or found by (c)/(d) is a cell shared by threads at query time. *)
From Coq Require Import ZArith List String.
Import ListNotations.
From Verif Require Import Model.Threads.
Open Scope string_scope.
Open Scope Z_scope.

Definition modules_scanned : list string :=
  %s.

Definition functools_caches : list string :=
  %s.

(* (qualified name, entries) of the mutable containers the workload left unchanged *)
Definition registries : list (string * Z) :=
  %s.

(* module-level objects created at import that carry instance state (name, class); fingerprinted by the diff *)
Definition module_instances : list (string * string) :=
  %s.

Definition snapshot_entries : Z := %d.
Definition workload_statements : Z := %d.

Definition changed_by_workload : list string :=
  %s.

(* Compiler.compile writes the numbering of positional placeholders on the parsed statement object *)
Definition compile_writes_statement : bool := %s.

Definition query_time_shared_cells : list cell_id :=
  %s.
''' % (clist([cs(m) for m in inv['modules']]),
       clist([cs(q) for q in inv['caches']]),
       '[' + ';\n   '.join(f'({cs(q)}, {n})' for q, t, n in regs) + ']',
       clist([f'({cs(q)}, {cs(c)})' for q, c, _ in inv['instances']]),
       inv['snapshot_entries'], inv['workload'],
       clist([cs(q) for q in inv['changed']]),
       cbool(inv['astw']),
       clist([c for c, _ in inv['cells']]))
    core.write_if_changed(core.COQ + '/Gen/SharedState.v', text)
    # translator tie (bld-misc): Properties/C20.v restates the C09 source theorems about the Connection wrappers
    # (C20_source_no_connection_cache), so the terms they are about are regenerated by THIS check, too
    from . import gen_src
    src_info = gen_src.generate('params')
    return {
        **src_info,
        'shared_state_scan': {
            'modules_scanned': len(inv['modules']), 'functools_caches': inv['caches'],
            'mutable_containers': len(inv['containers']), 'scalars_fingerprinted': inv['scalars'],
            'snapshot_entries': inv['snapshot_entries'], 'workload_statements': inv['workload'],
            'changed_by_workload': inv['changed'], 'query_time_shared_cells': [c for c, _ in inv['cells']],
            'compile_writes_statement': inv['astw'],
            'registries': [q for q, t, n in regs],
            'module_level_stateful_instances': [f'{q} : {c}' for q, c, _ in inv['instances']],
            'ledger_data_fingerprinted_after_every_workload_statement': True,
            'connection_attributes_changed_by_workload': inv['conn_attrs'],
            'class_level_containers_written_through_self': inv['class_writes'],
            'suspended_scan_probe': dict(SCAN_PROBE, rows_at_which_suspended=dict(SCAN_PROBE['rows_at_which_suspended']),
                                         cells_found=inv.get('scan_probe_cells', [])),
        }
    }
