"""Group `subquery` of the translator-based tie (see PYMINI.md): the subquery code of beanquery/query_compile.py (C08).

Translated on every run from the source of the IMPORTED objects (inspect.getsource + ast) into coq/Gen/SrcSubquery.v:

* `subq_table_init`   SubqueryTable.__init__   (one column accessor per visible target of the subquery),
* `subq_table_iter`   SubqueryTable.__iter__   (rows = second component of execute_query(self.subquery)),
* `subq_in_init`      EvalConstantSubquery1D.__init__,
* `subq_in_call`      EvalConstantSubquery1D.__call__   (first call executes and caches, empty -> None),
* `subq_node_binary`  EvalBinaryOp.__call__ (the class of the IN / NOT IN operator nodes), and `subq_in`, `subq_not_in`:
  the functions the LIVE registry OPERATORS[ast.In] / OPERATORS[ast.NotIn] hands to every one of its overloads
  (read back from the closure of each overload's __init__; all overloads of one operator must share one function);
* as DATA, `column_factory`: the structure of the staticmethod SubqueryTable.column, which lies outside the fragment (a
  class statement in a function).  It must have exactly the shape
      def column(p0, p1, p2):
          class C(<bases>):
              def __init__(self): super().__init__(<a parameter>)
              __call__ = staticmethod(operator.itemgetter(<a parameter>))
          return C
  (checked with `ast`; `operator.itemgetter` and `staticmethod` are resolved to the real objects); emitted are the
  parameter names, WHICH parameter the accessor reads and WHICH parameter is the datatype, and the qualified names of the
  bases.  Proofs/SrcSubquery.v compares them (accessor = first parameter = the position handed over by __init__,
  datatype = third) and Model/PrimsSubquery.v derives from them what the opaque callable is assumed to return.

Rules added to py2mini's fragment by SubqueryTranslator (each an exact rewriting into existing PyMini constructors; what
the new primitives mean is fixed in Model/PrimsSubquery.v):

  Q1  `{}`                       -> XPrim "dict.new" []                     (a fresh, empty, insertion-ordered dict)
  Q2  `self.a[k] = v`            -> self.a = XPrim "dict.set" [self.a; k; v]  (item assignment on a dict held in an attribute
                                    of self: functional update; reading self.a fails unless THIS call assigned it before
                                    or the caller's statement provides it as a field - a class-level dict shared between
                                    instances is therefore not silently taken for a fresh one)
  Q3  `self.m(args)` where m is found as a staticmethod through the MRO of the class that owns the translated method and
      the function never assigns self.m -> a call of the opaque callable "<module>.<qualname of the function>"
  Q4  a module-level sentinel (a global whose value is a direct instance of `object`) -> the opaque reference
      "<module>.<NAME>"; `x is SENTINEL` is PyMini's identity of references (one number per object)
  Q5  names read only inside a comprehension are resolved in the function's globals (inspect.getclosurevars omits them)

Everything else fails closed with py2mini.Untranslatable."""
import ast
import inspect
import operator
import textwrap

from . import py2mini
from .py2mini import Untranslatable, gstr, glist

PRIMS = ('builtins.enumerate', 'builtins.iter', '_operator.contains')


def _is_name(e, name=None):
    return isinstance(e, ast.Name) and (name is None or e.id == name)


def _qual(obj):
    mod = getattr(obj, '__module__', None)
    qn = getattr(obj, '__qualname__', None) or getattr(obj, '__name__', None)
    if not mod or not qn:
        raise Untranslatable(f'cannot name {obj!r}')
    return f'{mod}.{qn}'


class SubqueryTranslator(py2mini.FuncTranslator):
    def __init__(self, func, refs, prims=(), owner=None):
        super().__init__(func, refs, prims=prims)
        self.owner = owner          # the class through whose MRO `self.m` is resolved (rule Q3)
        self.self_stores = {n.attr for n in ast.walk(self.fd)
                            if isinstance(n, ast.Attribute) and isinstance(n.ctx, (ast.Store, ast.Del))
                            and _is_name(n.value, self.self_name)}
        self.rules = []

    def used(self, r):
        if r not in self.rules:
            self.rules.append(r)

    def resolve_free(self, name):                                                        # Q5
        if name not in self.free and name in self.func.__globals__:
            self.used('Q5')
            return self.func.__globals__[name]
        return super().resolve_free(name)

    def free_name(self, name, dotted):                                                   # Q4
        obj = self.resolve_free(name)
        for a in dotted.split('.')[1:]:
            obj = getattr(obj, a)
        if type(obj) is object:
            mod = inspect.getmodule(self.func)
            hits = [k for k, v in vars(mod).items() if v is obj]
            if '.' in dotted or hits != [name]:
                raise Untranslatable(f'sentinel {dotted} is not bound to exactly one module-level name: {hits}')
            self.used('Q4')
            return f'(XConst (PRef {self.refs.ref(mod.__name__ + "." + name)}))'
        return super().free_name(name, dotted)

    def _self_attr(self, e):
        return isinstance(e, ast.Attribute) and _is_name(e.value, self.self_name) and self.self_name in self.params

    def expr(self, e):
        if isinstance(e, ast.Dict) and not e.keys:                                       # Q1
            self.used('Q1')
            return '(XPrim "dict.new" [])'
        if isinstance(e, ast.Call) and self._self_attr(e.func) and self.owner is not None \
                and e.func.attr not in self.self_stores:                                 # Q3
            found = None
            for k in self.owner.__mro__:
                if e.func.attr in vars(k):
                    found = vars(k)[e.func.attr]
                    break
            if isinstance(found, staticmethod):
                if e.keywords or any(isinstance(a, ast.Starred) for a in e.args):
                    raise Untranslatable('keyword / star arguments to a static method')
                self.used('Q3')
                k = self.refs.ref(_qual(found.__func__))
                return f'(XCall (XConst (PRef {k})) {glist([self.expr(a) for a in e.args])} None)'
        return super().expr(e)

    def stmt(self, s):
        if isinstance(s, ast.Assign) and len(s.targets) == 1 and isinstance(s.targets[0], ast.Subscript) \
                and not isinstance(s.targets[0].slice, ast.Slice) and self._self_attr(s.targets[0].value):   # Q2
            t = s.targets[0]
            self.used('Q2')
            a = gstr(t.value.attr)
            return (f'(SAssign (TSelf {a}) (XPrim "dict.set" [(XAttr (XName {gstr(self.self_name)}) {a}); '
                    f'{self.expr(t.slice)}; {self.expr(s.value)}]))')
        if isinstance(s, (ast.ClassDef, ast.FunctionDef)):
            raise Untranslatable(f'nested {type(s).__name__} {s.name}')
        return super().stmt(s)


# ------------------------------------------------------------------------------------------------ the column factory
def column_factory():
    """structure of SubqueryTable.column (see the module docstring); raises Untranslatable on any other shape"""
    from beanquery import query_compile as qc
    raw = vars(qc.SubqueryTable).get('column')
    if not isinstance(raw, staticmethod):
        raise Untranslatable('SubqueryTable.column is not a staticmethod of SubqueryTable')
    fn = raw.__func__
    fd = ast.parse(textwrap.dedent(inspect.getsource(fn))).body[0]
    if not isinstance(fd, ast.FunctionDef):
        raise Untranslatable('SubqueryTable.column is not a plain function')
    a = fd.args
    if a.vararg or a.kwarg or a.kwonlyargs or a.posonlyargs or a.defaults:
        raise Untranslatable('SubqueryTable.column: only positional parameters without defaults are supported')
    params = [x.arg for x in a.args]
    body = [s for s in fd.body if not (isinstance(s, ast.Expr) and isinstance(s.value, ast.Constant))]
    if not (len(body) == 2 and isinstance(body[0], ast.ClassDef) and isinstance(body[1], ast.Return)
            and _is_name(body[1].value, body[0].name)):
        raise Untranslatable('SubqueryTable.column is not `class C(..): ...; return C`')
    cd = body[0]
    if cd.keywords or cd.decorator_list:
        raise Untranslatable('SubqueryTable.column: class with keywords / decorators')

    def static(e):
        parts = []
        while isinstance(e, ast.Attribute):
            parts.append(e.attr)
            e = e.value
        if not isinstance(e, ast.Name) or e.id in params or e.id == cd.name:
            raise Untranslatable(f'not a static name: {ast.dump(e)[:60]}')
        if e.id in fn.__globals__:
            obj = fn.__globals__[e.id]
        else:
            import builtins
            if not hasattr(builtins, e.id):
                raise Untranslatable(f'unresolved name {e.id}')
            obj = getattr(builtins, e.id)
        for p in reversed(parts):
            obj = getattr(obj, p)
        return obj

    bases = [_qual(static(b)) for b in cd.bases]
    cbody = [s for s in cd.body if not (isinstance(s, ast.Expr) and isinstance(s.value, ast.Constant))]
    if len(cbody) != 2:
        raise Untranslatable('SubqueryTable.column: the class body is not exactly `__init__` and `__call__`')
    init = [s for s in cbody if isinstance(s, ast.FunctionDef) and s.name == '__init__']
    call = [s for s in cbody if isinstance(s, ast.Assign) and len(s.targets) == 1 and _is_name(s.targets[0], '__call__')]
    if len(init) != 1 or len(call) != 1:
        raise Untranslatable('SubqueryTable.column: the class body is not `def __init__` and `__call__ = ..`')
    # def __init__(self): super().__init__(<param>)
    i = init[0]
    ia = i.args
    ibody = [s for s in i.body if not (isinstance(s, ast.Expr) and isinstance(s.value, ast.Constant))]
    ok = (len(ia.args) == 1 and not (ia.vararg or ia.kwarg or ia.kwonlyargs or ia.posonlyargs or ia.defaults)
          and not i.decorator_list and len(ibody) == 1 and isinstance(ibody[0], ast.Expr)
          and isinstance(ibody[0].value, ast.Call))
    if ok:
        c = ibody[0].value
        ok = (isinstance(c.func, ast.Attribute) and c.func.attr == '__init__' and isinstance(c.func.value, ast.Call)
              and _is_name(c.func.value.func, 'super') and not c.func.value.args and not c.func.value.keywords
              and not c.keywords and len(c.args) == 1 and _is_name(c.args[0]) and c.args[0].id in params
              and c.args[0].id != ia.args[0].arg and 'super' not in fn.__globals__)
    if not ok:
        raise Untranslatable('SubqueryTable.column: __init__ is not `def __init__(self): super().__init__(<parameter>)`')
    dtype_param = c.args[0].id
    # __call__ = staticmethod(operator.itemgetter(<param>))
    v = call[0].value
    ok = (isinstance(v, ast.Call) and not v.keywords and len(v.args) == 1 and static(v.func) is staticmethod
          and isinstance(v.args[0], ast.Call) and not v.args[0].keywords and len(v.args[0].args) == 1
          and static(v.args[0].func) is operator.itemgetter and _is_name(v.args[0].args[0])
          and v.args[0].args[0].id in params)
    if not ok:
        raise Untranslatable('SubqueryTable.column: __call__ is not `staticmethod(operator.itemgetter(<parameter>))`')
    return {'qualname': _qual(fn), 'params': params, 'accessor': v.args[0].args[0].id, 'dtype': dtype_param,
            'bases': bases, 'lines': len(inspect.getsource(fn).splitlines())}


def in_operators():
    """the function every overload of OPERATORS[ast.In] / [ast.NotIn] wraps, and the node class they derive from"""
    from beanquery import query_compile as qc
    from beanquery.parser import ast as bast
    out = {}
    for key, node in (('in', bast.In), ('not_in', bast.NotIn)):
        ovs = qc.OPERATORS[node]
        if not ovs:
            raise Untranslatable(f'no overload registered for {node.__name__}')
        funcs, sigs = [], []
        for ov in ovs:
            if not (inspect.isclass(ov) and qc.EvalBinaryOp in ov.__mro__
                    and [k for k in ov.__mro__ if '__call__' in vars(k)][0] is qc.EvalBinaryOp):
                raise Untranslatable(f'{node.__name__} overload {ov!r} does not take __call__ from EvalBinaryOp')
            init = vars(ov).get('__init__')
            cells = dict(zip(init.__code__.co_freevars, (c.cell_contents for c in init.__closure__ or ())))
            if 'func' not in cells or not inspect.isfunction(cells['func']):
                raise Untranslatable(f'{node.__name__} overload {ov!r}: no wrapped function in its closure')
            funcs.append(cells['func'])
            sigs.append([getattr(t, '__name__', str(t)) for t in ov.__intypes__])
        if any(f is not funcs[0] for f in funcs):
            raise Untranslatable(f'the overloads of {node.__name__} wrap different functions')
        out[key] = (funcs[0], sigs)
    return out


def spec_subquery():
    from beanquery import query_compile as qc
    T, S = qc.SubqueryTable, qc.EvalConstantSubquery1D
    ops = in_operators()
    items = [
        ('subq_table_init', T.__init__, 'beanquery.query_compile.SubqueryTable.__init__', T),
        ('subq_table_iter', T.__iter__, 'beanquery.query_compile.SubqueryTable.__iter__', T),
        ('subq_in_init', S.__init__, 'beanquery.query_compile.EvalConstantSubquery1D.__init__', S),
        ('subq_in_call', S.__call__, 'beanquery.query_compile.EvalConstantSubquery1D.__call__', S),
        ('subq_node_binary', qc.EvalBinaryOp.__call__, 'beanquery.query_compile.EvalBinaryOp.__call__ (the node class of '
         'every IN / NOT IN overload)', qc.EvalBinaryOp),
        ('subq_in', ops['in'][0], f'{_qual(ops["in"][0])}: the function of the {len(ops["in"][1])} overloads of '
         f'OPERATORS[In] {ops["in"][1]}', None),
        ('subq_not_in', ops['not_in'][0], f'{_qual(ops["not_in"][0])}: the function of the {len(ops["not_in"][1])} overloads '
         f'of OPERATORS[NotIn] {ops["not_in"][1]}', None),
    ]
    for name, fn, _origin, _owner in items:
        if not inspect.isfunction(fn):
            raise Untranslatable(f'{name}: {fn!r} is not a plain function')
    return items, column_factory()


class SubqueryGroup:
    """plugs into gen_src.generate through the 'translator' option"""
    info = {}

    @staticmethod
    def translate_all(spec, prims=()):
        items, fac = spec
        refs = py2mini.Refs()
        defs, info, rules = [], {}, []
        for name, fn, origin, owner in items:
            tr = SubqueryTranslator(fn, refs, prims=prims, owner=owner)
            term, defaults = tr.translate()
            defs.append((name, origin, term, defaults))
            info[name] = {'origin': origin, 'lines': len(inspect.getsource(fn).splitlines())}
            rules += [r for r in tr.rules if r not in rules]
        info['column_factory'] = {'origin': fac['qualname'] + ' (structure, as data)', 'lines': fac['lines']}
        text = py2mini.render(defs, refs)
        text += ('\n(* ' + fac['qualname'] + ' (outside the fragment: a class statement inside a function), as data read off its\n'
                 '   AST: its parameters; the parameter `operator.itemgetter(.)` is applied to in\n'
                 '   `__call__ = staticmethod(operator.itemgetter(.))`; the parameter handed to `super().__init__(.)`; the bases *)\n'
                 'From Verif Require Import Model.PrimsSubquery.\n'
                 'Definition column_factory : factory :=\n'
                 '  {| fa_name := ' + gstr(fac['qualname']) + ';\n'
                 '     fa_params := ' + glist([gstr(p) for p in fac['params']]) + ';\n'
                 '     fa_accessor := ' + gstr(fac['accessor']) + ';\n'
                 '     fa_dtype := ' + gstr(fac['dtype']) + ';\n'
                 '     fa_bases := ' + glist([gstr(b) for b in fac['bases']]) + ' |}.\n')
        SubqueryGroup.info = {'rules_used': sorted(rules), 'column_factory': {k: fac[k] for k in
                                                                              ('params', 'accessor', 'dtype', 'bases')}}
        return text, info
