"""C04, implementation-only sweeps (no model): the live FUNCTIONS/OPERATORS registries x generated arguments,
every column of every Beancount-backed table over generated ledgers, and the text renderer on every result.
Oracle: `value is None or isinstance(value, announced)` (collections by kind, `object` admits anything) and
"no TypeError/AttributeError at execution"."""
import datetime
import decimal
import io
import itertools
import os
import random

from . import impl  # noqa: F401  (forces /repo onto sys.path, imports query_env + sources)

import beanquery
from beanquery import query_compile as qc, query_execute, query_render, types, parser, compiler
from beancount.core import amount, position, inventory, data, display_context
from dateutil.relativedelta import relativedelta

D = decimal.Decimal
date = datetime.date
TMP = '/tmp/C04'

# ------------------------------------------------------------------ oracle

SET_KIND = (set, frozenset)
SEQ_KIND = (list, tuple)


def kind_name(t):
    return getattr(t, '__name__', str(t))


def conforms(value, announced):
    """The property's oracle for one cell."""
    if value is None:
        return True
    if announced is object:
        return True
    if not isinstance(announced, type):        # Asterisk etc: nothing but NULL inhabits it
        return False
    if issubclass(announced, SET_KIND):
        return isinstance(value, SET_KIND)
    if issubclass(announced, dict) and (announced is dict or announced.__module__.startswith('beanquery')):
        return isinstance(value, dict)           # Metadata(dict) is a marker subclass used to pick the renderer
    if issubclass(announced, types.Structure):
        # a structured type describes the Python class of the same name (beancount.core.data.Open for `open`)
        return type(value).__name__.lower() == announced.name
    if issubclass(announced, SEQ_KIND) and not hasattr(announced, '_fields'):
        return isinstance(value, SEQ_KIND) and not hasattr(value, '_fields')
    return isinstance(value, announced)


TYPE_ERRORS = (TypeError, AttributeError)

# Exceptions that are NOT counted, per function: value errors of the ARGUMENT VALUE that the property text does not
# call type errors (DESIGN.md section 7, "not counted as violations"). Everything else that escapes execution of an
# accepted query is reported: the casts and operators are meant to be total on conforming data (NULL for what cannot
# be converted), so e.g. a ValueError out of Decimal(<Amount>) in decimal(object) is a failure.
TOLERATED = {
    'parse_date': {'ValueError', 'ParserError', 'OverflowError'},   # text that is not a date in the given format
    'maxwidth': {'ValueError'},                                    # width < 5
    'splitcomp': {'IndexError', 'ValueError'},                     # component index out of range / empty separator
    'grepn': {'IndexError', 'error'},                              # group index out of range / invalid pattern
    'grep': {'error'}, 'subst': {'error'}, 'findfirst': {'error'}, 'has_account': {'error'},
    'Match': {'error'}, 'NotMatch': {'error'},                     # invalid regular expression
    'round': {'InvalidOperation'},                                 # quantize beyond the context precision
    'date_bin': {'ZeroDivisionError'},                             # zero stride (FIXME in the code)
    'account_sortkey': {'ValueError'},                             # text that is not an account name
}


def exc_class(fname, e):
    """'type-error' | None (tolerated, counted) | 'raises:<Exception>' (reported)."""
    if isinstance(e, TYPE_ERRORS):
        return 'type-error'
    if type(e).__name__ in TOLERATED.get(fname, ()):
        return None
    return 'raises:' + type(e).__name__


def note_exc(res, fname, e, where, inp, tag=None):
    cls = exc_class(fname, e)
    k = type(e).__name__
    if cls is None:
        res['other_exc'][k] = res['other_exc'].get(k, 0) + 1
        return
    f = {'class': cls, 'exc': k, 'where': where, 'input': inp, 'value': str(e)[:200]}
    if tag is not None:
        f['tag'] = tag
    res['fails'].append(f)

# ------------------------------------------------------------------ sample values per datatype

A = amount.Amount
COST = position.Cost(D('100.00'), 'USD', date(2020, 1, 3), None)
COST2 = position.Cost(D('7'), 'EUR', date(2019, 5, 1), 'lot-a')


def _inv(*positions):
    inv = inventory.Inventory()
    for p in positions:
        inv.add_position(p)
    return inv


SAMPLES = {
    int: [0, 1, -3, 7, 2020, 12],
    D: [D('0'), D('1.50'), D('-2.25'), D('3'), D('0.001')],
    str: ['', 'a', 'Assets:Cash', 'Assets:Cash:Sub', 'Income:Job', '2020-01-05', '1 day', '-2 months', '3 years', 'USD', 'HOOL',
          'month', 'week', 'year', 'dow', 'epoch', '%Y-%m-%d', 'k', 'color', '(a)(b)', 'A', ':'],
    date: [date(2020, 1, 1), date(2020, 2, 29), date(1999, 12, 31), date(2021, 3, 15)],
    bool: [True, False],
    set: [set(), {'a', 'b'}, frozenset({'x'}), {'Assets:Cash', 'Income:Job'}],
    list: [[], ['a', 'b'], ['Assets:Cash'], ['USD', 'EUR']],
    dict: [{}, {'k': 'v', 'n': 1}, {'color': 'red', 'filename': 'f', 'lineno': 3}],
    amount.Amount: [A(D('1.50'), 'USD'), A(D('-2'), 'EUR'), A(D('0'), 'HOOL')],
    position.Position: [position.Position(A(D('2'), 'HOOL'), COST), position.Position(A(D('5.00'), 'USD'), None),
                        position.Position(A(D('-1'), 'ACME'), COST2)],
    inventory.Inventory: [_inv(), _inv(position.Position(A(D('5.00'), 'USD'), None)),
                          _inv(position.Position(A(D('2'), 'HOOL'), COST), position.Position(A(D('-3'), 'USD'), None))],
    relativedelta: [relativedelta(days=1), relativedelta(months=2), relativedelta(years=-1), relativedelta()],
    object: [1, 'a', D('2.5'), date(2020, 1, 1), True, {'a': 1}, ['x'], A(D('1'), 'USD')],
}
# concrete column types tried for a parameter declared `any`
ANY_TYPES = [int, D, str, date, bool, set, list, dict, amount.Amount, position.Position, inventory.Inventory,
             relativedelta, object]

LITERAL_TYPES = (int, D, str, date, bool)


def lit(v):
    from . import values
    return values.lit(v)


def tshort(t):
    if t is types.Any:
        return 'any'
    if t is types.Asterisk:
        return '*'
    return getattr(t, '__name__', str(t))


# ------------------------------------------------------------------ ledger generator (sweep 2 and the context of sweep 1)

ACCOUNTS = ['Assets:Bank', 'Assets:Broker', 'Assets:Cash', 'Expenses:Food', 'Expenses:Rent', 'Income:Job', 'Liabilities:Card',
            'Equity:Opening']
CURRENCIES = ['USD', 'EUR', 'HOOL', 'ACME']


# every kind of metadata value the Beancount grammar produces
META_KINDS = ['str', 'number', 'date', 'bool', 'amount', 'account', 'currency', 'tag', 'null', 'numstr']


def meta_value(rng, kind=None):
    kind = kind or rng.choice(META_KINDS)
    return {
        'str': lambda: '"%s"' % rng.choice(['paris', 'rome', 'red', '']),
        'numstr': lambda: '"%s"' % rng.choice(['8', '12.50', '-3']),
        'number': lambda: rng.choice(['20', '900', '12.50', '-3', '2 * 3']),
        'date': lambda: rng.choice(['2020-01-05', '2019-12-31']),
        'bool': lambda: rng.choice(['TRUE', 'FALSE']),
        'amount': lambda: rng.choice(['10.00 USD', '250 EUR', '-1.5 HOOL']),
        'account': lambda: rng.choice(ACCOUNTS),
        'currency': lambda: rng.choice(CURRENCIES),
        'tag': lambda: rng.choice(['#trip', '#work']),
        'null': lambda: '',
    }[kind]()


def meta_lines(rng, indent, p=0.35):
    """Metadata lines: `budget` and `limit` take a value of ANY kind (the same key holds a number on one
    directive and an amount, a string, a date ... on another), the other keys have a fixed kind."""
    out = []
    for key in ('budget', 'limit'):
        if rng.random() < p:
            out.append(f'{indent}{key}: {meta_value(rng)}'.rstrip())
    for key, kind in (('trip', 'str'), ('when', 'date'), ('flagged', 'bool'), ('acct', 'account'), ('cur', 'currency'),
                      ('mtag', 'tag'), ('empty', 'null'), ('rank', 'number'), ('color', 'str')):
        if rng.random() < p * 0.4:
            out.append(f'{indent}{key}: {meta_value(rng, kind)}'.rstrip())
    return out


def gen_ledger(rng, size=None):
    """A small random ledger text using every directive kind the tables are built from."""
    size = size if size is not None else rng.randint(0, 8)
    out = ['option "title" "C04"', 'option "operating_currency" "USD"']
    if rng.random() < 0.3:
        out.append('option "operating_currency" "EUR"')
    day = date(2019, 12, 1)
    opened = []
    for acc in ACCOUNTS:
        if rng.random() < 0.9:
            cur = rng.choice(['', ' USD', ' USD,EUR', ' HOOL'])
            booking = rng.choice(['', '', ' "FIFO"', ' "STRICT"', ' "NONE"']) if cur else ''
            out.append(f'{day} open {acc}{cur}{booking}')
            out.extend(meta_lines(rng, '  '))
            opened.append(acc)
    for cur in CURRENCIES:
        if rng.random() < 0.7:
            out.append(f'{day} commodity {cur}')
            if rng.random() < 0.5:
                out.append(f'  name: "{cur} name"')
            if rng.random() < 0.3:
                out.append(f'  precision: {rng.randint(0, 4)}')
            out.extend(meta_lines(rng, '  '))
    if not opened:
        opened = ['Assets:Bank']
        out.append(f'{day} open Assets:Bank')

    def acc():
        return rng.choice(opened)

    def num(lo=1, hi=500):
        return D(rng.randint(lo * 100, hi * 100)) / rng.choice([1, 10, 100])

    for _ in range(size):
        day = day + datetime.timedelta(days=rng.randint(0, 40))
        k = rng.random()
        if k < 0.45:
            flag = rng.choice(['*', '!', '*'])
            payee = rng.choice(['', '"Shop" ', '"ACME Corp" '])
            narr = rng.choice(['"Lunch"', '""', '"Buy | sell"', '"Rent 2020"'])
            tags = ''.join(' #' + t for t in rng.sample(['trip', 'work', 'x1'], rng.randint(0, 2)))
            links = ''.join(' ^' + t for t in rng.sample(['inv-1', 'l2'], rng.randint(0, 2)))
            out.append(f'{day} {flag} {payee}{narr}{tags}{links}')
            out.extend(meta_lines(rng, '  ', 0.5))
            if rng.random() < 0.2:
                out.append(f'  amount-meta: {num()} USD')
            kind = rng.random()
            if kind < 0.4:
                n = num()
                out.append(f'  {acc()}  {n} USD')
                if rng.random() < 0.3:
                    out.append(f'    note: "posting meta"')
                out.extend(meta_lines(rng, '    ', 0.5))
                out.append(f'  {acc()}  {-n} USD')
                out.extend(meta_lines(rng, '    ', 0.3))
            elif kind < 0.6:
                n = rng.randint(1, 9)
                p = num(5, 50)
                label = rng.choice(['', ', "lot-a"'])
                out.append(f'  Assets:Broker  {n} HOOL {{{p} USD{label}}}')
                out.append(f'  {acc()}')
            elif kind < 0.75:
                n = num()
                p = num(1, 3)
                out.append(f'  {acc()}  {n} EUR @ {p} USD')
                out.append(f'  {acc()}')
            elif kind < 0.85:
                n = num()
                out.append(f'  ! {acc()}  {n} EUR @@ {num()} USD')
                out.append(f'  {acc()}')
            else:
                n = num()
                out.append(f'  {acc()}  {n} USD')
                out.append(f'  {acc()}  {n} USD')     # does not balance: an error, the entry is still loaded
                out.append(f'  {acc()}')
        elif k < 0.55:
            out.append(f'{day} price {rng.choice(["HOOL", "EUR", "ACME"])} {num(1, 90)} USD')
            if rng.random() < 0.3:
                out.append('  source: "manual"')
            out.extend(meta_lines(rng, '  ', 0.2))
        elif k < 0.65:
            tol = rng.choice(['', '', ' ~ 0.05'])
            out.append(f'{day} balance {acc()} {num()}{tol} USD')
        elif k < 0.72:
            a1 = acc()
            out.append(f'{day} pad {a1} Equity:Opening')
            out.append(f'{day + datetime.timedelta(days=1)} balance {a1} {num()} USD')
        elif k < 0.80:
            tl = rng.choice(['', ' #trip', ' ^inv-1', ' #work ^l2'])
            out.append(f'{day} note {acc()} "called {rng.choice(["bank", "broker"])}"{tl}')
            out.extend(meta_lines(rng, '  ', 0.2))
        elif k < 0.87:
            out.append(f'{day} event "{rng.choice(["location", "employer"])}" "{rng.choice(["Paris", "NYC", ""])}"')
            out.extend(meta_lines(rng, '  ', 0.2))
        elif k < 0.94:
            tl = rng.choice(['', ' #trip', ' ^inv-1'])
            out.append(f'{day} document {acc()} "/tmp/C04/doc{rng.randint(1, 3)}.pdf"{tl}')
        else:
            a1 = acc()
            out.append(f'{day + datetime.timedelta(days=400)} close {a1}')
    return '\n'.join(out) + '\n'


FIXED_LEDGER = '''option "title" "C04 fixed"
option "operating_currency" "USD"
2019-12-01 open Assets:Bank USD,EUR
  color: "red"
  budget: 900
2019-12-01 open Assets:Broker HOOL "FIFO"
  budget: "8"
2019-12-01 open Assets:Cash
  budget: 2020-01-05
2019-12-01 open Expenses:Food
  budget: 250.00 USD
  limit: TRUE
2019-12-01 open Income:Job
2019-12-01 open Equity:Opening
2019-12-01 commodity USD
  name: "US dollar"
  budget: 1.00 USD
2019-12-01 commodity HOOL
  budget: 3
2020-01-02 * "Shop" "Lunch" #trip ^inv-1
  trip: "paris"
  limit: 20
  flagged: TRUE
  acct: Assets:Bank
  cur: USD
  mtag: #trip
  empty:
  when: 2020-01-05
  Assets:Bank  -12.50 USD
    note: "posting meta"
    budget: 10.00 USD
  Expenses:Food  12.50 USD
    budget: 900
    limit: Assets:Cash
2020-01-03 * "Buy"
  limit: 1000.00 USD
  budget: #work
  Assets:Broker  2 HOOL {100.00 USD, "lot-a"}
    budget: "8"
    limit: EUR
  Assets:Bank  -200.00 USD
    budget: FALSE
    limit:
2020-01-04 ! "Fx"
  Assets:Cash  10 EUR @ 1.10 USD
  Assets:Bank
2020-01-05 price HOOL 110.00 USD
2020-01-06 pad Assets:Cash Equity:Opening
2020-01-07 balance Assets:Cash 50.00 USD
2020-01-08 balance Assets:Bank 1.00 ~ 0.05 USD
2020-01-09 note Assets:Bank "called bank" #work ^l2
2020-01-10 event "location" "Paris"
2020-01-11 document Assets:Bank "/tmp/C04/doc1.pdf" #trip
2021-02-01 close Assets:Cash
'''


def write_ledger(text, name):
    os.makedirs(TMP, exist_ok=True)
    path = os.path.join(TMP, name)
    with open(path, 'w') as f:
        f.write(text)
    return path


def remove(path):
    try:
        os.unlink(path)
    except OSError:
        pass


def cleanup():
    """Remove the scratch directory if this run left it empty (another run may be using it)."""
    try:
        os.rmdir(TMP)
    except OSError:
        pass


_CTX = {}


def context_connection():
    """A beancount-backed connection (accounts/prices/commodities tables for the context functions)."""
    if 'conn' not in _CTX:
        path = write_ledger(FIXED_LEDGER, f'ctx{os.getpid()}.beancount')
        _CTX['conn'] = beanquery.connect('beancount:' + path)
        remove(path)
    return _CTX['conn']


# ------------------------------------------------------------------ sweep 1: every overload x arguments

OP_SYNTAX = {
    'Not': 'NOT {0}', 'Neg': '-{0}', 'IsNull': '{0} IS NULL', 'IsNotNull': '{0} IS NOT NULL',
    'Mul': '{0} * {1}', 'Div': '{0} / {1}', 'Mod': '{0} % {1}', 'Add': '{0} + {1}', 'Sub': '{0} - {1}',
    'Match': '{0} ~ {1}', 'NotMatch': '{0} !~ {1}', 'In': '{0} IN {1}', 'NotIn': '{0} NOT IN {1}',
    'Equal': '{0} = {1}', 'NotEqual': '{0} != {1}', 'Greater': '{0} > {1}', 'GreaterEq': '{0} >= {1}',
    'Less': '{0} < {1}', 'LessEq': '{0} <= {1}', 'Between': '{0} BETWEEN {1} AND {2}',
}
# rewritten by the compiler into column accesses of the postings table / need a postings row: exercised in sweep 2
LEDGER_ONLY = {'meta', 'entry_meta', 'any_meta', 'has_account'}


def overloads():
    """[(kind, name, class, intypes)] of the live registries, in registry order."""
    out = []
    for name, ovs in qc.FUNCTIONS.items():
        for f in ovs:
            out.append(('function', name, f, list(f.__intypes__)))
    for op, ovs in qc.OPERATORS.items():
        for f in ovs:
            out.append(('operator', op.__name__, f, list(f.__intypes__)))
    return out


# column types that reach a parameter of the declared type through types._bases (function_lookup walks the MRO)
SUBTYPES = {int: [bool], dict: [inventory.Inventory]}


def expansions(intypes):
    """Concrete column types for a signature: `any` ranges over ANY_TYPES, `*` stays, a declared type also
    ranges over the sample types that are subclasses of it (bool for int, Inventory for dict)."""
    axes = []
    for t in intypes:
        if t is types.Any:
            axes.append(ANY_TYPES)
        else:
            axes.append([t] + SUBTYPES.get(t, []))
    return list(itertools.product(*axes))


def sig_text(kind, name, intypes, concrete):
    parts = []
    for t, c in zip(intypes, concrete):
        parts.append(f'any={tshort(c)}' if t is types.Any else (tshort(t) if t is c else f'{tshort(t)}<-{tshort(c)}'))
    return f'{name}({",".join(parts)})'


def expr_text(kind, name, args):
    if kind == 'operator':
        return OP_SYNTAX[name].format(*args)
    return f'{name}({", ".join(args)})'


def make_rows(rng, concrete, nrows):
    pools = [SAMPLES[c] for c in concrete]
    full = list(itertools.product(*pools)) if pools else [()]
    if len(full) > nrows:
        rows = rng.sample(full, nrows)
    else:
        rows = full
    n = len(concrete)
    nulls = []
    for i in range(n):
        base = list(rng.choice(full))
        base[i] = None
        nulls.append(tuple(base))
    if n:
        nulls.append(tuple([None] * n))
    return [tuple(r) for r in rows], nulls


def sweep1_cases(rng, nrows):
    cases = []
    for idx, (kind, name, cls, intypes) in enumerate(overloads()):
        if name in LEDGER_ONLY:
            continue
        for cidx, concrete in enumerate(expansions(intypes)):
            cases.append({'idx': idx, 'cidx': cidx, 'sig': sig_text(kind, name, intypes, concrete),
                          'seed': rng.randrange(1 << 30), 'nrows': nrows})
    return cases


def describe_value(v):
    return f'{type(v).__name__}:{v!r}'[:120]


def render_check(desc, rows):
    """Sweep 3: the text renderer must format every delivered value."""
    try:
        out = io.StringIO()
        query_render.render_text(desc, rows, display_context.DisplayContext(), out)
        out = io.StringIO()
        query_render.render_text(desc, rows, display_context.DisplayContext(), out, expand=True, boxed=True, nullvalue='NULL')
        return None
    except Exception as e:  # noqa: BLE001
        return f'{type(e).__name__}: {e}'[:200]


def check_result(desc, rows, fails, where, inp):
    """Compare every cell with the announced datatype of its column."""
    n = 0
    for r in rows:
        for col, v in zip(desc, r):
            n += 1
            if not conforms(v, col.datatype):
                fails.append({'class': f'value-type:announced={kind_name(col.datatype)}:got={type(v).__name__}',
                              'where': where, 'input': inp, 'value': describe_value(v)})
    return n


def run_overload_case(case):
    """-> {'sig', 'cells', 'rows', 'fails': [...], 'other_exc': {name: n}, 'status'}"""
    ovs = overloads()
    kind, name, cls, intypes = ovs[case['idx']]
    concrete = expansions(intypes)[case['cidx']]
    rng = random.Random(case['seed'])
    sig = sig_text(kind, name, intypes, concrete)
    res = {'sig': sig, 'cells': 0, 'rows': 0, 'fails': [], 'other_exc': {}, 'status': 'ok', 'null_rows': 0, 'renders': 0}
    conn = context_connection()
    aggregate = kind == 'function' and issubclass(cls, qc.EvalAggregator)
    star = any(t is types.Asterisk for t in intypes)
    cols = [(f'c{i}', t) for i, t in enumerate(concrete) if t is not types.Asterisk]
    args = ['*' if t is types.Asterisk else f'c{i}' for i, t in enumerate(concrete)]
    rows, nulls = make_rows(rng, [c for c in concrete if c is not types.Asterisk], case['nrows'])
    if not cols:
        cols, rows, nulls = [('z', int)], [(0,)], []
    table = impl.make_table('t', cols, [])
    conn.tables['t'] = table
    sql = f'SELECT {expr_text(kind, name, args)} AS r FROM #t'
    res['sql'] = sql
    try:
        q = compiler.compile(conn, parser.parse(sql))
    except beanquery.CompilationError as e:
        res['status'] = 'rejected'
        res['reject'] = str(e)[:120]
        return res
    except Exception as e:  # noqa: BLE001
        res['status'] = 'compile-exception'
        res['fails'].append({'class': f'compile-raises:{type(e).__name__}', 'where': sql, 'input': None, 'value': str(e)[:200]})
        return res
    node = q.c_targets[0].c_expr
    if type(node) is not cls:
        # the compiler resolved to a different overload (shadowed or rewritten): record, still check what runs
        res['status'] = 'resolved-to:' + type(node).__name__
    groups = []
    if aggregate:
        allrows = rows + nulls
        groups.append(allrows)
        groups.append(rows)
        groups.append(nulls)
        groups.append([])
        for _ in range(4):
            groups.append(rng.sample(allrows, min(len(allrows), rng.randint(1, 3))))
        for r in rows[:6]:
            groups.append([r])
    else:
        groups = [[r] for r in rows + nulls]
    allout = []
    desc = None
    for g in groups:
        table.rows = g
        inp = [tuple(describe_value(v) for v in r) for r in g]
        try:
            desc, out = query_execute.execute_query(q)
        except Exception as e:  # noqa: BLE001
            note_exc(res, name, e, sql, inp)
            continue
        res['rows'] += len(g)
        if any(v is None for r in g for v in r):
            res['null_rows'] += 1
        res['cells'] += check_result(desc, out, res['fails'], sql, inp)
        allout.extend(out)
    if desc is not None and allout:
        res['renders'] += 1
        err = render_check(desc, allout)
        if err:
            res['fails'].append({'class': f'render-raises:{err.split(":")[0]}', 'where': sql, 'input': None, 'value': err})
    # the same call on literal constants (folded at compile time)
    if not aggregate and all(c in LITERAL_TYPES for c in concrete) and concrete:
        for r in rows[:3]:
            csql = f'SELECT {expr_text(kind, name, [lit(abs(v)) if isinstance(v, (int, D)) and not isinstance(v, bool) else lit(v) for v in r])} AS r'
            try:
                cur = conn.execute(csql)
                out = cur.fetchall()
                res['cells'] += check_result(cur.description, out, res['fails'], csql, None)
            except beanquery.CompilationError:
                pass
            except Exception as e:  # noqa: BLE001
                note_exc(res, name, e, csql, None)
    return res


# ------------------------------------------------------------------ sweep 1b: IN / NOT IN over every pair of operand types
# (Compiler._inop takes OPERATORS[In][0] without looking at the operand types: every pair is accepted)

def in_cases(rng, nrows):
    out = []
    for opname in ('In', 'NotIn'):
        for li, lt in enumerate(ANY_TYPES):
            for ri, rt in enumerate(ANY_TYPES):
                out.append({'op': opname, 'li': li, 'ri': ri, 'seed': rng.randrange(1 << 30), 'nrows': nrows})
    return out


def run_in_case(case):
    lt, rt = ANY_TYPES[case['li']], ANY_TYPES[case['ri']]
    rng = random.Random(case['seed'])
    sig = f'{case["op"]}(left={tshort(lt)},right={tshort(rt)})'
    res = {'sig': sig, 'op': case['op'], 'right': tshort(rt), 'left': tshort(lt), 'cells': 0, 'rows': 0, 'fails': [],
           'other_exc': {}, 'status': 'ok'}
    conn = context_connection()
    table = impl.make_table('t', [('c0', lt), ('c1', rt)], [])
    conn.tables['t'] = table
    sql = f'SELECT {OP_SYNTAX[case["op"]].format("c0", "c1")} AS r FROM #t'
    res['sql'] = sql
    try:
        q = compiler.compile(conn, parser.parse(sql))
    except beanquery.CompilationError as e:
        res['status'] = 'rejected'
        return res
    rows, nulls = make_rows(rng, [lt, rt], case['nrows'])
    for r in rows + nulls:
        table.rows = [r]
        inp = [tuple(describe_value(v) for v in r)]
        try:
            desc, out = query_execute.execute_query(q)
        except Exception as e:  # noqa: BLE001
            note_exc(res, case['op'], e, sql, inp)
            continue
        res['rows'] += 1
        res['cells'] += check_result(desc, out, res['fails'], sql, inp)
    return res


# ------------------------------------------------------------------ sweep 1c: an untyped (object) column against typed operands
# Compiler._binaryop wraps the object operand in decimal()/date()/str()/bool(); those casts must be total on ANY value.

OBJ_VALUES = SAMPLES[object] + [(1, 2), ('a',), position.Position(A(D('2'), 'HOOL'), COST), _inv(position.Position(A(D('5'), 'USD'), None)),
                                {'x'}, frozenset(), relativedelta(days=1), A(D('10.00'), 'USD'), 'paris', '12.50', '2020-01-05',
                                D('-3'), False, 0, '', [], {}, COST, 1.5, b'x']
OBJCAST_TYPES = [int, D, str, date, bool]
BIN_SYMS = ['Mul', 'Div', 'Mod', 'Add', 'Sub', 'Match', 'NotMatch', 'Equal', 'NotEqual', 'Greater', 'GreaterEq', 'Less', 'LessEq']
CAST_FUNCS = ['int', 'decimal', 'date', 'str', 'bool', 'repr']


def objcast_cases():
    out = []
    for ti in range(len(OBJCAST_TYPES)):
        for op in BIN_SYMS:
            for side in (0, 1):
                out.append({'kind': 'op', 'op': op, 'ti': ti, 'side': side})
    for f in CAST_FUNCS:
        out.append({'kind': 'fn', 'op': f, 'ti': 0, 'side': 0})
    for f in ('int', 'decimal'):
        out.append({'kind': 'aggfn', 'op': f, 'ti': 0, 'side': 0})
    return out


def run_objcast_case(case):
    t = OBJCAST_TYPES[case['ti']]
    res = {'cells': 0, 'rows': 0, 'fails': [], 'other_exc': {}, 'status': 'ok'}
    conn = context_connection()
    table = impl.make_table('t', [('o', object), ('c', t)], [])
    conn.tables['t'] = table
    if case['kind'] == 'op':
        args = ('o', 'c') if case['side'] == 0 else ('c', 'o')
        expr = OP_SYNTAX[case['op']].format(*args)
        res['sig'] = f'objcast:{case["op"]}(' + ','.join('object' if a == 'o' else tshort(t) for a in args) + ')'
    elif case['kind'] == 'fn':
        expr = f'{case["op"]}(o)'
        res['sig'] = f'objcast:{case["op"]}(object)'
    else:
        expr = f'sum({case["op"]}(o))'
        res['sig'] = f'objcast:agg({case["op"]}(object))'
    sql = f'SELECT {expr} AS r FROM #t'
    res['sql'] = sql
    try:
        q = compiler.compile(conn, parser.parse(sql))
    except beanquery.CompilationError:
        res['status'] = 'rejected'
        return res
    typed = SAMPLES[t]
    for k, ov in enumerate(OBJ_VALUES + [None]):
        row = (ov, typed[k % len(typed)])
        table.rows = [row]
        inp = [tuple(describe_value(v) for v in row)]
        try:
            desc, out = query_execute.execute_query(q)
        except Exception as e:  # noqa: BLE001
            note_exc(res, case['op'], e, sql, inp)
            continue
        res['rows'] += 1
        res['cells'] += check_result(desc, out, res['fails'], sql, inp)
    return res


# ------------------------------------------------------------------ sweep 2: Beancount-backed tables
# Statements of this sweep are built as ASTs directly (TatSu costs 10-50 ms per statement; there are ~2000 per
# ledger); the BQL text is kept for reports and replay, and a sample of the texts is parsed by the real parser on
# every run and compared with the built AST (`ast_builder_checked`).

from beanquery.parser import ast as bast  # noqa: E402

META_KEYS = ['budget', 'limit', 'trip', 'color', 'note', 'filename', 'lineno', 'amount-meta', 'when', 'rank', 'name', 'flagged',
             'acct', 'cur', 'mtag', 'empty', 'nokey']
LITS = {
    str: [("'USD'", 'USD'), ("'EUR'", 'EUR'), ("'HOOL'", 'HOOL'), ("'trip'", 'trip'), ("'Assets'", 'Assets'), ("'Bank'", 'Bank'),
          ("'month'", 'month'), ("'1 month'", '1 month'), ("'color'", 'color'), ("':'", ':'), ("'budget'", 'budget'),
          ("'limit'", 'limit')],
    int: [('1', 1), ('2', 2), ('0', 0)],
    D: [('1.5', D('1.5')), ('0.0', D('0.0'))],
    date: [('2020-01-05', date(2020, 1, 5)), ('2019-12-31', date(2019, 12, 31))],
    bool: [('TRUE', True)],
}
INTERVALS = ['1 month', '7 days']
OP_AST = {
    'Not': bast.Not, 'Neg': bast.Neg, 'IsNull': bast.IsNull, 'IsNotNull': bast.IsNotNull, 'Mul': bast.Mul, 'Div': bast.Div,
    'Mod': bast.Mod, 'Add': bast.Add, 'Sub': bast.Sub, 'Match': bast.Match, 'NotMatch': bast.NotMatch, 'In': bast.In,
    'NotIn': bast.NotIn, 'Equal': bast.Equal, 'NotEqual': bast.NotEqual, 'Greater': bast.Greater, 'GreaterEq': bast.GreaterEq,
    'Less': bast.Less, 'LessEq': bast.LessEq, 'Between': bast.Between,
}


def call_ast(kind, name, args):
    """args: [(text, astnode)]"""
    nodes = [a for _, a in args]
    if kind == 'operator':
        return OP_AST[name](*nodes)
    return bast.Function(name, nodes)


def select_ast(expr, table):
    targets = expr if isinstance(expr, bast.Asterisk) else [bast.Target(expr, 'r')]
    return bast.Select(targets, bast.Table(table), None, None, None, None, None, None)


def structured(dtype):
    alias = types.ALIASES.get(dtype, dtype)
    if isinstance(alias, type) and issubclass(alias, types.Structure):
        return alias
    return None


def column_paths(table):
    """[(text, ast, dtype)]: every column, every attribute path through structured types (depth <= 3), every
    subscript of dict-like ones."""
    out = []

    def walk(text, node, dtype, depth):
        out.append((text, node, dtype))
        if isinstance(dtype, type) and issubclass(dtype, dict):
            for k in META_KEYS:
                out.append((f"{text}['{k}']", bast.Subscript(node, k), object))
        st = structured(dtype)
        if st is not None and depth < 3:
            for an, getter in st.columns.items():
                walk(f'{text}.{an}', bast.Attribute(node, an), getter.dtype, depth + 1)
    for cn, col in table.columns.items():
        walk(cn, bast.Column(cn), col.dtype, 0)
    return out


def ledger_queries(conn, rng, per_overload):
    """[(tag, sql, ast)] for one connection (the schema is the same for every ledger; the choice of arguments is random)."""
    qs = []
    for tname_, table in conn.tables.items():
        if not tname_:
            continue
        paths = column_paths(table)
        for text, node, _ in paths:
            qs.append((f'column:{tname_}.{text.split("[")[0]}', f'SELECT {text} AS r FROM #{tname_}', select_ast(node, tname_)))
        qs.append((f'wildcard:{tname_}', f'SELECT * FROM #{tname_}', select_ast(bast.Asterisk(), tname_)))
        # FROM-subqueries over this table (fix-D): the columns of the subquery table have to announce and deliver what the
        # inner targets announce and deliver, whatever their order; read through `*`, reversed, one by one through a second
        # level, and grouped (aggregated inner query)
        cols_ = list(table.columns)
        for _ in range(2):
            pick = rng.sample(cols_, min(len(cols_), rng.randint(2, 4)))
            if len(pick) < 2:
                break
            inner = bast.Select([bast.Target(bast.Column(c), None) for c in pick], bast.Table(tname_), None, None, None, None, None, None)
            isql = f'SELECT {", ".join(pick)} FROM #{tname_}'
            sub = lambda targets, src: bast.Select(targets, src, None, None, None, None, None, None)  # noqa: E731
            qs.append((f'subquery:{tname_}', f'SELECT * FROM ({isql})', sub(bast.Asterisk(), inner)))
            rev = pick[::-1]
            qs.append((f'subquery:{tname_}', f'SELECT {", ".join(rev)} FROM ({isql})',
                       sub([bast.Target(bast.Column(c), None) for c in rev], inner)))
            mid = sub([bast.Target(bast.Column(c), None) for c in pick[:2]], inner)
            qs.append((f'subquery:{tname_}', f'SELECT {pick[0]} AS r FROM (SELECT {", ".join(pick[:2])} FROM ({isql}))',
                       sub([bast.Target(bast.Column(pick[0]), 'r')], mid)))
        keys = [c for c in cols_ if table.columns[c].dtype in (str, date, int, bool, D)]
        if keys and len(cols_) >= 2:
            k = rng.choice(keys)
            v = rng.choice([c for c in cols_ if c != k])
            fn = rng.choice(['first', 'last'])
            ginner = bast.Select([bast.Target(bast.Column(k), 'g'), bast.Target(bast.Function(fn, [bast.Column(v)]), 'v'),
                                  bast.Target(bast.Function('count', [bast.Asterisk()]), 'n')],
                                 bast.Table(tname_), None, bast.GroupBy([1], None), None, None, None, None)
            qs.append((f'subquery:{tname_}', f'SELECT n, v, g FROM (SELECT {k} AS g, {fn}({v}) AS v, count(*) AS n FROM #{tname_} GROUP BY 1)',
                       bast.Select([bast.Target(bast.Column(c), None) for c in ('n', 'v', 'g')], ginner, None, None, None, None, None, None)))
        # untyped (object) sources of this table: metadata subscripts and the metadata functions ...
        objsrc = [(text, node) for text, node, dt in paths if dt is object and '[' in text
                  and any(f"['{k}']" in text for k in ('budget', 'limit', 'when', 'trip', 'flagged', 'empty', 'nokey'))]
        cnames = set(table.columns)
        for key in ('budget', 'limit'):
            kc = bast.Constant(key)
            if tname_ == 'postings':
                for fn in ('meta', 'entry_meta', 'any_meta'):
                    objsrc.append((f"{fn}('{key}')", bast.Function(fn, [kc])))
            for acol in ('account',):
                if acol in cnames and table.columns[acol].dtype is str:
                    objsrc.append((f"open_meta({acol}, '{key}')", bast.Function('open_meta', [bast.Column(acol), kc])))
            for ccol in ('currency', 'name'):
                if ccol in cnames and table.columns[ccol].dtype is str:
                    objsrc.append((f"commodity_meta({ccol}, '{key}')", bast.Function('commodity_meta', [bast.Column(ccol), kc])))
        # ... under every numeric operator (implicit decimal/date/str cast of _binaryop), comparison and explicit cast
        C = bast.Constant
        forms = [
            ('{} > 5', lambda n: bast.Greater(n, C(5))), ('{} <= 5.5', lambda n: bast.LessEq(n, C(D('5.5')))),
            ('{} = 20', lambda n: bast.Equal(n, C(20))), ('{} != 1.0', lambda n: bast.NotEqual(n, C(D('1.0')))),
            ('{} - 1.5', lambda n: bast.Sub(n, C(D('1.5')))), ('{} * 2', lambda n: bast.Mul(n, C(2))),
            ('{} / 12', lambda n: bast.Div(n, C(12))), ('{} % 3', lambda n: bast.Mod(n, C(3))),
            ('2 + {}', lambda n: bast.Add(C(2), n)), ('10.0 / {}', lambda n: bast.Div(C(D('10.0')), n)),
            ("{} = 'paris'", lambda n: bast.Equal(n, C('paris'))), ("{} ~ 'a'", lambda n: bast.Match(n, C('a'))),
            ('{} < 2020-01-06', lambda n: bast.Less(n, C(date(2020, 1, 6)))), ('2020-02-01 - {}', lambda n: bast.Sub(C(date(2020, 2, 1)), n)),
            ('decimal({})', lambda n: bast.Function('decimal', [n])), ('int({})', lambda n: bast.Function('int', [n])),
            ('date({})', lambda n: bast.Function('date', [n])), ('str({})', lambda n: bast.Function('str', [n])),
            ('bool({})', lambda n: bast.Function('bool', [n])), ('sum(decimal({}))', lambda n: bast.Function('sum', [bast.Function('decimal', [n])])),
            ('sum(int({}))', lambda n: bast.Function('sum', [bast.Function('int', [n])])),
            ('coalesce({}, {})', lambda n: bast.Function('coalesce', [n, n])), ('NOT {}', lambda n: bast.Not(n)),
        ]
        if 'number' in cnames:
            forms.append(('{} - number', lambda n: bast.Sub(n, bast.Column('number'))))
            forms.append(('number * {}', lambda n: bast.Mul(bast.Column('number'), n)))
        if 'date' in cnames:
            forms.append(('date - {}', lambda n: bast.Sub(bast.Column('date'), n)))
        for otext, onode in objsrc:
            for ftext, build in forms:
                text = ftext.format(otext, otext)
                qs.append((f'objcast:{ftext}', f'SELECT {text} AS r FROM #{tname_}', select_ast(build(onode), tname_)))
            qs.append((f'objcast:WHERE {{}} > 5', f'SELECT count(*) AS r FROM #{tname_} WHERE {otext} > 5',
                       bast.Select([bast.Target(bast.Function('count', [bast.Asterisk()]), 'r')], bast.Table(tname_),
                                   bast.Greater(onode, C(5)), None, None, None, None, None)))
        # every function / operator overload fed with columns / attribute paths of this table where the types allow it
        typed = [(text, node, dt) for text, node, dt in paths if isinstance(dt, type)]
        for kind, name, cls, intypes in overloads():
            if not intypes or any(t is types.Asterisk for t in intypes):
                continue
            if name in ('min', 'max') or (kind == 'operator' and name in ('In', 'NotIn')):
                continue      # covered by sweep 1 / 1b under their own signatures
            if name in LEDGER_ONLY and tname_ != 'postings' and not (name == 'has_account' and tname_ == 'entries'):
                continue
            choices = []
            ok = True
            for t in intypes:
                cands = [(text, node) for text, node, dt in typed if t is types.Any or t in types._bases(dt)]
                lits = [] if t is types.Any else [(txt, bast.Constant(v)) for txt, v in LITS.get(t, [])]
                if t is relativedelta:
                    lits = [(f"interval('{x}')", bast.Function('interval', [bast.Constant(x)])) for x in INTERVALS]
                choices.append((cands, lits))
                if not cands and not lits:
                    ok = False
            if not ok or not any(c for c, _ in choices):
                continue
            seen = set()
            for _ in range(per_overload * 3):
                args, usedcol = [], False
                for cands, lits in choices:
                    if cands and (not lits or rng.random() < 0.7):
                        args.append(rng.choice(cands))
                        usedcol = True
                    else:
                        args.append(rng.choice(lits))
                if not usedcol:
                    continue
                text = expr_text(kind, name, [a for a, _ in args])
                if text in seen:
                    continue
                seen.add(text)
                sig = f'{name}({",".join(tshort(t) for t in intypes)})'
                qs.append((f'call:{sig}', f'SELECT {text} AS r FROM #{tname_}', select_ast(call_ast(kind, name, args), tname_)))
                if len(seen) >= per_overload:
                    break
    return qs


def ast_builder_check(rng, n):
    """Parse a sample of the sweep's statements with the real parser and compare with the ASTs the sweep builds."""
    conn = context_connection()
    qs = ledger_queries(conn, rng, 1)
    bad = []
    sample = rng.sample(qs, min(n, len(qs)))
    for tag, sql, node in sample:
        if parser.parse(sql) != node:
            bad.append(sql)
    return len(sample), bad


def run_ledger_case(case):
    """case: {'text': ledger text, 'seed', 'per_overload'} -> summary + failures"""
    rng = random.Random(case['seed'])
    path = write_ledger(case['text'], f'led{os.getpid()}.beancount')
    res = {'queries': 0, 'cells': 0, 'rows': 0, 'rejected': 0, 'fails': [], 'other_exc': {}, 'tables': {}, 'renders': 0,
           'tags': {}, 'load_errors': 0, 'columns': 0}
    try:
        conn = beanquery.connect('beancount:' + path)
    finally:
        remove(path)
    res['load_errors'] = len(conn.errors)
    for tn, t in conn.tables.items():
        if tn:
            res['tables'][tn] = sum(1 for _ in t)
    for tag, sql, node in ledger_queries(conn, rng, case['per_overload']):
        res['queries'] += 1
        kindtag = tag.split(':')[0]
        res['tags'][kindtag] = res['tags'].get(kindtag, 0) + 1
        try:
            cur = conn.execute(node)
            rows = cur.fetchall()
            desc = cur.description
        except beanquery.CompilationError:
            res['rejected'] += 1
            continue
        except Exception as e:  # noqa: BLE001
            fname = tag.split(':', 1)[1].split('(')[0] if tag.startswith('call:') else ''
            note_exc(res, fname, e, sql, None, tag=tag)
            continue
        res['rows'] += len(rows)
        fails = []
        res['cells'] += check_result(desc, rows, fails, sql, None)
        for f in fails[:1]:
            f['tag'] = tag
            res['fails'].append(f)
        if not fails:
            res['renders'] += 1
            err = render_check(desc, rows)
            if err:
                res['fails'].append({'tag': tag, 'class': f'render-raises:{err.split(":")[0]}', 'where': sql, 'value': err})
    return res
