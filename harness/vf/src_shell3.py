"""Group `shell3` of the translator-based tie (C19, bld-shell3): the WHOLE of BQLShell.do_run.

Translated on every run into coq/Gen/SrcShell3.v:
* `shell_do_run` = BQLShell.do_run: `arg.rstrip('; \\t')`, no argument -> the sorted names of self.queries on stdout (nothing for an
                   empty dict), `*` -> for every (name, query) of sorted(self.queries.items()): "name:", execute(query_string,
                   default_close_date=query.date), two empty lines; otherwise `name, *args = shlex.split(arg)`, the two error
                   messages, and execute(query.query_string, default_close_date=query.date) for the directive found.

Shell3Translator = src_shell2.Shell2Translator (rules S1-S6: S5 starred unpacking, S6 self.execute(..) as the event
("execute:default_close_date", (text, date)) of the event log) + the rule
S7 `print()` as a statement (no argument, `print` the builtin) -> the event ("stdout", "") appended to self.$events, like rule R10
   does for print(x): the empty line is an effect in the same log, so its ORDER relative to execute is part of the statement.
* `shell_do_reload` = BQLShell.do_reload: nothing without a filename; the connection's errors and options are cleared and the file
                   re-attached ('beancount:' + filename) - rule S8: these three calls on the connection are EVENTS of the log, in
                   their order -; then, on the connection as it is AFTER them, the queries are re-extracted from the entries table
                   (event "_extract_queries", rule S6), the errors are printed on stderr exactly when there are some and the shell
                   was not started with --no-errors, and the statistics exactly in interactive mode.
S8 `self.context.<a>.clear()` / `self.context.attach(E)` as statements -> the event ("context.<a>.clear", ()) / ("context.attach", (E,))
   appended to self.$events (the mutation of the connection itself is outside PyMini's values: the theorem reads self.context as
   the connection after these effects).
Meaning of the primitives the term uses (rstrip, sorted, items, join, get, shlex.split, unpack_star:1): Model/PrimsShell3.v.
"""
import ast

from . import src_api, src_shell2

PRIMS = src_api.PRIMS


class Shell3Translator(src_shell2.Shell2Translator):
    EFFECT_CALLS = {'execute', '_extract_queries'}

    def ctx_effect(self, s):
        """S8: (channel, [argument expressions]) or None"""
        if not (isinstance(s, ast.Expr) and isinstance(s.value, ast.Call) and not s.value.keywords
                and isinstance(s.value.func, ast.Attribute)):
            return None
        c, f = s.value, s.value.func
        def is_ctx(e):
            return isinstance(e, ast.Attribute) and e.attr == 'context' and isinstance(e.value, ast.Name) \
                and e.value.id == self.self_name
        if f.attr == 'clear' and not c.args and isinstance(f.value, ast.Attribute) and is_ctx(f.value.value):
            return f'context.{f.value.attr}.clear', []
        if f.attr == 'attach' and len(c.args) == 1 and not isinstance(c.args[0], ast.Starred) and is_ctx(f.value):
            return 'context.attach', [c.args[0]]
        return None

    def stmt(self, s):
        eff = self.ctx_effect(s)
        if eff is not None:                                                                             # S8
            from .py2mini import glist
            payload = glist([self.expr(x) for x in eff[1]])
            return (f'(SExpr (XMethod (TSelf "$events") "append" '
                    f'[(XTuple [{self.strconst(eff[0])}; (XTuple {payload})])]))')
        if isinstance(s, ast.Expr) and isinstance(s.value, ast.Call) and isinstance(s.value.func, ast.Name) \
                and s.value.func.id == 'print' and 'print' not in self.locals and not s.value.args \
                and not s.value.keywords:                                                               # S7
            return (f'(SExpr (XMethod (TSelf "$events") "append" '
                    f'[(XTuple [{self.strconst("stdout")}; {self.strconst("")}])]))')
        return super().stmt(s)

    @staticmethod
    def translate_all(spec, prims=()):
        from . import py2mini
        import inspect
        refs = py2mini.Refs()
        defs, info = [], {}
        for name, fn, origin, *rest in spec:
            tr = Shell3Translator(fn, refs, prims=prims, **(rest[0] if rest else {}))
            term, defaults = tr.translate()
            defs.append((name, origin + '; parameters: ' + ', '.join(tr.params), term, defaults))
            info[name] = {'origin': origin, 'lines': len(inspect.getsource(fn).splitlines())}
        return py2mini.render(defs, refs), info


def spec_shell3():
    from beanquery import shell
    return [('shell_do_run', shell.BQLShell.do_run, 'beanquery.shell.BQLShell.do_run'),
            ('shell_do_reload', shell.BQLShell.do_reload, 'beanquery.shell.BQLShell.do_reload')]


def register(groups):
    groups['shell3'] = ('SrcShell3.v', spec_shell3, {'translator': Shell3Translator, 'prims': PRIMS})
