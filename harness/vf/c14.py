"""C14: BALANCES / JOURNAL / PRINT equal their SELECT expansions; PRINT is lossless.

A. model vs implementation: compiler.transform_balances / transform_journal on generated statements
   (parsed text and API-built nodes) against Model/Statements.v (vm_compute), AST against AST.
B. implementation vs implementation on generated ledgers (beanquery.connect('beancount:<file>')):
   BALANCES ... vs the explicit SELECT ... GROUP BY account, account_sortkey(account) ORDER BY ...,
   JOURNAL ... vs its explicit SELECT (pattern passed as a query parameter): rows, datatypes, names.
C. BALANCES row order against beancount.core.account_types (sort key computed here, sortedness decided
   by the model's checker), per-account sums and JOURNAL registers against oracles written here.
D. PRINT the way shell.py does it (compile + execute_print into a StringIO, and through BQLShell.onecmd):
   selection against Model.execute_print and independent Python predicates, printed text re-loaded with
   Beancount and compared directive by directive (metadata included, filename/lineno ignored), in order.
generate(): Gen/Templates.v from the real transform functions on sentinel statements."""
import datetime
import decimal
import io
import os
import re
import string
import traceback
import warnings

from . import core, impl, values
from .core import cZ, clist, copt, cbool, cstr
from .shrink import ddmin

import beanquery  # noqa: E402
from beanquery import compiler, parser, shell as bq_shell  # noqa: E402
from beanquery.parser import ast  # noqa: E402
from beanquery.parser import parser as tatsu_parser  # noqa: E402
from beanquery.query_execute import execute_print  # noqa: E402
from beancount import loader  # noqa: E402
from beancount.core import account_types, data, getters, inventory, position as bposition  # noqa: E402
from beancount.parser import parser as bparser, booking, printer  # noqa: E402

# random account patterns such as '[[' make `re` emit FutureWarning (nested set); irrelevant here
warnings.filterwarnings('ignore', category=FutureWarning)

D = decimal.Decimal
# one scratch directory per check process (forked workers inherit it): concurrent C14 runs used to share /tmp/C14 and the
# run finishing first deleted the other's ledger files, which then loaded as EMPTY ledgers (load error, no exception)
TMP = os.environ.get('C14_TMP') or f'/tmp/C14/{os.getpid()}'

ASSUMPTIONS = [
    'the lexer/parser inside Model/Statements.v covers only the sub-language of the two templates; it is tied to '
    'TatSu by Gen/Templates.v (kernel-checked on every run) and by the differential run A',
    'summary functions are grammar identifiers ([a-zA-Z_][a-zA-Z0-9_]*, not a keyword); a node built through the '
    'API with another string is outside the theorem (the summary function is still spliced as text)',
    'expressions carried over from FROM / WHERE are opaque to the transformation (any AST; the generator uses '
    'columns, constants, functions, unary, binary and boolean operators)',
    'OPEN / CLOSE / CLEAR table rewriting (beancount.ops.summarize) is a parameter of the PRINT model (property C13)',
    'losslessness of beancount.parser.printer is Beancount\'s, checked on samples only: printed text is re-read with '
    'parser.parse_string + booking.book (no plugins) for every PRINT, and with loader.load_string for unfiltered '
    'PRINT of ledgers without pad directives (the pad plugin would synthesise its transactions a second time)',
    'entries of a FILTERED print whose booking fails on re-load for lack of context (a lot reduction whose '
    'augmentation was filtered out) are counted, not compared; unfiltered prints are compared strictly',
    'translator tie (C14_source_*): PyMini semantics (Model/PyMini.v), the translator (py2mini.py, src_ledger.py: '
    'statement ranges of execute_print / transform_* selected by structure, with the checks that `entries` alone goes '
    'to printer.print_entries and that cooked_select = parser.parse(TEMPLATE.format(<node>.summary_func or ""))) and '
    'the primitives of Model/PrimsLedger.v (objects as attribute lists; ast.Select/Match/Column/Constant build the '
    'object with the dataclass fields, which are compared with the imported classes) are trusted; the compiled FROM '
    'expression is an opaque callable (where_ok); the template text itself is tied by Gen/Templates.v',
    'tie by translation of has_account (C14_source_has_account, Gen/SrcHasAccount.v, bld-env2): the regular-expression engine '
    '(does the pattern compile; is it found in a string when compiled with re.IGNORECASE) and getters.get_entry_accounts are '
    'universally quantified parameters of the theorem; trusted encodings (Model/PrimsHasAccount.v): compiled pattern / bound '
    'method `search` as tagged tuples carrying the flags (only flags = re.IGNORECASE has a meaning), a Match is truthy, '
    'any(generator) is "some item of the list is truthy" (search is pure and total on strings), the row context is an '
    'object whose attribute `entry` is the entry',
]

# --------------------------------------------------------------------------
# Python AST -> Gallina literal / canonical form of Model.Statements.o_*

BINOPS = ['Match', 'NotMatch', 'Equal', 'NotEqual', 'Greater', 'GreaterEq', 'Less', 'LessEq',
          'In', 'NotIn', 'Add', 'Sub', 'Mul', 'Div', 'Mod']
UNOPS = ['Not', 'IsNull', 'IsNotNull', 'Neg']
BOOLOPS = ['And', 'Or']


class Unsupported(Exception):
    pass


def _val_ok(v):
    if v is None or isinstance(v, (bool, int, str, datetime.date)):
        return True
    if isinstance(v, D):
        return isinstance(v.as_tuple().exponent, int)
    return False


def expr_coq(n):
    t = type(n).__name__
    if isinstance(n, ast.Column):
        return f'(Column {cstr(n.name)})'
    if isinstance(n, ast.Constant):
        if not _val_ok(n.value):
            raise Unsupported(repr(n.value))
        return f'(Constant {values.to_coq(n.value)})'
    if isinstance(n, ast.Function):
        return f'(Function {cstr(n.fname)} {clist([expr_coq(a) for a in n.operands])})'
    if isinstance(n, ast.BinaryOp) and t in BINOPS:
        return f'(BinaryOp {"In_" if t == "In" else t} {expr_coq(n.left)} {expr_coq(n.right)})'
    if isinstance(n, ast.UnaryOp) and t in UNOPS:
        return f'(UnaryOp {t} {expr_coq(n.operand)})'
    if isinstance(n, ast.BoolOp) and t in BOOLOPS:
        return f'(BoolOp {t} {clist([expr_coq(a) for a in n.args])})'
    if isinstance(n, ast.Placeholder):
        return f'(Placeholder {cstr(n.name or "")})'
    raise Unsupported(t)


def expr_canon(n):
    t = type(n).__name__
    if isinstance(n, ast.Column):
        return [0, [ord(c) for c in n.name]]
    if isinstance(n, ast.Constant):
        return [1, values.canon(n.value)]
    if isinstance(n, ast.Function):
        return [2, [ord(c) for c in n.fname], [expr_canon(a) for a in n.operands]]
    if isinstance(n, ast.BinaryOp) and t in BINOPS:
        return [3, BINOPS.index(t), expr_canon(n.left), expr_canon(n.right)]
    if isinstance(n, ast.UnaryOp) and t in UNOPS:
        return [4, UNOPS.index(t), expr_canon(n.operand)]
    if isinstance(n, ast.BoolOp) and t in BOOLOPS:
        return [5, BOOLOPS.index(t), [expr_canon(a) for a in n.args]]
    if isinstance(n, ast.Placeholder):
        return [6, [ord(c) for c in (n.name or '')]]
    return ['unsupported', t, repr(n)]


def _opt(x, f):
    return [] if x is None else [f(x)]


def from_coq(f):
    if not isinstance(f, ast.From):
        raise Unsupported(type(f).__name__)
    if f.close is None:
        close = 'None'
    elif f.close is True:
        close = '(Some CloseTrue)'
    else:
        close = f'(Some (CloseOn {f.close.toordinal()}))'
    if f.clear not in (None, True):
        raise Unsupported('clear')
    return (f'(mkFrom {copt(f.expression, expr_coq)} {copt(f.open, lambda d: str(d.toordinal()))} '
            f'{close} {cbool(f.clear is True)})')


def from_canon(f):
    if not isinstance(f, ast.From):
        return ['unsupported', repr(f)]
    close = [] if f.close is None else [[0]] if f.close is True else [[1, f.close.toordinal()]]
    return [_opt(f.expression, expr_canon), _opt(f.open, lambda d: d.toordinal()), close,
            1 if f.clear is True else 0 if f.clear is None else ['clear', repr(f.clear)]]


def _str_canon(s):
    return [ord(c) for c in s]


def select_canon(s):
    """Canonical form of a Python ast.Select = parsed Model.Statements.o_select."""
    if not isinstance(s, ast.Select):
        return ['not-a-select', repr(s)]
    if not isinstance(s.targets, list):
        return ['asterisk']
    return [
        [[expr_canon(t.expression), _opt(t.name, _str_canon)] for t in s.targets],
        _opt(s.from_clause, from_canon),
        _opt(s.where_clause, expr_canon),
        _opt(s.group_by, lambda g: [[expr_canon(c) if isinstance(c, ast.Node) else ['index', c] for c in g.columns],
                                    _opt(g.having, expr_canon)]),
        _opt(s.order_by, lambda ob: [[expr_canon(o.column) if isinstance(o.column, ast.Node) else ['index', o.column],
                                      int(o.ordering)] for o in ob]),
        _opt(s.pivot_by, lambda p: ['pivot', repr(p)]),
        _opt(s.limit, int),
        1 if s.distinct is True else 0 if s.distinct is None else ['distinct', repr(s.distinct)],
    ]


def select_coq(s):
    """Gallina literal (type select) of a Python ast.Select produced by the transformations."""
    if not isinstance(s.targets, list) or s.pivot_by is not None:
        raise Unsupported('select shape')
    tg = clist([f'(mkTarget {expr_coq(t.expression)} {copt(t.name, cstr)})' for t in s.targets])
    gb = copt(s.group_by, lambda g: f'(mkGroupBy {clist([expr_coq(c) for c in g.columns])} {copt(g.having, expr_coq)})')
    ob = copt(s.order_by, lambda ob_: clist(
        [f'(mkOrderBy {expr_coq(o.column)} {"DESC" if int(o.ordering) else "ASC"})' for o in ob_]))
    return (f'(mkSelect {tg} {copt(s.from_clause, from_coq)} {copt(s.where_clause, expr_coq)} {gb} {ob} '
            f'None {copt(s.limit, cZ)} {cbool(s.distinct is True)})')


def stmt_coq(n):
    """Gallina model call for a Balances / Journal node: an expression of type tresult."""
    if isinstance(n, ast.Balances):
        return (f'(transform_balances (mkBalances {copt(n.summary_func, cstr)} {copt(n.from_clause, from_coq)} '
                f'{copt(n.where_clause, expr_coq)}))')
    if isinstance(n, ast.Journal):
        return (f'(transform_journal (mkJournal {copt(n.account, cstr)} {copt(n.summary_func, cstr)} '
                f'{copt(n.from_clause, from_coq)}))')
    raise Unsupported(type(n).__name__)


def stmt_input_coq(n):
    if isinstance(n, ast.Balances):
        return (f'(mkBalances {copt(n.summary_func, cstr)} {copt(n.from_clause, from_coq)} '
                f'{copt(n.where_clause, expr_coq)})')
    return f'(mkJournal {copt(n.account, cstr)} {copt(n.summary_func, cstr)} {copt(n.from_clause, from_coq)})'


def clauses_shared(n, s):
    """the Select carries the caller's FROM (and WHERE) NODES, not equal copies"""
    ok = s.from_clause is n.from_clause
    if isinstance(n, ast.Balances):
        ok = ok and s.where_clause is n.where_clause
    return ok


def real_transform(n):
    """-> canonical tresult of the implementation: [0, select] or [1] (ParseError)."""
    try:
        s = compiler.transform_balances(n) if isinstance(n, ast.Balances) else compiler.transform_journal(n)
    except beanquery.ParseError:
        return [1]
    if not clauses_shared(n, s):
        return [0, select_canon(s), 'clauses-copied-not-shared']
    return [0, select_canon(s)]


IDENT_RE = re.compile(r'[a-zA-Z_][a-zA-Z0-9_]*\Z')


def is_identifier(s):
    return bool(IDENT_RE.match(s)) and s.upper() not in tatsu_parser.KEYWORDS


# --------------------------------------------------------------------------
# generate(): Gen/Templates.v

def _template_text(func):
    cands = [c for c in func.__code__.co_consts if isinstance(c, str) and 'SELECT' in c]
    if len(cands) != 1:
        raise RuntimeError(f'{func.__name__}: expected one template literal, found {len(cands)}')
    return cands[0]


def _segments_coq(text):
    segs = []
    for lit, field, spec, conv in string.Formatter().parse(text):
        if lit:
            segs.append(f'Lit {cstr(lit)}')
        if field is not None:
            if spec or conv:
                raise RuntimeError('format spec in template')
            segs.append(f'Field {cstr(field)}')
    return clist(segs)


def sentinel_statements():
    S = ast
    fexpr = S.Equal(S.Column('year'), S.Constant(2020))
    wexpr = S.And([S.Match(S.Column('account'), S.Constant('Sentinel')),
                   S.Greater(S.Function('abs', [S.Column('number')]), S.Constant(D('1.50')))])
    froms = [None,
             S.From(fexpr, None, None, None),
             S.From(None, datetime.date(2020, 1, 1), datetime.date(2021, 1, 1), True),
             S.From(S.Not(S.IsNull(S.Column('payee'))), datetime.date(2020, 1, 1), True, None),
             S.From(S.Equal(S.Column('year'), S.Placeholder('')), None, None, None)]
    wheres = [None, wexpr, S.Match(S.Column('account'), S.Placeholder('pat'))]
    summaries = [None, 'units', 'cost']
    accounts = [None, 'Assets', 'A.*:(Cash|Bank)$', 'x" OR account ~ "', 'a"b', "it's", '']
    bal = [S.Balances(f, fr, wh) for f in summaries for fr in froms for wh in wheres]
    jou = [S.Journal(a, f, fr) for a in accounts for f in summaries for fr in froms]
    return bal, jou


def generate():
    bal, jou = sentinel_statements()
    shared = []

    def case(fn, node):
        try:
            sel = fn(node)
            shared.append(clauses_shared(node, sel))
            return f'TOk {select_coq(sel)}'
        except beanquery.ParseError:
            return 'TParseError'
    bal_out = [case(compiler.transform_balances, b) for b in bal]
    jou_out = [case(compiler.transform_journal, j) for j in jou]
    lines = [
        '(* GENERATED by harness/vf/c14.py generate() from the imported beanquery: do not edit.',
        '   keywords: parser.KEYWORDS; *_template: the template literal found in the code object of',
        '   compiler.transform_balances / transform_journal, split by string.Formatter().parse;',
        '   *_inputs / *_cases: sentinel statements and the Select ASTs the REAL functions return for them. *)',
        'From Coq Require Import ZArith List Bool.',
        'Import ListNotations.',
        'From Verif Require Import Base.PyValue Model.Statements.',
        'Open Scope list_scope.',
        'Open Scope Z_scope.',
        '',
        'Definition keywords : list str := ' + clist([cstr(k) for k in sorted(tatsu_parser.KEYWORDS)]) + '.',
        'Definition balances_template : list seg := ' + _segments_coq(_template_text(compiler.transform_balances)) + '.',
        'Definition journal_template : list seg := ' + _segments_coq(_template_text(compiler.transform_journal)) + '.',
        'Definition balances_inputs : list balances := ' + clist([stmt_input_coq(b) for b in bal]) + '.',
        'Definition balances_cases : list tresult := ' + clist(bal_out) + '.',
        'Definition journal_inputs : list journal := ' + clist([stmt_input_coq(j) for j in jou]) + '.',
        'Definition journal_cases : list tresult := ' + clist(jou_out) + '.',
        '(* result.from_clause is statement.from_clause (and where_clause for BALANCES) on every sentinel *)',
        'Definition clauses_shared : bool := ' + cbool(bool(shared) and all(shared)) + '.',
        '',
    ]
    changed = core.write_if_changed(os.path.join(core.COQ, 'Gen', 'Templates.v'), '\n'.join(lines))
    out = {'generated': {'file': 'Gen/Templates.v', 'rewritten': changed,
                         'keywords': len(tatsu_parser.KEYWORDS),
                         'sentinel_balances': len(bal), 'sentinel_journal': len(jou)}}
    # translator tie: regenerate coq/Gen/SrcLedgerPrint.v from the source of the imported execute_print /
    # transform_balances / transform_journal (py2mini; statement ranges selected by structure in src_ledger.py)
    from . import gen_src
    out.update(gen_src.generate('ledger_print'))
    out.update(gen_src.generate('hasaccount'))      # bld-env2: has_account(context, pattern) -> Gen/SrcHasAccount.v
    return out


# --------------------------------------------------------------------------
# ledger generator

ROOT_ACCOUNTS = {
    'Assets': ['Assets:Cash', 'Assets:Bank:Checking', 'Assets:US-Bank:Savings', 'Assets:Zeta', 'Assets:A1'],
    'Liabilities': ['Liabilities:Card', 'Liabilities:Loan:Car'],
    'Equity': ['Equity:Opening-Balances', 'Equity:Other'],
    'Income': ['Income:Job', 'Income:Gains', 'Income:Abc:Interest'],
    'Expenses': ['Expenses:Food', 'Expenses:Food:Coffee', 'Expenses:Rent', 'Expenses:Assets-Fee', 'Expenses:Cash'],
}
CURRENCIES = ['USD', 'CAD', 'EUR']
NARRATIONS = ['lunch', 'Rent for the month', 'coffee & cake', 'salary', 'transfer', '', 'a "quoted" word',
              'ünïcode café', 'x' * 95, 'semi; colon', 'Assets:Cash in text', "it's"]
PAYEES = [None, None, 'Shop', 'Landlord', 'ACME Corp.', 'Café', 'P' * 60, '']
TAGS = ['trip', 'trip-2020', 'food', 'x_1']
LINKS = ['inv-1', 'ref.2', 'l3']


def _q(s):
    return '"' + s.replace('\\', '\\\\').replace('"', '\\"') + '"'


def _num(rng, lo=1, hi=500):
    k = rng.random()
    if k < 0.4:
        return D(rng.randint(lo, hi))
    if k < 0.8:
        return D(rng.randint(lo * 100, hi * 100)) / 100
    if k < 0.9:
        return D(rng.randint(lo * 1000, hi * 1000)) / 1000
    return D(rng.randint(1000, 5000000)) + D(rng.randint(0, 99)) / 100


def _meta_lines(rng, indent, p=0.3):
    out = []
    if rng.random() < p:
        pool = [('note', '"meta text"'), ('ref', '"a:b c"'), ('amount', '12.50 USD'), ('num', '42'), ('dec', '-1.250'),
                ('when', '2020-02-29'), ('acct', 'Assets:Cash'), ('flag', 'TRUE'), ('off', 'FALSE'),
                ('cur', 'EUR'), ('tag', '#sometag'), ('empty', ''), ('quoted', '"say \\"hi\\""')]
        for k, v in rng.sample(pool, rng.randint(1, 3)):
            out.append(f'{indent}{k}: {v}'.rstrip())
    return out


def gen_ledger(rng, idx, pools=None):
    """-> (text, info). A ledger that loads without errors: every directive type, costs, prices,
    tags, links, metadata, several currencies, all five account types.  pools: account names per root (default
    ROOT_ACCOUNTS; stream F passes NESTED_ACCOUNTS)."""
    accounts = []
    for root, pool in (pools or ROOT_ACCOUNTS).items():
        accounts += rng.sample(pool, rng.randint(2, len(pool)))
    for must in ('Assets:Cash', 'Equity:Opening-Balances', 'Income:Gains', 'Expenses:Food'):
        if must not in accounts:
            accounts.append(must)
    rng.shuffle(accounts)
    blocks = []      # (date, order, text)
    hist = {'directives': {}, 'features': {}}

    def add(date, text, kind, *features):
        blocks.append((date, len(blocks), text))
        hist['directives'][kind] = hist['directives'].get(kind, 0) + 1
        for f in features:
            hist['features'][f] = hist['features'].get(f, 0) + 1

    head = ['option "title" ' + _q(f'Generated ledger {idx}'), 'option "operating_currency" "USD"']
    commas = rng.random() < 0.3
    if commas:
        head.append('option "render_commas" "TRUE"')
        hist['features']['render_commas'] = 1
    d0 = datetime.date(2019, 1, 1)
    for a in accounts:
        line = f'{d0} open {a}'
        feats = []
        if a.startswith('Assets:Zeta'):
            line += ' USD,CAD,EUR'
            feats.append('open-currencies')
        ml = _meta_lines(rng, '  ', 0.25)
        add(d0, '\n'.join([line] + ml), 'open', *feats, *(['meta'] if ml else []))
    inv = 'Assets:Inv:HOOL'
    add(d0, f'{d0} open {inv} HOOL "STRICT"', 'open', 'open-booking')
    add(d0, f'{d0} commodity HOOL\n  name: "Hooli Inc."\n  quote: USD', 'commodity', 'meta')
    if rng.random() < 0.5:
        add(d0, f'{d0} commodity USD', 'commodity')

    balance = {}     # (account, currency) -> list of (date, amount)

    def post(date, account, amount, cur):
        balance.setdefault((account, cur), []).append((date, amount))

    def day(lo=1, hi=1000):
        return d0 + datetime.timedelta(days=rng.randint(lo, hi))

    others = [a for a in accounts if a != inv]
    ntx = rng.randint(6, 22)
    lots = []
    for i in range(ntx):
        date = day()
        flag = rng.choice(['*', '*', '*', '!'])
        payee = rng.choice(PAYEES)
        narr = rng.choice(NARRATIONS)
        hdr = f'{date} {flag}'
        if payee is not None:
            hdr += ' ' + _q(payee)
        hdr += ' ' + _q(narr)
        feats = []
        tl = []
        if rng.random() < 0.4:
            tl += ['#' + t for t in rng.sample(TAGS, rng.randint(1, 2))]
            feats.append('tags')
        if rng.random() < 0.3:
            tl += ['^' + t for t in rng.sample(LINKS, rng.randint(1, 2))]
            feats.append('links')
        if tl:
            hdr += ' ' + ' '.join(tl)
        lines = [hdr]
        ml = _meta_lines(rng, '  ')
        lines += ml
        if ml:
            feats.append('meta')
        kind = rng.random()
        cur = rng.choice(CURRENCIES)
        a, b = rng.sample(others, 2)
        amt = _num(rng)
        pflag = '! ' if rng.random() < 0.1 else ''
        if pflag:
            feats.append('posting-flag')
        if kind < 0.45:
            lines.append(f'  {pflag}{a}  {amt} {cur}')
            pm = _meta_lines(rng, '    ', 0.2)
            lines += pm
            if pm:
                feats.append('posting-meta')
            if rng.random() < 0.35:
                lines.append(f'  {b}')
                feats.append('interpolated')
            else:
                lines.append(f'  {b}  {-amt} {cur}')
            post(date, a, amt, cur)
            post(date, b, -amt, cur)
        elif kind < 0.6:
            # three legs
            c = rng.choice(others)
            part = (amt / 4).quantize(D('0.01'))
            lines += [f'  {a}  {amt} {cur}', f'  {b}  {-part} {cur}', f'  {c}  {-(amt - part)} {cur}']
            post(date, a, amt, cur); post(date, b, -part, cur); post(date, c, -(amt - part), cur)
            feats.append('three-legs')
        elif kind < 0.75:
            # price conversion
            cur2 = rng.choice([c for c in CURRENCIES if c != cur])
            rate = D(rng.randint(50, 200)) / 100
            if rng.random() < 0.5:
                lines += [f'  {a}  {-amt} {cur} @ {rate} {cur2}', f'  {b}  {amt * rate} {cur2}']
                feats.append('price')
            else:
                tot = (amt * rate).quantize(D('0.01'))
                lines += [f'  {a}  {-amt} {cur} @@ {tot} {cur2}', f'  {b}  {tot} {cur2}']
                feats.append('total-price')
            post(date, a, -amt, cur)
        elif kind < 0.9 or not lots:
            # buy at cost
            n = D(rng.randint(1, 20))
            cost = D(rng.randint(5000, 20000)) / 100 + D(len(lots))   # distinct per lot
            spec = f'{cost} USD'
            if rng.random() < 0.4:
                spec += f', {date}'
                feats.append('cost-date')
            label = None
            if rng.random() < 0.3:
                label = f'lot{len(lots)}'
                spec += f', "{label}"'
                feats.append('cost-label')
            lines += [f'  {inv}  {n} HOOL {{{spec}}}', f'  Assets:Cash  {-(n * cost)} USD']
            post(date, 'Assets:Cash', -(n * cost), 'USD')
            lots.append([date, n, cost])
            feats.append('cost')
        else:
            # sell part of an earlier lot, with a price and a gain
            lot = rng.choice(lots)
            if lot[1] > 0 and date > lot[0]:
                n = D(rng.randint(1, int(lot[1])))
                price = lot[2] + D(rng.randint(-10, 30))
                lot[1] -= n
                gain = n * (price - lot[2])
                lines += [f'  {inv}  {-n} HOOL {{{lot[2]} USD}} @ {price} USD',
                          f'  Assets:Cash  {n * price} USD', f'  Income:Gains  {-gain} USD']
                post(date, 'Assets:Cash', n * price, 'USD')
                post(date, 'Income:Gains', -gain, 'USD')
                feats += ['cost', 'reduction', 'price']
            else:
                lines += [f'  {a}  {amt} {cur}', f'  {b}  {-amt} {cur}']
                post(date, a, amt, cur)
                post(date, b, -amt, cur)
        add(date, '\n'.join(lines), 'transaction', *feats)

    # balance assertions (amounts computed here; interpolated legs are tracked too)
    keys = [k for k in balance if k[1] in CURRENCIES]
    for _ in range(rng.randint(1, 3)):
        if not keys:
            break
        acc, cur = rng.choice(keys)
        date = day(200, 1100)
        # conversions into the account are not tracked: only assert accounts never credited by a conversion
        total = sum((amt for d, amt in balance[(acc, cur)] if d < date), D(0))
        add(date, f'{date} balance {acc}  {total} {cur}', 'balance-candidate')
    # pad + balance on a dedicated account
    if rng.random() < 0.5:
        add(d0, f'{d0} open Assets:Padded', 'open')
        dp = day(10, 300)
        add(dp, f'{dp} pad Assets:Padded Equity:Opening-Balances', 'pad')
        db = dp + datetime.timedelta(days=rng.randint(1, 30))
        add(db, f'{db} balance Assets:Padded  {_num(rng)} USD', 'balance')
    for _ in range(rng.randint(0, 2)):
        dn = day()
        ntext = rng.choice(['called the bank', 'a "note"', 'ünï'])
        add(dn, f'{dn} note {rng.choice(others)} {_q(ntext)}', 'note')
    if rng.random() < 0.6:
        dd = day()
        ml = _meta_lines(rng, '  ')
        tl = ' #doc-tag ^doc-link' if rng.random() < 0.4 else ''
        add(dd, '\n'.join([f'{dd} document {rng.choice(others)} "{TMP}/docs/statement-{idx}.pdf"{tl}'] + ml), 'document')
    for _ in range(rng.randint(0, 2)):
        de = day()
        add(de, f'{de} event "location" {_q(rng.choice(["Paris, France", "New York", "", 'the "Big" one']))}', 'event')
    if rng.random() < 0.6:
        dq = day()
        qs = rng.choice(["SELECT account, sum(position) WHERE account ~ 'Cash'", 'SELECT account WHERE account ~ "Cash"'])
        add(dq, f'{dq} query "cash" {_q(qs)}', 'query')
    for _ in range(rng.randint(1, 4)):
        dp = day()
        add(dp, f'{dp} price HOOL  {D(rng.randint(8000, 22000)) / 100} USD', 'price')
    if rng.random() < 0.5:
        dp = day()
        add(dp, f'{dp} price USD  1.31 CAD', 'price')
    if rng.random() < 0.7:
        dc = day()
        cs = rng.choice(['weekly', 'the "weekly" one'])
        add(dc, f'{dc} custom "budget" {_q(cs)} 45.30 USD Expenses:Food 2020-01-01 TRUE 12', 'custom')
    unused = 'Assets:Closed'
    add(d0, f'{d0} open {unused}', 'open')
    dcl = day(5, 900)
    add(dcl, f'{dcl} close {unused}', 'close')

    if rng.random() < 0.5:
        blocks.sort(key=lambda b: (b[0], b[1]))
        hist['features']['file-sorted-by-date'] = 1
    else:
        rng.shuffle(blocks)
    text = '\n'.join(head) + '\n\n' + '\n\n'.join(b[2] for b in blocks) + '\n'
    return text, hist


def write_ledger(rng, idx, pools=None):
    os.makedirs(os.path.join(TMP, 'docs'), exist_ok=True)
    text, hist = gen_ledger(rng, idx, pools)
    # drop balance assertions that would fail (accounts credited by untracked conversions)
    entries, errors, _ = loader.load_string(text)
    bad = {e.entry.meta['lineno'] for e in errors if getattr(e, 'entry', None) is not None
           and isinstance(e.entry, data.Balance)}
    if bad:
        lines = text.split('\n')
        for ln in bad:
            lines[ln - 1] = '; ' + lines[ln - 1]
        text = '\n'.join(lines)
    with open(os.path.join(TMP, 'docs', f'statement-{idx}.pdf'), 'w') as f:
        f.write('x')
    path = os.path.join(TMP, f'ledger-{idx}.beancount')
    with open(path, 'w') as f:
        f.write(text)
    return path, text, hist


# --------------------------------------------------------------------------
# statement pools

SUMMARY_TEXT = [None, 'units', 'cost', 'UNITS', 'Cost']            # written in query text
SUMMARY_EXTRA = ['weight', 'nosuchfunction', 'sum', 'null', 'account', '_', 'a1', 'between_x', 'not_cleared']
SUMMARY_API = ['Units', 'COST', '']                                 # only through ast.Balances(...) / ast.Journal(...)

FROM_TEXT = [
    None, 'year = 2020', 'year >= 2020 AND month < 7', "'trip' IN tags", "flag = '*'", "narration ~ 'a'",
    'date > 2019-06-01', "NOT payee IS NULL", "type = 'transaction'", 'year = 2020 OR year = 2021',
    'OPEN ON 2020-01-01', 'CLOSE ON 2021-01-01', 'CLEAR', 'OPEN ON 2020-01-01 CLOSE ON 2020-12-31 CLEAR',
    'year = 2020 CLOSE', 'OPEN ON 2020-03-01 CLOSE', 'OPEN ON 2020-03-01 CLOSE CLEAR',
    'year >= 2019 OPEN ON 2019-06-01 CLOSE ON 2021-06-01', "has_account('Assets:Cash')",
    'OPEN ON 2021-01-01 CLOSE ON 2020-01-01',          # CLOSE before OPEN: CompilationError on both sides
    'nosuchcolumn = 1',                                # CompilationError on both sides
    'day - day = 0', 'year', 'payee',
]
WHERE_TEXT = [
    None, "account ~ 'Assets'", "currency = 'USD'", 'number > 10', "account ~ 'Expenses' AND year = 2020",
    'cost_number IS NOT NULL', "NOT account ~ 'Inv'", "account ~ '^(Income|Expenses)'", 'number < 0 OR year = 2019',
    "posting_flag = '!'", 'nosuchcolumn = 1', "account = 'Assets:Cash'", 'price IS NOT NULL',
]
PATTERNS = [
    None, 'Assets', 'assets:cash', 'Cash$', '^Expenses:F', 'A.*:C', 'Food|Rent', '[IE]', 'Inv:HOOL', '.', '',
    'Bank:Checking', 'US-Bank', 'Assets:(Cash|Bank)', r'\bCash\b', r'^\w+:\w+$', 'Opening-Balances', 'a{2}', 's+',
    '(?i)CASH', 'Nomatch', 'Assets:Cash|', '$', '^',
    'x" OR account ~ "', 'a"b', '"', 'Cash" OR account ~ "Food', "it's", "'", 'Ca\'sh"', '" OR "" = "',
    '(', '*', '[a', 'a)',                               # invalid regular expressions: re.error on both sides
    'Cash; comment', '/* c */Cash', 'Ca sh', 'Cash\n', '%s', '{}', '{0}', '%(x)s',
]


# statements carrying query parameters (positional %s are numbered by node identity in Compiler.compile);
# values are int / str only (JSON-safe for replay files).  ('named', ((k, v), ...)) = a dict of parameters
BALANCES_PARAM = [
    (None, 'account ~ %s', ('Expenses',)),
    ('year = %s', None, (2020,)),
    ('year = %s', 'account ~ %s', (2020, 'Assets')),
    ('year >= %s AND month < %s', 'currency = %s', (2020, 7, 'USD')),
    ('year = %s OPEN ON 2020-01-01 CLOSE', 'number > %s', (2020, 5)),
    ('year = %(y)s', 'account ~ %(a)s AND number > %(n)s', ('named', (('a', 'Assets'), ('n', 1), ('y', 2020)))),
    (None, 'account ~ %(a)s OR account ~ %(a)s', ('named', (('a', 'Food'),))),
    ('year = %s', None, ()),                      # too few parameters: same error on both sides
    ('year = %s', 'account ~ %(a)s', (2020,)),    # mixed styles: same error on both sides
]
JOURNAL_PARAM = [
    ('Food', 'year = %s', (2020,)),
    ('Assets', 'year = %(y)s', ('named', (('y', 2020),))),
    ('Cash', 'year >= %s AND month < %s', (2019, 7)),
    (None, 'year = %s', (2021,)),
    ('a"b', 'year = %s', (2020,)),
    ('A.*:C', "year = %s AND narration ~ %s", (2020, 'a')),
    ('Food', 'year = %s OPEN ON 2020-01-01 CLOSE ON 2021-01-01', (2020,)),
    ('Food', 'year = %s', ()),
]


def params_py(params):
    """spec form -> what Connection.execute takes"""
    params = tuple(params) if isinstance(params, list) else params
    if len(params) == 2 and params[0] == 'named':
        return {k: v for k, v in params[1]}
    return tuple(params)


def params_kind(params):
    return 'named' if len(params) == 2 and params[0] == 'named' else f'positional{len(params)}'


def quote_bql(s):
    if "'" not in s:
        return "'" + s + "'"
    if '"' not in s:
        return '"' + s + '"'
    return None


def balances_text(f, fr, wh):
    return 'BALANCES' + (f' AT {f}' if f else '') + (f' FROM {fr}' if fr else '') + (f' WHERE {wh}' if wh else '')


def balances_select_text(f, fr, wh):
    return (f'SELECT account, sum({f or ""}(position))'.replace('sum((position))', 'sum(position)')
            + (f' FROM {fr}' if fr else '') + (f' WHERE {wh}' if wh else '')
            + ' GROUP BY account, account_sortkey(account) ORDER BY account_sortkey(account)')


def journal_text(p, f, fr):
    q = 'JOURNAL'
    if p is not None:
        lit = quote_bql(p)
        if lit is None:
            return None
        q += ' ' + lit
    return q + (f' AT {f}' if f else '') + (f' FROM {fr}' if fr else '')


def journal_select_text(p, f, fr):
    """pattern passed as a query parameter: never spliced into text here either"""
    pos, bal = (f'{f}(position)', f'{f}(balance)') if f else ('position', 'balance')
    return (f'SELECT date, flag, maxwidth(payee, 48), maxwidth(narration, 80), account, {pos}, {bal}'
            + (f' FROM {fr}' if fr else '') + (' WHERE account ~ %s' if p else ''))


def parse_from(fr):
    return None if fr is None else parser.parse('SELECT 1 FROM ' + fr).from_clause


def parse_where(wh):
    return None if wh is None else parser.parse('SELECT 1 WHERE ' + wh).where_clause


def _hashable(x):
    return tuple(_hashable(i) for i in x) if isinstance(x, (list, tuple)) else x


def build_node(spec):
    """spec = ('B', via, f, fr, wh) | ('J', via, p, f, fr); via = 'text' | 'api' -> ast node
    ('BP', f, fr, wh, params) | ('JP', p, f, fr, params): parsed text with placeholders"""
    if spec[0] == 'BP':
        return parser.parse(balances_text(spec[1], spec[2], spec[3]))
    if spec[0] == 'JP':
        return parser.parse(journal_text(spec[1], spec[2], spec[3]))
    if spec[0] == 'B':
        _, via, f, fr, wh = spec
        if via == 'text':
            return parser.parse(balances_text(f, fr, wh))
        return ast.Balances(f, parse_from(fr), parse_where(wh))
    _, via, p, f, fr = spec
    if via == 'text':
        return parser.parse(journal_text(p, f, fr))
    return ast.Journal(p, f, parse_from(fr))


def gen_spec(rng):
    """a random BALANCES / JOURNAL statement description"""
    r = rng.random()
    f = (rng.choice(SUMMARY_TEXT) if r < 0.7 else rng.choice(SUMMARY_EXTRA) if r < 0.9 else rng.choice(SUMMARY_API))
    via = 'api' if f in SUMMARY_API or rng.random() < 0.25 else 'text'
    if f in SUMMARY_TEXT and rng.random() < 0.12:
        if rng.random() < 0.5:
            fr_, wh_, pa = rng.choice(BALANCES_PARAM)
            return ('BP', f, fr_, wh_, pa)
        p_, fr_, pa = rng.choice(JOURNAL_PARAM)
        return ('JP', p_, f, fr_, pa)
    fr = rng.choice(FROM_TEXT) if rng.random() < 0.7 else None
    if rng.random() < 0.5:
        wh = rng.choice(WHERE_TEXT) if rng.random() < 0.6 else None
        return ('B', via, f, fr, wh)
    p = rng.choice(PATTERNS) if rng.random() < 0.85 else ''.join(
        rng.choice('aAs:C.*"\'|()[$^ ~Ox') for _ in range(rng.randint(1, 12)))
    if via == 'text' and p is not None and quote_bql(p) is None:
        via = 'api'
    return ('J', via, p, f, fr)


def spec_class(spec):
    if spec[0] in ('BP', 'JP'):
        f = spec[1] if spec[0] == 'BP' else spec[2]
        return f'{spec[0]}:f={"none" if f is None else f.lower()}:params={params_kind(_hashable(spec[4]))}'
    if spec[0] == 'B':
        return f'B:{spec[1]}:f={"none" if spec[2] is None else spec[2].lower() if spec[2] else "empty"}:' \
               f'from={"y" if spec[3] else "n"}:where={"y" if spec[4] else "n"}'
    p = spec[2]
    pk = ('none' if p is None else 'empty' if p == '' else 'dquote' if '"' in p else 'squote' if "'" in p
          else 'meta' if re.search(r'[.*+?|()\[\]^$\\{}]', p) else 'plain')
    return f'J:{spec[1]}:p={pk}:f={"none" if spec[3] is None else spec[3].lower() if spec[3] else "empty"}:' \
           f'from={"y" if spec[4] else "n"}'


# --------------------------------------------------------------------------
# A. transform: model vs implementation

def _transform_case(spec):
    """-> ('skip', why) | ('case', Gallina expression of the model's result, implementation's canonical result)"""
    try:
        node = build_node(spec)
    except beanquery.ParseError:
        return ('skip', 'statement-text-not-parsable')
    if node.summary_func and not is_identifier(node.summary_func):
        return ('skip', 'summary-not-identifier')
    try:
        expr = f'o_tresult {stmt_coq(node)}'
    except Unsupported as e:
        return ('skip', 'unsupported-node:' + str(e)[:30])
    return ('case', expr, real_transform(node))


def run_transform(n_cases, rng, cov):
    specs, seen = [], set()
    # exhaustive core: every summary x with/without FROM, WHERE / pattern class
    for f in SUMMARY_TEXT + SUMMARY_EXTRA:
        for fr in (None, FROM_TEXT[1], 'OPEN ON 2020-01-01 CLOSE CLEAR'):
            for wh in (None, WHERE_TEXT[1]):
                specs.append(('B', 'text', f, fr, wh))
            for p in (None, 'Assets', 'A.*:(Cash|Bank)$', 'a"b', "it's", ''):
                specs.append(('J', 'text', p, f, fr))
    for f in (None, 'units', 'cost'):
        specs += [('BP', f, fr, wh, pa) for fr, wh, pa in BALANCES_PARAM]
        specs += [('JP', p, f, fr, pa) for p, fr, pa in JOURNAL_PARAM]
    for f in SUMMARY_API:
        specs.append(('B', 'api', f, None, None))
        for p in PATTERNS:
            specs.append(('J', 'api', p, f, 'year = 2020'))
    for p in PATTERNS:
        specs.append(('J', 'api', p, None, None))
        if p is None or quote_bql(p) is not None:
            specs.append(('J', 'text', p, 'units', None))
    while len(specs) < n_cases:
        specs.append(gen_spec(rng))
    uniq = []
    for spec in specs:
        if spec not in seen:
            seen.add(spec)
            uniq.append(spec)
    cases, hist = [], {}
    skipped = {}
    for spec, res in zip(uniq, core.pmap(_transform_case, uniq)):
        if res[0] == 'skip':
            skipped[res[1]] = skipped.get(res[1], 0) + 1
            continue
        cases.append((spec, res[1], res[2]))
        k = spec_class(spec)
        hist[k] = hist.get(k, 0) + 1
    model = core.coq_eval(f'c14a_{os.getpid()}', ['Base.PyValue', 'Model.Statements'], [c[1] for c in cases])
    violations = []
    nontrivial = set()
    for (spec, _, got), m in zip(cases, model):
        nontrivial.add(repr(got))
        if len(got) == 3:
            if not any(v_.kind == 'transform-clauses-copied' for v_ in violations):
                violations.append(core.Violation(
                    'transform-clauses-copied',
                    f'transform of {spec!r}: the SELECT carries copies of the statement\'s FROM/WHERE nodes, not the nodes '
                    'themselves (positional placeholders are numbered by node identity)',
                    {'kind': 'transform', 'spec': list(spec), 'impl': got, 'model': m},
                    signature='transform-clauses-copied'))
            got = got[:2]
        if got != m and len(violations) < 3:
            violations.append(core.Violation(
                'transform-mismatch',
                f'transform of {spec!r}: implementation AST differs from Model/Statements.v',
                {'kind': 'transform', 'spec': list(spec), 'impl': got, 'model': m},
                signature='transform:' + spec_class(spec)))
    cov['A_transform'] = {'statements': len(cases), 'distinct_results': len(nontrivial), 'skipped': skipped,
                          'histogram': dict(sorted(hist.items())),
                          'samples': [list(map(str, c[0])) for c in cases[:3] + cases[-5:]]}
    return len(cases), violations


# --------------------------------------------------------------------------
# B/C. BALANCES and JOURNAL against the explicit SELECT and against oracles, on ledgers

def norm_name(name):
    return re.sub(r'\s+', '', name).lower().replace('((position))', '(position)')


def run_query(conn, q, params=None):
    """-> ('ok', [(name, dtype name)], rows) | ('err', class, message)"""
    try:
        c = conn.execute(q, params)
        desc = [(d.name, getattr(d.datatype, '__name__', str(d.datatype))) for d in c.description]
        return ('ok', desc, c.fetchall())
    except Exception as e:       # compared, never swallowed
        return ('err', type(e).__name__, str(e))


def same_result(a, b):
    """None if equal, else a short reason."""
    if a[0] != b[0]:
        return f'one raises, the other does not: {a[:2] if a[0] == "err" else a[0]} / {b[:2] if b[0] == "err" else b[0]}'
    if a[0] == 'err':
        if a[1] != b[1]:
            return f'different exceptions: {a[1]}({a[2]!r}) / {b[1]}({b[2]!r})'
        return None
    if [d[1] for d in a[1]] != [d[1] for d in b[1]]:
        return f'column datatypes differ: {a[1]} / {b[1]}'
    if [norm_name(d[0]) for d in a[1]] != [norm_name(d[0]) for d in b[1]]:
        return f'column names differ: {a[1]} / {b[1]}'
    if len(a[2]) != len(b[2]):
        return f'{len(a[2])} rows / {len(b[2])} rows'
    for i, (x, y) in enumerate(zip(a[2], b[2])):
        if tuple(x) != tuple(y):
            return f'row {i} differs: {tuple(x)!r} / {tuple(y)!r}'
    return None


SUMMARY_PY = {
    None: lambda pos: pos,
    'units': lambda pos: bposition.Position(pos.units, None),
    'cost': None,   # filled below
}


def _cost_of(pos):
    from beancount.core import convert
    return convert.get_cost(pos)


def oracle_postings(entries, year=None):
    for e in entries:
        if isinstance(e, data.Transaction) and (year is None or e.date.year == year):
            for p in e.postings:
                yield e, p


def oracle_balances(entries, options, f, year=None, account_re=None):
    """per-account sums computed directly from the directives, ordered by (account type, name)"""
    sums = {}
    for e, p in oracle_postings(entries, year):
        if account_re is not None and not re.search(account_re, p.account, re.IGNORECASE):
            continue
        inv_ = sums.setdefault(p.account, inventory.Inventory())
        pos = bposition.Position(p.units, p.cost)
        if f == 'units':
            inv_.add_amount(pos.units)
        elif f == 'cost':
            inv_.add_amount(_cost_of(pos))
        else:
            inv_.add_position(pos)
    types = account_types.AccountTypes(*[options[f'name_{t}'] for t in
                                         ('assets', 'liabilities', 'equity', 'income', 'expenses')])
    keyed = sorted(sums.items(), key=lambda kv: account_types.get_account_sort_key(types, kv[0]))
    return [(a, i) for a, i in keyed], types


def oracle_journal(entries, pattern, f, year=None):
    rows = []
    bal = inventory.Inventory()
    for e, p in oracle_postings(entries, year):
        if pattern and not re.search(pattern, p.account, re.IGNORECASE):
            continue
        pos = bposition.Position(p.units, p.cost)
        bal.add_position(pos)
        if f == 'units':
            shown, b = pos.units, bal.reduce(lambda x: x.units)
        elif f == 'cost':
            from beancount.core import convert
            shown, b = convert.get_cost(pos), bal.reduce(convert.get_cost)
        else:
            shown, b = pos, inventory.Inventory(list(bal))
        rows.append((e.date, e.flag, p.account, shown, b))
    return rows


def check_ledger_statements(args):
    """One ledger, a list of statement specs -> (records, problems). Top level for core.pmap."""
    path, specs = args
    conn = beanquery.connect('beancount:' + path)
    entries = conn.tables['entries'].entries
    options = conn.tables['entries'].options
    out = []
    for spec in specs:
        rec = {'spec': list(spec), 'problems': []}
        try:
            if spec[0] in ('BP', 'JP'):
                params = params_py(spec[4])
                if spec[0] == 'BP':
                    _, f, fr, wh, _ = spec
                    q = balances_text(f, fr, wh)
                    sel = balances_select_text(f.lower() if f else f, fr, wh)
                    tag = 'balances-vs-select'
                else:
                    _, p, f, fr, _ = spec
                    q = journal_text(p, f, fr)
                    sel = journal_select_text(None, f.lower() if f else f, fr) + (f' WHERE account ~ {quote_bql(p)}' if p else '')
                    tag = 'journal-vs-select'
                a = run_query(conn, q, params)
                b = run_query(conn, sel, params)
                why = same_result(a, b)
                if why:
                    rec['problems'].append((tag, f'with parameters {params!r}: {why}'))
                rec['status'] = a[0] if a[0] == 'ok' else a[1]
                rec['rows'] = len(a[2]) if a[0] == 'ok' else None
                rec['with_params'] = True
            elif spec[0] == 'B':
                _, via, f, fr, wh = spec
                node = build_node(spec)
                a = run_query(conn, node if via == 'api' else balances_text(f, fr, wh))
                fl = f.lower() if f else f
                b = run_query(conn, balances_select_text(fl, fr, wh))
                why = same_result(a, b)
                if why:
                    rec['problems'].append(('balances-vs-select', why))
                rec['status'] = a[0] if a[0] == 'ok' else a[1]
                rec['rows'] = len(a[2]) if a[0] == 'ok' else None
                if a[0] == 'ok':
                    rec['keys'] = []
                    types = account_types.AccountTypes(*[options[f'name_{t}'] for t in
                                                         ('assets', 'liabilities', 'equity', 'income', 'expenses')])
                    for row in a[2]:
                        k = account_types.get_account_sort_key(types, row[0])
                        rec['keys'].append((k[0], k[1]))
                    if len({r[0] for r in a[2]}) != len(a[2]):
                        rec['problems'].append(('balances-duplicate-account', repr([r[0] for r in a[2]])))
                    # independent oracle for the statements it can evaluate itself
                    year = {None: None, 'year = 2020': 2020}.get(fr, 'no')
                    acc = {None: None, "account ~ 'Assets'": 'Assets', "account ~ '^(Income|Expenses)'": '^(Income|Expenses)'
                           }.get(wh, 'no')
                    if year != 'no' and acc != 'no' and fl in (None, 'units', 'cost'):
                        want, _ = oracle_balances(entries, options, fl, year, acc)
                        got = [(r[0], r[1]) for r in a[2]]
                        rec['oracle'] = True
                        if got != want:
                            rec['problems'].append(('balances-vs-oracle', f'{got!r} / oracle {want!r}'))
            else:
                _, via, p, f, fr = spec
                node = build_node(spec)
                a = run_query(conn, node if via == 'api' else journal_text(p, f, fr))
                fl = f.lower() if f else f
                b = run_query(conn, journal_select_text(p, fl, fr), (p,) if p else None)
                why = same_result(a, b)
                if why:
                    rec['problems'].append(('journal-vs-select', why))
                rec['status'] = a[0] if a[0] == 'ok' else a[1]
                rec['rows'] = len(a[2]) if a[0] == 'ok' else None
                year = {None: None, 'year = 2020': 2020}.get(fr, 'no')
                if a[0] == 'ok' and year != 'no' and fl in (None, 'units', 'cost'):
                    want = oracle_journal(entries, p, fl, year)
                    got = [(r[0], r[1], r[4], r[5], r[6]) for r in a[2]]
                    rec['oracle'] = True
                    if got != want:
                        i = next((i for i, (x, y) in enumerate(zip(got, want)) if x != y), min(len(got), len(want)))
                        rec['problems'].append(('journal-vs-oracle',
                                                f'{len(got)} rows / oracle {len(want)} rows; first difference at {i}: '
                                                f'{got[i] if i < len(got) else None!r} / {want[i] if i < len(want) else None!r}'))
        except Exception as e:
            rec['problems'].append(('harness-exception', repr(e) + traceback.format_exc()[-600:]))
        out.append(rec)
    return out


def ledger_specs(rng, n, thorough, idx=0):
    """statement specs for one ledger: a fixed core + random ones"""
    specs = []
    core_from = [None, 'year = 2020', 'OPEN ON 2020-01-01 CLOSE ON 2020-12-31 CLEAR', 'OPEN ON 2020-03-01 CLOSE']
    for f in (None, 'units', 'cost'):
        for fr in core_from:
            specs.append(('B', 'text', f, fr, None))
            specs.append(('J', 'text', 'Assets', f, fr))
        specs.append(('B', 'text', f, None, "account ~ 'Assets'"))
        specs.append(('B', 'text', f, 'year = 2020', "account ~ '^(Income|Expenses)'"))
        specs.append(('J', 'text', None, f, None))
    for k, p in enumerate(PATTERNS):
        # quick tier: every other pattern per ledger (all of them over two ledgers); quotes always
        if not thorough and k % 2 != idx % 2 and not (p and ('"' in p or "'" in p)):
            continue
        specs.append(('J', 'api' if (p is not None and quote_bql(p) is None) else 'text', p, rng.choice([None, 'units', 'cost']),
                      rng.choice([None, 'year = 2020'])))
    fs = [None, 'units', 'cost']
    for k, (fr, wh, pa) in enumerate(BALANCES_PARAM):
        specs.append(('BP', fs[(k + idx) % 3], fr, wh, pa))
    for k, (p, fr, pa) in enumerate(JOURNAL_PARAM):
        specs.append(('JP', p, fs[(k + idx + 1) % 3], fr, pa))
    while len(specs) < n:
        specs.append(gen_spec(rng))
    seen, out = set(), []
    for s in specs:
        if s not in seen:
            seen.add(s)
            out.append(s)
    return out


# --------------------------------------------------------------------------
# E. one connection whose ledger is attached again (what the shell's .reload does): BALANCES / JOURNAL must report the
# ledger that is attached NOW - equal to their SELECT expansion on the same connection, to the same statement on a
# connection attached once to that ledger, and to the sums / register computed from the directives.

def gen_reattach_ops(rng, n_ledgers):
    """[('attach', ledger index) | ('stmt', spec)], starting with an attach; statements are mostly clause-less
    BALANCES / JOURNAL [AT f], repeated after the ledger has been replaced"""
    def stmt():
        r = rng.random()
        f = rng.choice([None, None, 'units', 'cost'])
        if r < 0.35:
            return ('B', 'text', f, None, None)
        if r < 0.65:
            return ('J', 'text', None, f, None)
        if r < 0.75:
            return ('J', 'text', rng.choice(['Assets', 'Cash$', 'Food|Rent']), f, rng.choice([None, 'year = 2020']))
        if r < 0.85:
            return ('B', 'text', f, rng.choice([None, 'year = 2020', 'OPEN ON 2020-03-01 CLOSE']), rng.choice([None, "account ~ 'Assets'"]))
        if r < 0.93:
            return ('B', 'api', rng.choice([None, 'units', 'cost']), None, None)
        return ('J', 'api', None, rng.choice([None, 'units', 'cost']), None)
    cur = rng.randrange(n_ledgers)
    ops, used = [('attach', cur, 'connect')], []
    for seg in range(rng.randint(2, 4)):
        for _ in range(rng.randint(1, 3)):
            s = rng.choice(used) if used and seg > 0 and rng.random() < 0.7 else stmt()
            used.append(s)
            ops.append(('stmt', s))
        cur = rng.choice([i for i in range(n_ledgers) if i != cur])
        ops.append(('attach', cur, rng.choice(['attach', 'attach', 'rewrite-file'])))
    ops.append(('stmt', rng.choice(used)))
    if rng.random() < 0.5:
        ops.append(('stmt', stmt()))
    return ops


def _stmt_texts(spec):
    """(what to execute, its SELECT expansion, parameters of the expansion)"""
    if spec[0] == 'B':
        _, via, f, fr, wh = spec
        return (build_node(spec) if via == 'api' else balances_text(f, fr, wh)), balances_select_text(f, fr, wh), None
    _, via, p, f, fr = spec
    return (build_node(spec) if via == 'api' else journal_text(p, f, fr)), journal_select_text(p, f, fr), ((p,) if p else None)


def check_reattach(args):
    """One connection, ops in order -> list of records (one per statement step). Top level for core.pmap."""
    texts, ops = args
    os.makedirs(TMP, exist_ok=True)
    scratch = os.path.join(TMP, f'reattach-{os.getpid()}.beancount')
    paths = {}
    out = []
    conn = None
    try:
        for i, text in enumerate(texts):
            paths[i] = os.path.join(TMP, f'reattach-{os.getpid()}-{i}.beancount')
            with open(paths[i], 'w') as f:
                f.write(text)
        nattach = 0
        current = None
        for op in ops:
            if op[0] == 'attach':
                _, li, how = op
                current = li
                if conn is None:
                    with open(scratch, 'w') as f:
                        f.write(texts[li])
                    conn = beanquery.connect('beancount:' + scratch)
                    continue
                nattach += 1
                if how == 'rewrite-file':             # the user edited the file, the shell re-loads the same name
                    with open(scratch, 'w') as f:
                        f.write(texts[li])
                    target = scratch
                else:
                    target = paths[li]
                conn.errors.clear()                   # BQLShell.do_reload
                conn.options.clear()
                conn.attach('beancount:' + target)
                continue
            spec = _hashable(op[1])
            rec = {'spec': list(spec), 'problems': [], 'after_attaches': nattach, 'ledger': current}
            try:
                stmt, sel, selp = _stmt_texts(spec)
                a = run_query(conn, stmt)
                b = run_query(conn, sel, selp)
                fresh = beanquery.connect('beancount:' + paths[current])
                stmt2, _, _ = _stmt_texts(spec)       # an AST statement is built again: nothing shared with the other connection
                c = run_query(fresh, stmt2)
                why = same_result(a, b)
                if why:
                    rec['problems'].append(('reattach-vs-select', why))
                why = same_result(a, c)
                if why:
                    rec['problems'].append(('reattach-vs-fresh-connection', why))
                rec['status'] = a[0] if a[0] == 'ok' else a[1]
                rec['rows'] = len(a[2]) if a[0] == 'ok' else None
                fl = spec[2] if spec[0] == 'B' else spec[3]
                if a[0] == 'ok' and spec[0] == 'B' and spec[3] is None and spec[4] is None:
                    ent = fresh.tables['entries']
                    want, _ = oracle_balances(ent.entries, ent.options, fl)
                    rec['oracle'] = True
                    if [(r[0], r[1]) for r in a[2]] != want:
                        rec['problems'].append(('reattach-vs-oracle', f'{[(r[0], r[1]) for r in a[2]]!r} / sums over the attached ledger {want!r}'))
                if a[0] == 'ok' and spec[0] == 'J' and spec[4] is None:
                    want = oracle_journal(fresh.tables['entries'].entries, spec[2], fl)
                    got = [(r[0], r[1], r[4], r[5], r[6]) for r in a[2]]
                    rec['oracle'] = True
                    if got != want:
                        rec['problems'].append(('reattach-vs-oracle', f'{len(got)} rows / register of the attached ledger {len(want)} rows'))
            except Exception as e:
                rec['problems'].append(('harness-exception', repr(e) + traceback.format_exc()[-600:]))
            out.append(rec)
    finally:
        for pth in list(paths.values()) + [scratch]:
            if os.path.exists(pth):
                os.unlink(pth)
    return out


def reattach_fails(texts, ops, kind):
    ops = [tuple(_hashable(o)) for o in ops]
    recs = check_reattach((texts, ops))
    return bool(recs) and any(k == kind for k, _ in recs[-1]['problems'])


def shrink_reattach(texts, ops, k_stmt, kind):
    """ops up to the failing statement step, minimised: drop earlier steps while the last statement still fails"""
    n = -1
    cut = None
    for i, op in enumerate(ops):
        if op[0] == 'stmt':
            n += 1
            if n == k_stmt:
                cut = i
                break
    head, last = list(ops[1:cut]), ops[cut]
    if os.environ.get('C14_NOSHRINK'):
        return [ops[0]] + head + [last]
    try:
        small = ddmin(head, lambda hs: reattach_fails(texts, [ops[0]] + hs + [last], kind), max_tests=30) if len(head) >= 2 else head
    except Exception:
        small = head
    return [ops[0]] + list(small) + [last]


def show_ops(ops):
    out = []
    for op in ops:
        if op[0] == 'attach':
            out.append(f'{op[2]}(ledger {op[1]})')
        else:
            stmt = _stmt_texts(_hashable(op[1]))[0]
            out.append(stmt if isinstance(stmt, str) else f'execute({type(stmt).__name__} node, summary_func={stmt.summary_func!r})')
    return ' ; '.join(out)


# --------------------------------------------------------------------------
# D. PRINT

PRINT_FROM = [
    # (FROM text, independent predicate on a directive or None)
    (None, lambda e: True),
    ('year = 2020', lambda e: e.date.year == 2020),
    ("type = 'transaction'", lambda e: isinstance(e, data.Transaction)),
    ("type != 'transaction'", lambda e: not isinstance(e, data.Transaction)),
    ("type = 'open' OR type = 'close' OR type = 'commodity'", lambda e: isinstance(e, (data.Open, data.Close, data.Commodity))),
    ("type = 'balance' OR type = 'pad' OR type = 'note' OR type = 'document'",
     lambda e: isinstance(e, (data.Balance, data.Pad, data.Note, data.Document))),
    ("type = 'event' OR type = 'query' OR type = 'price' OR type = 'custom'",
     lambda e: isinstance(e, (data.Event, data.Query, data.Price, data.Custom))),
    ("'trip' IN tags", lambda e: 'trip' in (getattr(e, 'tags', None) or ())),
    ("'inv-1' IN links", lambda e: 'inv-1' in (getattr(e, 'links', None) or ())),
    ("flag = '!'", lambda e: getattr(e, 'flag', None) == '!'),
    ('date >= 2020-06-01 AND date < 2021-01-01',
     lambda e: datetime.date(2020, 6, 1) <= e.date < datetime.date(2021, 1, 1)),
    ('month = 2 OR day = 1', lambda e: e.date.month == 2 or e.date.day == 1),
    ('NOT year = 2019', lambda e: e.date.year != 2019),
    # truthiness of non-boolean values
    ('year', lambda e: True),
    ('year - 2020', lambda e: e.date.year != 2020),
    ('narration', lambda e: isinstance(e, data.Transaction) and bool(e.narration)),
    ('payee', lambda e: isinstance(e, data.Transaction) and bool(e.payee)),
    ('NULL', lambda e: False),
    ('FALSE', lambda e: False),
    ("narration ~ 'a'", lambda e: isinstance(e, data.Transaction) and re.search('a', e.narration or '', re.I) is not None),
    ("has_account('Assets:Cash')", lambda e: 'Assets:Cash' in getters.get_entry_accounts(e)),
    # OPEN / CLOSE / CLEAR: the table is rewritten first (no independent predicate for those)
    ('OPEN ON 2020-01-01', None), ('CLOSE ON 2020-07-01', None), ('CLEAR', None), ('CLOSE', None),
    ('OPEN ON 2020-01-01 CLOSE ON 2021-01-01 CLEAR', None), ('OPEN ON 2020-03-01 CLOSE', None),
    ("type = 'transaction' OPEN ON 2020-01-01 CLOSE ON 2021-01-01", None), ('year = 2020 CLEAR', None),
    ('OPEN ON 2021-01-01 CLOSE ON 2020-01-01', None),      # CompilationError
    ('nosuchcolumn', None),                                  # CompilationError
    ('sum(year) > 1', None),                                 # aggregates are not allowed in FROM
    ("meta('note') = 'meta text'", lambda e: (e.meta or {}).get('note') == 'meta text'),
    ("meta('num') = 42", lambda e: (e.meta or {}).get('num') == 42),
    # has_account(pattern) over every directive type: the pattern is SEARCHED (ignoring case) in each account the
    # directive refers to (Beancount's own getter: both accounts of a pad, the postings of a transaction, the account of
    # open / close / balance / note / document; none for price / event / commodity / query / custom)
    ("has_account('Equity:Opening')", lambda e: _refers_to(e, 'Equity:Opening')),          # source account of the pads
    ("NOT has_account('Equity')", lambda e: not _refers_to(e, 'Equity')),
    ("has_account('opening-balances$') AND type != 'transaction'",
     lambda e: _refers_to(e, 'opening-balances$') and not isinstance(e, data.Transaction)),
    ("has_account('padded')", lambda e: _refers_to(e, 'padded')),                           # padded account, any case
    ("has_account('Closed|Inv:HOOL|^Assets:Z')", lambda e: _refers_to(e, 'Closed|Inv:HOOL|^Assets:Z')),
    ("type = 'pad' AND has_account('^Equity')", lambda e: isinstance(e, data.Pad) and _refers_to(e, '^Equity')),
]


def _refers_to(e, pattern):
    return any(re.search(pattern, a, re.IGNORECASE) for a in getters.get_entry_accounts(e))


def norm_meta(m):
    if m is None:
        return {}
    return {k: v for k, v in m.items() if k not in ('filename', 'lineno') and not k.startswith('__')}


def norm_entry(e):
    """a directive with filename/lineno (and the parser's __automatic__ markers) removed from the
    metadata of the directive and of its postings; Balance.diff_amount is not syntax"""
    e = e._replace(meta=norm_meta(e.meta))
    if isinstance(e, data.Transaction):
        e = e._replace(postings=[p._replace(meta=norm_meta(p.meta)) for p in e.postings])
    if isinstance(e, data.Balance):
        e = e._replace(diff_amount=None)
    return e


def reload_printed(text, mode):
    """-> (entries in file order, errors)"""
    if mode == 'loader':
        entries, errors, _ = loader.load_string(text)
    else:
        entries, errors, options = bparser.parse_string(text)
        entries, berrors = booking.book(entries, options)
        errors = list(errors) + list(berrors)
    entries = sorted(entries, key=lambda e: e.meta.get('lineno', 0))
    return entries, errors


def describe_entry(e):
    return printer.format_entry(e).strip()[:300]


def check_ledger_print(args):
    """One ledger, PRINT with each FROM of `froms` -> records. Top level for core.pmap."""
    path, from_idx, with_shell = args
    froms = [PRINT_FROM[i] for i in from_idx]
    conn = beanquery.connect('beancount:' + path)
    all_entries = conn.tables['entries'].entries
    has_pad = any(isinstance(e, data.Pad) for e in all_entries)
    out = []
    sh = None
    for fr, pred in froms:
        q = 'PRINT' + (f' FROM {fr}' if fr else '')
        rec = {'from': fr, 'problems': [], 'query': q}
        try:
            try:
                c_print = conn.compile(conn.parse(q))
                buf = io.StringIO()
                execute_print(c_print, buf)       # what shell.on_Print does
                printed = buf.getvalue()
                rec['status'] = 'ok'
            except Exception as e:
                rec['status'] = type(e).__name__
                rec['message'] = str(e)
                # the selection loop must raise the same way when run by hand
                out.append(rec)
                continue
            # the table the statement ran over (after OPEN/CLOSE/CLEAR) and the value of the FROM
            # expression on each of its rows: the input of Model.execute_print
            table_entries, vals = [], []
            for row in c_print.table:
                table_entries.append(row.entry)
                vals.append(None if c_print.where is None else c_print.where(row))
            rec['table'] = len(table_entries)
            rec['values'] = None if c_print.where is None else vals
            rec['value_types'] = sorted({type(v).__name__ for v in vals}) if c_print.where is not None else []
            if fr is None or not re.search(r'\b(OPEN|CLOSE|CLEAR)\b', fr):
                if [id(e) for e in table_entries] != [id(e) for e in all_entries]:
                    rec['problems'].append(('print-table', 'without OPEN/CLOSE/CLEAR the table is not the ledger'))
            # re-load what was printed
            strict = fr is None
            reloaded, errors = reload_printed(printed, 'book')
            rec['reloaded'] = [norm_entry(e) for e in reloaded]
            rec['reload_errors'] = [(type(e).__name__, str(e.message)[:100]) for e in errors]
            rec['reload_error_entries'] = [norm_entry(e.entry) for e in errors
                                           if isinstance(getattr(e, 'entry', None), tuple) and hasattr(e.entry, 'meta')
                                           and isinstance(e.entry.meta, dict)]
            rec['table_entries'] = [norm_entry(e) for e in table_entries]
            rec['strict'] = strict
            if pred is not None:
                rec['oracle'] = [bool(pred(e)) for e in table_entries]
            m = re.search(r"has_account\('([^']*)'\)", fr or '')
            if m:
                # evidence: directives that refer to a matching account other than their `account` attribute / postings
                rec['second_account_only'] = sum(
                    1 for e in table_entries if isinstance(e, data.Pad) and
                    re.search(m.group(1), e.source_account, re.I) and not re.search(m.group(1), e.account, re.I))
            if strict and not has_pad:
                full, ferrors = reload_printed(printed, 'loader')
                rec['loader'] = [norm_entry(e) for e in full]
                rec['loader_errors'] = [(type(e).__name__, str(e.message)[:100]) for e in ferrors]
            if with_shell:
                if sh is None:
                    sh_out = io.StringIO()
                    sh = bq_shell.BQLShell(path, sh_out, interactive=False, no_errors=True)
                sh_out.seek(0)
                sh_out.truncate()
                sh.onecmd(q)
                if sh_out.getvalue() != printed:
                    rec['problems'].append(('print-shell-differs', 'BQLShell.onecmd output differs from execute_print'))
                rec['shell'] = True
        except Exception as e:
            rec['problems'].append(('harness-exception', repr(e) + traceback.format_exc()[-800:]))
        out.append(rec)
    return out


def diff_class(w, got):
    """Why is the selected directive w not among the directives read back? -> short class string"""
    cands = [g for g in got if type(g) is type(w) and g.date == w.date]
    best = None
    for g in cands:
        d = [f for f in w._fields if getattr(w, f) != getattr(g, f)]
        if best is None or len(d) < len(best[0]):
            best = (d, g)
    name = type(w).__name__
    if best is None or len(best[0]) > 3:
        strings = [v for v in w if isinstance(v, str)] + [v for v in (getattr(w, 'values', None) or [])
                                                          if isinstance(getattr(v, 'value', None), str) for v in [v.value]]
        if any('"' in v for v in strings):
            return f'{name}:not-read-back:dquote-in-string', None
        if any('\\' in v for v in strings):
            return f'{name}:not-read-back:backslash-in-string', None
        return f'{name}:not-read-back', None
    d, g = best
    if d == ['payee'] and w.payee == '' and g.payee is None:
        return "Transaction.payee:empty-string-read-back-as-None", g
    if d == ['postings']:
        pf = sorted({f for pw, pg in zip(w.postings, g.postings) for f in pw._fields if getattr(pw, f) != getattr(pg, f)})
        if len(w.postings) != len(g.postings):
            pf = ['count']
        return f'{name}.postings.{"+".join(pf)}', g
    return f'{name}.{"+".join(d)}', g


def compare_directives(want, got, errors):
    """-> list of (class, why); empty when got == want (same directives, same order)"""
    if got == want:
        return []
    out = {}
    for w in want:
        if w not in got:
            cls, g = diff_class(w, got)
            if cls not in out:
                out[cls] = (f'selected:\n{describe_entry(w)}\n  repr {w!r}\nread back:\n'
                            + (f'{describe_entry(g)}\n  repr {g!r}' if g is not None else f'nothing; reload errors: {errors[:3]}'))
    extra = [g for g in got if g not in want]
    if not out and extra:
        out['unselected-directive-printed'] = f'read back but not selected: {describe_entry(extra[0])}'
    if not out:
        out['order'] = ('the directives read back are the selected ones in a different order: '
                        + repr([(str(e.date), type(e).__name__) for e in got][:12]))
    return sorted(out.items())


def judge_print(rec, selected_idx):
    """Compare the re-loaded directives with the entries the model selected (indexes into the table)."""
    probs = list(rec['problems'])
    want = [rec['table_entries'][i] for i in selected_idx]
    got = rec['reloaded']
    excluded = 0
    if not rec['strict'] and rec['reload_error_entries']:
        # entries the booking rejected on re-load for lack of context (filtered prints only)
        rejected = rec['reload_error_entries']
        keep = []
        for w in want:
            if w not in got and any(_same_modulo_booking(w, r) for r in rejected):
                excluded += 1
                # booking keeps or drops the rejected transaction depending on the error: drop it here
                got = [g for g in got if not (_same_modulo_booking(w, g) and g not in want)]
            else:
                keep.append(w)
        want = keep
    book_classes = set()
    for cls, why in compare_directives(want, got, rec['reload_errors']):
        book_classes.add(cls)
        probs.append((f'print-roundtrip:{cls}', why))
    if 'loader' in rec:
        for cls, why in compare_directives([rec['table_entries'][i] for i in selected_idx], rec['loader'],
                                           rec['loader_errors']):
            if cls not in book_classes:
                probs.append((f'print-loader:{cls}', why))
    if 'oracle' in rec:
        o = [i for i, b in enumerate(rec['oracle']) if b]
        if o != list(selected_idx):
            probs.append(('print-selection-oracle', f'selected {list(selected_idx)[:20]} / predicate says {o[:20]}'))
    return probs, excluded


def _same_modulo_booking(a, b):
    """the directive attached to a booking error (unbooked, or emptied) against the booked original:
    same date, flag, narration, tags, links, payee (the printer drops an empty payee: known finding)"""
    if type(a) is not type(b) or a.date != b.date:
        return False
    if isinstance(a, data.Transaction):
        return (a.flag, a.narration, a.payee or None, a.tags, a.links) == \
               (b.flag, b.narration, b.payee or None, b.tags, b.links)
    return False


def value_to_coq(v):
    """value of a FROM expression -> Gallina value (truthiness is what matters)"""
    try:
        if isinstance(v, D) and not isinstance(v.as_tuple().exponent, int):
            raise TypeError
        return values.to_coq(v)
    except TypeError:
        # containers and objects: only their truthiness is observable here
        return '(VBool true)' if v else '(VBool false)'


PRINT_EXPECT_ERROR = {'OPEN ON 2021-01-01 CLOSE ON 2020-01-01': 'CompilationError', 'nosuchcolumn': 'CompilationError',
                      'sum(year) > 1': 'CompilationError'}


def model_print_selection(recs):
    """Model.execute_print on the values of the FROM expression -> list of index lists (or ('raise', k))"""
    exprs = []
    for r in recs:
        vals = r['values']
        w = 'None' if vals is None else '(Some ' + clist([value_to_coq(v) for v in vals]) + ')'
        exprs.append(f'o_presult (print_indexes {w} {r["table"]})')
    res = core.coq_eval(f'c14d_{os.getpid()}', ['Base.PyValue', 'Model.Statements'], exprs, shard=40)
    return [x[1] if x[0] == 0 else ('raise', x[1]) for x in res]


def print_problems(recs):
    """-> list of (rec, problems, excluded) for the records of check_ledger_print"""
    ok = [r for r in recs if r.get('status') == 'ok' and 'table' in r]
    sel = model_print_selection(ok)
    out = []
    for r in recs:
        want = PRINT_EXPECT_ERROR.get(r['from'], 'ok')
        if r.get('status') != want:
            out.append((r, r['problems'] + [('print-status', f'{r["query"]}: {r.get("status")} {r.get("message", "")!r}, expected {want}')], 0))
        elif r.get('status') != 'ok':
            out.append((r, r['problems'], 0))
    for r, s_ in zip(ok, sel):
        if isinstance(s_, tuple):
            out.append((r, r['problems'] + [('print-model-raises', repr(s_))], 0))
            continue
        probs, excluded = judge_print(r, s_)
        r['selected'] = len(s_)
        out.append((r, probs, excluded))
    return out


# --------------------------------------------------------------------------
# F. JOURNAL whose argument is, character for character, the NAME of an account of the ledger (fix-F).  The argument is a
# regular expression SEARCHED in the account name whatever the ledger contains: the register of an opened parent account
# includes its sub-accounts and every look-alike (`Assets:Bank` -> Assets:Bank:Checking, Assets:Bank-Old, Equity:Assets:Bank).
# Ledgers here open parents AND children AND look-alikes (NESTED_ACCOUNTS); the patterns are read off the Open directives
# of each generated ledger, never written down here.  Oracles: the SELECT expansion with the pattern as a query parameter,
# and the register computed from the directives (oracle_journal), through check_ledger_statements.

NESTED_ACCOUNTS = {
    'Assets': ['Assets:Bank', 'Assets:Bank:Checking', 'Assets:Bank:Savings', 'Assets:Bank-Old', 'Assets:Cash', 'Assets:Cash:Wallet',
               'Assets:Bank:Checking:Joint', 'Assets:Zeta'],
    'Liabilities': ['Liabilities:Card', 'Liabilities:Card:Visa', 'Liabilities:Cards', 'Liabilities:Loan'],
    'Equity': ['Equity:Opening-Balances', 'Equity:Assets:Bank', 'Equity:Other', 'Equity:Other:Expenses:Food'],
    'Income': ['Income:Job', 'Income:Job:Bonus', 'Income:Gains', 'Income:Gains:Long', 'Income:Jobs'],
    'Expenses': ['Expenses:Food', 'Expenses:Food:Coffee', 'Expenses:Food:Restaurant', 'Expenses:Foodstuff', 'Expenses:Assets:Cash',
                 'Expenses:Rent'],
}
ACCOUNT_NAME_FROM = [None, 'year = 2020', 'OPEN ON 2020-01-01 CLOSE ON 2020-12-31', 'year = 2020 CLOSE', 'year >= 2020 AND month < 7', 'CLEAR']


def ledger_account_names(entries):
    """-> (names with an Open directive, names some posting is booked on)"""
    opened = [e.account for e in entries if isinstance(e, data.Open)]
    posted = {p.account for e in entries if isinstance(e, data.Transaction) for p in e.postings}
    return opened, posted


def account_name_specs(rng, entries):
    """JOURNAL statements whose pattern is the exact name of an opened account -> [(spec, class)]; class =
    'contained' (the name is found, as a regular expression, in the name of ANOTHER account that has postings) | 'leaf',
    or a respelling of such a name that denotes the same / a narrower register ('lower', 'anchored', 'colon')"""
    opened, posted = ledger_account_names(entries)
    out = []
    fs = [None, 'units', 'cost']
    k = rng.randrange(6)
    contained = [a for a in opened if any(b != a and re.search(a, b, re.IGNORECASE) for b in posted)]
    leaves = [a for a in opened if a not in contained]
    for a in contained + rng.sample(leaves, min(3, len(leaves))):
        cls = 'contained' if a in contained else 'leaf'
        for _ in range(2 if cls == 'contained' else 1):
            k += 1
            out.append((('J', 'api' if k % 4 == 3 else 'text', a, fs[k % 3], ACCOUNT_NAME_FROM[(k // 3) % len(ACCOUNT_NAME_FROM)]), cls))
        if cls == 'contained':
            # without clauses: the register oracle applies
            out.append((('J', 'text', a, fs[(k + 1) % 3], None), cls))
            out.append((('JP', a, fs[(k + 2) % 3], 'year = %s', (2020,)), cls))
    for a in rng.sample(contained, min(3, len(contained))):
        out.append((('J', 'text', a.lower(), rng.choice(fs), None), 'lower'))
        out.append((('J', 'text', '^' + a + '$', rng.choice(fs), None), 'anchored'))
        out.append((('J', 'text', a + ':', rng.choice(fs), rng.choice([None, 'year = 2020'])), 'colon'))
    seen, uniq = set(), []
    for spec, cls in out:
        if spec not in seen:
            seen.add(spec)
            uniq.append((spec, cls))
    return uniq


_F_ENTRIES = {}       # path -> loaded directives, filled by run() before the worker processes are forked


def check_account_journals(args):
    """One ledger, account-name JOURNAL specs -> records of check_ledger_statements, each annotated with what the directives
    say about the pattern: postings on the named account itself / on OTHER accounts whose name matches.  Top level for core.pmap."""
    path, specs = args
    recs = check_ledger_statements((path, specs))
    entries = _F_ENTRIES[path] if path in _F_ENTRIES else loader.load_file(path)[0]
    for spec, rec in zip(specs, recs):
        p = spec[1] if spec[0] == 'JP' else spec[2]
        accs = [pp.account for _, pp in oracle_postings(entries) if re.search(p, pp.account, re.IGNORECASE)]
        rec['postings_on_named_account'] = sum(1 for a in accs if a == p)
        rec['postings_on_other_matching_accounts'] = sum(1 for a in accs if a != p)
    return recs


# --------------------------------------------------------------------------
# shrinking / replay

def _blocks(text):
    return text.split('\n\n')


def _with_ledger(text, fn):
    os.makedirs(TMP, exist_ok=True)
    path = os.path.join(TMP, f'replay-{os.getpid()}.beancount')
    with open(path, 'w') as f:
        f.write(text)
    try:
        return fn(path)
    finally:
        os.unlink(path)


def stmt_fails(text, spec, kind):
    recs = _with_ledger(text, lambda path: check_ledger_statements((path, [_hashable(spec)])))
    if kind == 'balances-order':
        keys = [tuple(k) for k in recs[0].get('keys') or []]
        return keys != sorted(keys)
    return any(k == kind for k, _ in recs[0]['problems'])


def print_fails(text, from_index, kind):
    recs = _with_ledger(text, lambda path: check_ledger_print((path, [from_index], True)))
    return any(k == kind for _, probs, _ in print_problems(recs) for k, _ in probs)


def shrink_ledger(text, fails, max_tests):
    if os.environ.get('C14_NOSHRINK'):
        return text
    blocks = _blocks(text)
    head, rest = blocks[0], blocks[1:]
    try:
        small = ddmin(rest, lambda bs: fails('\n\n'.join([head] + bs)), max_tests=max_tests)
    except Exception:
        small = rest
    return '\n\n'.join([head] + small)


def replay(rec):
    """True = the property holds on this input."""
    kind = rec['kind']
    if kind == 'transform':
        spec = _hashable(rec['spec'])
        node = build_node(spec)
        m = core.coq_eval(f'c14r_{os.getpid()}', ['Base.PyValue', 'Model.Statements'], [f'o_tresult {stmt_coq(node)}'])[0]
        return real_transform(node) == m
    if kind == 'stmt':
        return not stmt_fails(rec['ledger'], rec['spec'], rec['problem'])
    if kind == 'print':
        return not print_fails(rec['ledger'], rec['from_index'], rec['problem'])
    if kind == 'reattach':
        return not reattach_fails(rec['ledgers'], rec['ops'], rec['problem'])
    raise ValueError(kind)


# --------------------------------------------------------------------------

def run(tier, rng):
    thorough = tier == 'thorough'
    smoke = tier == 'smoke'      # small run used for mutation testing of this harness
    cov = {'rule': 'A: transform_balances/transform_journal vs Model/Statements.v, AST = AST; '
                   'B: BALANCES/JOURNAL vs explicit SELECT (rows, datatypes, names; same exception class); '
                   'C: BALANCES order vs account_types sort key (Model.sorted_keys), sums and registers vs oracles; '
                   'D: PRINT selection vs Model.execute_print and predicates, printed text re-loaded = selected directives in order'}
    violations = []
    os.makedirs(TMP, exist_ok=True)
    known = {k['signature'] for k in core.load_known('C14')}

    # A
    import time
    t0 = time.time()
    n_a, v = run_transform(5000 if thorough else 300 if smoke else 700, rng, cov)
    violations += v
    core.log(f'[C14] A transform: {n_a} statements, {time.time() - t0:.1f}s')

    # ledgers
    n_ledgers = 20 if thorough else 2 if smoke else 6
    ledgers = []
    dir_hist, feat_hist = {}, {}
    for i in range(n_ledgers):
        path, text, hist = write_ledger(rng, i)
        ledgers.append((path, text))
        for k, n in hist['directives'].items():
            dir_hist[k] = dir_hist.get(k, 0) + n
        for k, n in hist['features'].items():
            feat_hist[k] = feat_hist.get(k, 0) + n
    load_errors = 0
    type_hist = {}
    for path, _ in ledgers:
        entries, errors, _ = loader.load_file(path)
        load_errors += len(errors)
        for e in entries:
            type_hist[type(e).__name__] = type_hist.get(type(e).__name__, 0) + 1
    cov['ledgers'] = {'count': n_ledgers, 'load_errors': load_errors, 'loaded_directive_types': dict(sorted(type_hist.items())),
                      'generated_directives': dir_hist, 'features': dict(sorted(feat_hist.items()))}

    # B / C: split each ledger's statements into chunks so that the pool is busy
    per_ledger = 200 if thorough else 56
    jobs = []
    for li, (path, text) in enumerate(ledgers):
        specs = ledger_specs(rng, per_ledger, thorough, li)
        for k in range(0, len(specs), 6):                       # (fix-F) 6 per job: >= 64 jobs, so that core.pmap really forks
            jobs.append((path, specs[k:k + 6]))
    results = core.pmap(check_ledger_statements, jobs, chunksize=1)
    texts = dict(ledgers)
    status_hist, class_hist, kinds = {}, {}, {}
    n_b = n_oracle = n_rows = n_params = 0
    key_lists = []
    for (path, _), recs in zip(jobs, results):
        for r in recs:
            n_b += 1
            spec = _hashable(r['spec'])
            status_hist[r.get('status')] = status_hist.get(r.get('status'), 0) + 1
            class_hist[spec_class(spec)] = class_hist.get(spec_class(spec), 0) + 1
            n_oracle += 1 if r.get('oracle') else 0
            n_params += 1 if r.get('with_params') else 0
            n_rows += r.get('rows') or 0
            if r.get('keys') is not None:
                key_lists.append((path, spec, r['keys']))
            for kind, why in r['problems']:
                kinds.setdefault(kind, []).append((path, spec, why))
    core.log(f'[C14] B statements: {n_b}, {time.time() - t0:.1f}s')
    # C: order of BALANCES rows, decided by the model's checker
    exprs = ['o_bool (sorted_keys ' + clist([f'({k[0]}, {cstr(k[1])})' for k in keys]) + ')' for _, _, keys in key_lists]
    sorted_res = core.coq_eval(f'c14c_{os.getpid()}', ['Base.PyValue', 'Model.Statements'], exprs, shard=100)
    for (path, spec, keys), ok in zip(key_lists, sorted_res):
        if ok != 1:
            kinds.setdefault('balances-order', []).append((path, spec, f'accounts not in (type, name) order: {[k[1] for k in keys]}'))
    for kind, items in kinds.items():
        path, spec, why = items[0]
        text = texts[path]
        if kind not in ('balances-order', 'harness-exception'):
            text = shrink_ledger(text, lambda t: stmt_fails(t, spec, kind), 40)
        violations.append(core.Violation(
            kind, f'{kind}: {spec!r}: {why[:600]} ({len(items)} statements)',
            {'kind': 'stmt', 'problem': kind, 'spec': list(spec), 'ledger': text, 'why': why},
            signature=f'{kind}:{spec_class(spec)}'))
    cov['B_statements'] = {'statements': n_b, 'rows_compared': n_rows, 'oracle_checked': n_oracle, 'executed_with_query_parameters': n_params,
                           'balances_order_checked': len(key_lists),
                           'status_histogram': {str(k): v_ for k, v_ in sorted(status_hist.items(), key=str)},
                           'class_histogram_size': len(class_hist),
                           'class_histogram_top': dict(sorted(class_hist.items(), key=lambda kv: -kv[1])[:25])}

    # D
    idx = list(range(len(PRINT_FROM)))
    jobs = []
    for path, _ in ledgers:
        for k in range(0, len(idx), 6):
            jobs.append((path, idx[k:k + 6], True))
    results = core.pmap(check_ledger_print, jobs, chunksize=1) if len(jobs) >= 64 else [check_ledger_print(j) for j in jobs]
    core.log(f'[C14] D print run: {time.time() - t0:.1f}s')
    flat = [(job[0], r) for job, recs in zip(jobs, results) for r in recs]
    judged = print_problems([r for _, r in flat])
    by_id = {id(r): path for path, r in flat}
    pkinds = {}
    n_d = n_sel = n_excl = n_loader = n_oracle_d = n_shell = n_has_account = n_pad_source = 0
    pstatus, vtypes, reload_err = {}, {}, {}
    for r, probs, excluded in judged:
        n_d += 1
        pstatus[r.get('status')] = pstatus.get(r.get('status'), 0) + 1
        n_sel += r.get('selected', 0)
        n_excl += excluded
        n_loader += 1 if 'loader' in r else 0
        n_oracle_d += 1 if 'oracle' in r else 0
        n_shell += 1 if r.get('shell') else 0
        if 'second_account_only' in r:
            n_has_account += 1
            n_pad_source += r['second_account_only']
        for t in r.get('value_types', []):
            vtypes[t] = vtypes.get(t, 0) + 1
        for k, _ in r.get('reload_errors', []):
            reload_err[k] = reload_err.get(k, 0) + 1
        for kind, why in probs:
            pkinds.setdefault(kind, []).append((by_id[id(r)], r, why))
    for kind, items in pkinds.items():
        path, r, why = items[0]
        fi = next(i for i, (fr, _) in enumerate(PRINT_FROM) if fr == r['from'])
        text = texts[path]
        if kind != 'harness-exception' and kind not in known:
            text = shrink_ledger(text, lambda t: print_fails(t, fi, kind), 24)
        violations.append(core.Violation(
            kind, f'{kind}: {r["query"]}: {why[:900]} ({len(items)} PRINT statements)',
            {'kind': 'print', 'problem': kind, 'from_index': fi, 'query': r['query'], 'ledger': text, 'why': why},
            signature=f'{kind}:{r["from"]}' if kind == 'print-status' else kind))
    cov['D_print'] = {'statements': n_d, 'status_histogram': {str(k): v_ for k, v_ in pstatus.items()},
                      'directives_selected_and_compared': n_sel, 'through_BQLShell_too': n_shell,
                      'with_independent_predicate': n_oracle_d, 'unfiltered_also_via_loader_load_string': n_loader,
                      'from_value_types': vtypes, 'reload_error_kinds': reload_err,
                      'entries_not_compared_booking_context': n_excl,
                      'has_account_filters': n_has_account,
                      'pad_directives_matched_by_source_account_only': n_pad_source,
                      'from_clauses': [fr for fr, _ in PRINT_FROM]}

    core.log(f'[C14] D judged/shrunk: {time.time() - t0:.1f}s')

    # E: statements repeated on one connection across re-attached ledgers
    ltexts = [text for _, text in ledgers]
    n_seq = 400 if thorough else 6 if smoke else 64          # core.pmap runs in parallel from 64 items on
    seqs = [gen_reattach_ops(rng, len(ltexts)) for _ in range(n_seq)] if len(ltexts) >= 2 else []
    ejobs = [(ltexts, ops) for ops in seqs]
    eres = core.pmap(check_reattach, ejobs, chunksize=1)
    ehist = {'statement_steps': 0, 'after_n_attaches': {}, 'clause_less': 0, 'oracle_checked': 0, 'status': {}, 'attach_kinds': {},
             'repeated_after_reattach': 0, 'rows_compared': 0}
    ekinds = {}
    for ops, recs in zip(seqs, eres):
        for op in ops:
            if op[0] == 'attach':
                ehist['attach_kinds'][op[2]] = ehist['attach_kinds'].get(op[2], 0) + 1
        seen_specs = {}
        for k, r in enumerate(recs):
            spec = _hashable(r['spec'])
            ehist['statement_steps'] += 1
            na = min(r['after_attaches'], 4)
            ehist['after_n_attaches'][na] = ehist['after_n_attaches'].get(na, 0) + 1
            ehist['clause_less'] += spec[-1] is None and spec[-2] is None if spec[0] == 'B' else spec[2] is None and spec[4] is None
            ehist['oracle_checked'] += bool(r.get('oracle'))
            ehist['status'][str(r.get('status'))] = ehist['status'].get(str(r.get('status')), 0) + 1
            ehist['rows_compared'] += r.get('rows') or 0
            if spec in seen_specs and seen_specs[spec] < r['after_attaches']:
                ehist['repeated_after_reattach'] += 1
            seen_specs.setdefault(spec, r['after_attaches'])
            for kind, why in r['problems']:
                ekinds.setdefault(kind, []).append((ops, k, spec, why))
    for kind, items in ekinds.items():
        ops, k, spec, why = min(items, key=lambda it: it[1])
        small = shrink_reattach(ltexts, ops, k, kind) if kind != 'harness-exception' else list(ops)
        used = sorted({op[1] for op in small if op[0] == 'attach'})
        remap = {li: j for j, li in enumerate(used)}
        small = [(op[0], remap[op[1]], op[2]) if op[0] == 'attach' else op for op in small]
        violations.append(core.Violation(
            kind, f'{kind}: one connection: {show_ops(small)}: the last statement: {why[:600]} ({len(items)} statement steps)',
            {'kind': 'reattach', 'problem': kind, 'ledgers': [ltexts[li] for li in used], 'ops': [list(op) for op in small], 'why': why},
            signature=f'{kind}:{spec_class(spec)}'))
    cov['E_reattach'] = {'sequences': len(seqs), **ehist, 'samples': [show_ops(ops) for ops in seqs[:2]]}
    cov['rule'] += ('; E: sequences on ONE connection - BALANCES / JOURNAL [AT f] (mostly without clauses; text and AST), the ledger '
                    'attached again as BQLShell.do_reload does (another file, or the same file rewritten), the same statements again - '
                    'every statement vs its SELECT expansion on that connection, vs a connection attached once to the current ledger, '
                    'vs sums / register computed from the directives')
    core.log(f'[C14] E re-attach: {ehist["statement_steps"]} statement steps, {time.time() - t0:.1f}s')

    # F: JOURNAL '<exact name of an opened account>' on ledgers with opened parents / children / look-alikes (drawn after every
    # other stream: the streams above see the random numbers they saw before)
    import random as _random
    rng_f = _random.Random(rng.getrandbits(64))
    n_fl = 8 if thorough else 1 if smoke else 3
    fjobs, fcls, ftexts = [], {}, {}
    for i in range(n_fl):
        path, text, _ = write_ledger(rng_f, 900 + i, NESTED_ACCOUNTS)
        ftexts[path] = text
        entries_f, _, _ = loader.load_file(path)
        _F_ENTRIES[path] = entries_f
        pairs = account_name_specs(rng_f, entries_f)
        if not thorough and len(pairs) > 40:
            keep = [pc for pc in pairs if pc[1] == 'contained'][:30]
            pairs = keep + [pc for pc in pairs if pc not in keep][:10]
        for spec, cls in pairs:
            fcls[(path, spec)] = cls
        specs_f = [spec for spec, _ in pairs]
        fjobs += [(path, [spec]) for spec in specs_f]           # one statement per job: core.pmap forks from 64 jobs on
    fres = core.pmap(check_account_journals, fjobs, chunksize=1)
    fhist = {'ledgers': n_fl, 'statements': 0, 'pattern_class': {}, 'status': {}, 'with_AT': 0, 'with_FROM': 0, 'via_api': 0,
             'oracle_checked': 0, 'rows_compared': 0, 'statements_whose_register_holds_other_accounts': 0,
             'postings_on_named_account': 0, 'postings_on_other_matching_accounts': 0, 'named_account_without_own_postings': 0}
    fkinds = {}
    fsamples = []
    for (path, specs_f), recs in zip(fjobs, fres):
        for spec, r in zip(specs_f, recs):
            cls = fcls[(path, spec)]
            fhist['statements'] += 1
            fhist['pattern_class'][cls] = fhist['pattern_class'].get(cls, 0) + 1
            fhist['status'][str(r.get('status'))] = fhist['status'].get(str(r.get('status')), 0) + 1
            fhist['with_AT'] += bool(spec[2] if spec[0] == 'JP' else spec[3])
            fhist['with_FROM'] += bool(spec[3] if spec[0] == 'JP' else spec[4])
            fhist['via_api'] += spec[1] == 'api'
            fhist['oracle_checked'] += bool(r.get('oracle'))
            fhist['rows_compared'] += r.get('rows') or 0
            fhist['postings_on_named_account'] += r['postings_on_named_account']
            fhist['postings_on_other_matching_accounts'] += r['postings_on_other_matching_accounts']
            fhist['statements_whose_register_holds_other_accounts'] += r['postings_on_other_matching_accounts'] > 0
            fhist['named_account_without_own_postings'] += cls == 'contained' and r['postings_on_named_account'] == 0
            if len(fsamples) < 4 and cls == 'contained' and spec[0] == 'J' and spec[1] == 'text':
                fsamples.append(journal_text(spec[2], spec[3], spec[4]))
            for kind, why in r['problems']:
                fkinds.setdefault(kind, []).append((path, spec, why, cls))
    for kind, items in fkinds.items():
        path, spec, why, cls = items[0]
        text = ftexts[path]
        if kind != 'harness-exception':
            text = shrink_ledger(text, lambda t: stmt_fails(t, spec, kind), 40)
        violations.append(core.Violation(
            kind, f'{kind}: JOURNAL pattern = {"the exact name of an opened account" if cls in ("contained", "leaf") else cls + " respelling of an account name"}: '
                  f'{spec!r}: {why[:600]} ({len(items)} statements)',
            {'kind': 'stmt', 'problem': kind, 'spec': list(spec), 'ledger': text, 'why': why},
            signature=f'{kind}:account-name:{cls}:{spec_class(spec)}'))
    cov['F_account_name_journals'] = {**fhist, 'samples': fsamples}
    cov['rule'] += ('; F: JOURNAL whose pattern is the exact name of an account opened in the ledger (parents with sub-accounts, look-alikes, '
                    'leaves; lower-cased / anchored / colon-terminated respellings), with AT and FROM variants, text and AST: vs the SELECT '
                    'expansion with the pattern as a parameter and vs the register computed from the directives')
    core.log(f'[C14] F account-name journals: {fhist["statements"]} statements, {time.time() - t0:.1f}s')
    for pth in ftexts:
        if os.path.exists(pth):
            os.unlink(pth)
    cov['evaluations'] = n_a + n_b + n_d + len(key_lists) + ehist['statement_steps'] + fhist['statements']
    cov['distinct_nontrivial'] = cov['A_transform']['distinct_results'] + len(class_hist) + n_d
    cov['traces_validated_against_impl'] = n_a + n_d
    cov['samples'] = cov['A_transform'].pop('samples')
    for f in os.listdir(TMP):
        if f.startswith('ledger-'):
            os.unlink(os.path.join(TMP, f))
    if not os.environ.get('C14_TMP'):
        import shutil
        shutil.rmtree(TMP, ignore_errors=True)
    return {'coverage': cov, 'violations': violations}
