"""Translator: Python source of selected beanquery functions -> PyMini terms (coq/Model/PyMini.v) in coq/Gen/Src*.v.

The source is taken from the IMPORTED objects (inspect.getsource on the live function), parsed with `ast` and
translated node by node.  The translator fails closed: any construct outside the PyMini fragment raises
Untranslatable, which the caller reports as a broken tie (translator-failed), never as a silent omission.

Names that are neither parameters nor locals are resolved against the function's closure, globals and builtins:
constants (None/bool/int/str) are inlined, `len` becomes XLen, everything else becomes an opaque callable
`XConst (PRef k)`; the table k -> dotted name is emitted next to the definitions (`refs`), so the proofs can state
what each opaque callable is assumed to do."""
import ast
import builtins
import decimal
import inspect
import textwrap


class Untranslatable(Exception):
    pass


def gstr(s):
    return '"' + s.replace('"', '""') + '"'


def glist(items):
    return '[' + '; '.join(items) + ']'


def gopt(x):
    return 'None' if x is None else f'(Some {x})'


def gz(n):
    return f'({n})' if n < 0 else str(n)


CMP = {ast.Is: 'CIs', ast.IsNot: 'CIsNot', ast.Eq: 'CEq', ast.NotEq: 'CNe', ast.Lt: 'CLt', ast.LtE: 'CLe',
       ast.Gt: 'CGt', ast.GtE: 'CGe', ast.In: 'CIn', ast.NotIn: 'CNotIn'}
BOP = {ast.Add: 'OAdd', ast.Sub: 'OSub', ast.Mult: 'OMul', ast.FloorDiv: 'OFloorDiv', ast.Mod: 'OMod',
       ast.Div: 'ODiv'}
# methods that change their receiver: translated to XMethod (receiver written back); every other method call is
# XCallMethod (pure, through the primitives oracle as "call:<name>")
MUTATORS = {'append', 'extend', 'add', 'pop', 'sort', 'reverse', 'clear', 'insert', 'remove', 'update',
            'setdefault', 'discard', 'popitem'}
EXC_KINDS = {'TypeError': 1, 'IndexError': 2, 'NameError': 3, 'ZeroDivisionError': 4, 'ValueError': 5,
             'OverflowError': 6, 'AttributeError': 7, 'KeyError': 8, 'InvalidOperation': 9}


class Refs:
    """Opaque callables, numbered in order of first use across one generated file."""

    def __init__(self):
        self.names = []

    def ref(self, name):
        if name not in self.names:
            self.names.append(name)
        return self.names.index(name)


class FuncTranslator:
    def __init__(self, func, refs, self_name='self', prims=()):
        self.func = func
        self.refs = refs
        self.self_name = self_name
        self.prims = set(prims)   # qualified names of library functions translated to XPrim
        src = textwrap.dedent(inspect.getsource(func))
        tree = ast.parse(src)
        fd = tree.body[0]
        if not isinstance(fd, ast.FunctionDef):
            raise Untranslatable(f'not a plain function: {ast.dump(fd)[:80]}')
        self.fd = fd
        a = fd.args
        if a.vararg or a.kwarg or a.kwonlyargs or a.posonlyargs:
            raise Untranslatable('only positional parameters are supported')
        self.params = [x.arg for x in a.args]
        self.defaults = a.defaults
        self.locals = set(self.params)
        for n in ast.walk(fd):
            if isinstance(n, ast.Name) and isinstance(n.ctx, ast.Store):
                self.locals.add(n.id)
        cv = inspect.getclosurevars(func)
        self.free = dict(cv.builtins)
        self.free.update(cv.globals)
        self.free.update(cv.nonlocals)
        self.nonlocals = set(cv.nonlocals)

    # ------------------------------------------------------------ constants
    def const(self, v):
        if v is None:
            return '(XConst PNone)'
        if v is True or v is False:
            return f'(XConst (PBool {"true" if v else "false"}))'
        if isinstance(v, int):
            return f'(XConst (PInt {gz(v)}))'
        if isinstance(v, str):
            return '(XConst (PV (VStr ' + glist([str(ord(c)) for c in v]) + ')))'
        raise Untranslatable(f'constant {v!r}')

    def dotted(self, e):
        """a.b.c of a non-local base name -> 'a.b.c' (resolved statically), else None"""
        parts = []
        while isinstance(e, ast.Attribute):
            parts.append(e.attr)
            e = e.value
        if isinstance(e, ast.Name) and e.id not in self.locals:
            parts.append(e.id)
            return '.'.join(reversed(parts))
        return None

    def resolve_free(self, name):
        """value of a free (closure/global/builtin) name"""
        if name in self.free:
            return self.free[name]
        if hasattr(builtins, name):
            return getattr(builtins, name)
        raise Untranslatable(f'unresolved name {name}')

    def ident_of(self, name, dotted):
        obj = self.resolve_free(name)
        for a in dotted.split('.')[1:]:
            obj = getattr(obj, a)
        mod = getattr(obj, '__module__', None)
        qn = getattr(obj, '__qualname__', None) or getattr(obj, '__name__', None)
        if inspect.ismodule(obj):
            return obj.__name__
        if mod and qn:
            return f'{mod}.{qn}'
        return dotted

    def free_name(self, name, dotted):
        base = self.resolve_free(name)
        obj = base
        for a in dotted.split('.')[1:]:
            obj = getattr(obj, a)
        if obj is None or isinstance(obj, (bool, int, str)):
            return self.const(obj)
        if isinstance(obj, decimal.Decimal) and obj.is_finite():
            # a module-level Decimal constant (beancount.core.number.ZERO, ...): inlined (bld-env, additive)
            sign, digits, exp = obj.as_tuple()
            coef = int(''.join(map(str, digits)) or '0')
            return (f'(XConst (PV (VDec (mkdec {"true" if sign else "false"} {gz(coef)} {gz(exp)}))))')
        if name in self.nonlocals and '.' not in dotted:
            # a callable captured by the enclosing decorator (the wrapped function): abstract, one ref per variable
            return f'(XConst (PRef {self.refs.ref("closure:" + name)}))'
        # an opaque callable / class / module member, identified by where it really lives
        mod = getattr(obj, '__module__', None)
        qn = getattr(obj, '__qualname__', None) or getattr(obj, '__name__', None)
        if inspect.ismodule(obj):
            ident = obj.__name__
        elif mod and qn:
            ident = f'{mod}.{qn}'
        else:
            ident = dotted
        return f'(XConst (PRef {self.refs.ref(ident)}))'

    # ------------------------------------------------------------ targets
    def target(self, t):
        if isinstance(t, ast.Name):
            return f'(TName {gstr(t.id)})'
        if isinstance(t, ast.Attribute) and isinstance(t.value, ast.Name) and t.value.id == self.self_name:
            return f'(TSelf {gstr(t.attr)})'
        raise Untranslatable(f'assignment target {ast.dump(t)[:80]}')

    # ------------------------------------------------------------ expressions
    def expr(self, e):
        if isinstance(e, ast.Constant):
            return self.const(e.value)
        if isinstance(e, ast.Name):
            if e.id in self.locals:
                return f'(XName {gstr(e.id)})'
            return self.free_name(e.id, e.id)
        if isinstance(e, ast.Attribute):
            d = self.dotted(e)
            if d is not None:
                return self.free_name(d.split('.')[0], d)
            return f'(XAttr {self.expr(e.value)} {gstr(e.attr)})'
        if isinstance(e, ast.Call):
            kwnames = [k.arg for k in e.keywords]
            if None in kwnames:
                raise Untranslatable('**kwargs')
            kwsuffix = (':' + ','.join(kwnames)) if kwnames else ''
            kwargs = [self.expr(k.value) for k in e.keywords]
            # a library function the caller declared as primitive
            d = self.dotted(e.func) if isinstance(e.func, (ast.Attribute, ast.Name)) else None
            if isinstance(e.func, ast.Name) and e.func.id in self.locals:
                d = None
            if d is not None:
                try:
                    ident = self.ident_of(d.split('.')[0], d)
                except (Untranslatable, AttributeError):
                    ident = None
                if ident in self.prims:
                    if any(isinstance(a, ast.Starred) for a in e.args):
                        raise Untranslatable('*args to a primitive')
                    return f'(XPrim {gstr(ident + kwsuffix)} {glist([self.expr(a) for a in e.args] + kwargs)})'
            if isinstance(e.func, ast.Attribute) and self.dotted(e.func) is None \
                    and not any(isinstance(a, ast.Starred) for a in e.args):
                try:
                    tgt = self.target(e.func.value)
                except Untranslatable:
                    tgt = None
                is_self = isinstance(e.func.value, ast.Name) and e.func.value.id == self.self_name
                if tgt is not None and not is_self and e.func.attr in MUTATORS:
                    return (f'(XMethod {tgt} {gstr(e.func.attr + kwsuffix)} '
                            f'{glist([self.expr(a) for a in e.args] + kwargs)})')
                if not is_self and e.func.attr not in MUTATORS:
                    return (f'(XCallMethod {self.expr(e.func.value)} {gstr(e.func.attr + kwsuffix)} '
                            f'{glist([self.expr(a) for a in e.args] + kwargs)})')
            if e.keywords:
                raise Untranslatable('keyword arguments')
            if isinstance(e.func, ast.Name) and e.func.id == 'len' and e.func.id not in self.locals \
                    and self.resolve_free('len') is len and len(e.args) == 1:
                return f'(XLen {self.expr(e.args[0])})'
            args, star = [], None
            for i, a in enumerate(e.args):
                if isinstance(a, ast.Starred):
                    if i != len(e.args) - 1:
                        raise Untranslatable('*args not in last position')
                    star = self.expr(a.value)
                else:
                    args.append(self.expr(a))
            return f'(XCall {self.expr(e.func)} {glist(args)} {gopt(star)})'
        if isinstance(e, ast.Compare):
            rest = [f'({CMP[type(op)]}, {self.expr(c)})' if type(op) in CMP else self.bad(op)
                    for op, c in zip(e.ops, e.comparators)]
            return f'(XCompare {self.expr(e.left)} {glist(rest)})'
        if isinstance(e, ast.UnaryOp) and isinstance(e.op, ast.Not):
            return f'(XNot {self.expr(e.operand)})'
        if isinstance(e, ast.UnaryOp) and isinstance(e.op, ast.USub) and isinstance(e.operand, ast.Constant) \
                and isinstance(e.operand.value, int):
            return self.const(-e.operand.value)
        if isinstance(e, ast.UnaryOp) and isinstance(e.op, ast.USub):
            return f'(XNeg {self.expr(e.operand)})'
        if isinstance(e, ast.BinOp) and type(e.op) in BOP:
            return f'(XBin {BOP[type(e.op)]} {self.expr(e.left)} {self.expr(e.right)})'
        if isinstance(e, ast.IfExp):
            return f'(XIfExp {self.expr(e.test)} {self.expr(e.body)} {self.expr(e.orelse)})'
        if isinstance(e, ast.Subscript) and isinstance(e.slice, ast.Slice):
            sl = e.slice
            if sl.step is not None:
                raise Untranslatable('slice step')
            lo = None if sl.lower is None else self.expr(sl.lower)
            hi = None if sl.upper is None else self.expr(sl.upper)
            return f'(XSlice {self.expr(e.value)} {gopt(lo)} {gopt(hi)})'
        if isinstance(e, (ast.ListComp, ast.GeneratorExp)):
            # a generator expression is translated as the list of its items (only admitted where it is consumed
            # once, in order: as argument of a primitive or as the value of a name iterated later)
            if len(e.generators) != 1:
                raise Untranslatable('nested comprehension')
            g = e.generators[0]
            if len(g.ifs) > 1 or g.is_async or not isinstance(g.target, ast.Name):
                raise Untranslatable('comprehension with several conditions / pattern')
            self.locals.add(g.target.id)
            cond = gopt(self.expr(g.ifs[0]) if g.ifs else None)
            return f'(XListComp {self.expr(e.elt)} {gstr(g.target.id)} {self.expr(g.iter)} {cond})'
        if isinstance(e, ast.Tuple):
            return f'(XTuple {glist([self.expr(x) for x in e.elts])})'
        if isinstance(e, ast.Subscript) and not isinstance(e.slice, ast.Slice):
            return f'(XIndex {self.expr(e.value)} {self.expr(e.slice)})'
        if isinstance(e, ast.BoolOp):
            return (f'(XBoolOp {"true" if isinstance(e.op, ast.And) else "false"} '
                    f'{glist([self.expr(x) for x in e.values])})')
        if isinstance(e, ast.List):
            return f'(XList {glist([self.expr(x) for x in e.elts])})'
        raise Untranslatable(f'expression {ast.dump(e)[:100]}')

    def bad(self, node):
        raise Untranslatable(f'operator {type(node).__name__}')

    # ------------------------------------------------------------ statements
    def block(self, body):
        out = []
        for i, s in enumerate(body):
            if i == 0 and isinstance(s, ast.Expr) and isinstance(s.value, ast.Constant) \
                    and isinstance(s.value.value, str):
                continue  # docstring
            out.append(self.stmt(s))
        return glist(out)

    def stmt(self, s):
        if isinstance(s, ast.Assign):
            if len(s.targets) != 1:
                raise Untranslatable('chained assignment')
            if isinstance(s.targets[0], ast.Tuple):
                return f'(SUnpack {glist([self.target(t) for t in s.targets[0].elts])} {self.expr(s.value)})'
            return f'(SAssign {self.target(s.targets[0])} {self.expr(s.value)})'
        if isinstance(s, ast.AugAssign) and type(s.op) in BOP:
            return f'(SAug {self.target(s.target)} {BOP[type(s.op)]} {self.expr(s.value)})'
        if isinstance(s, ast.If):
            return f'(SIf {self.expr(s.test)} {self.block(s.body)} {self.block(s.orelse)})'
        if isinstance(s, ast.For) and isinstance(s.target, ast.Tuple) and not s.orelse \
                and all(isinstance(t, ast.Name) for t in s.target.elts):
            return (f'(SForUnpack {glist([gstr(t.id) for t in s.target.elts])} {self.expr(s.iter)} '
                    f'{self.block(s.body)})')
        if isinstance(s, ast.Expr) and isinstance(s.value, ast.Yield) and s.value.value is not None:
            return f'(SYield {self.expr(s.value.value)})'
        if isinstance(s, ast.For):
            if s.orelse or not isinstance(s.target, ast.Name):
                raise Untranslatable('for-else / pattern target')
            return f'(SFor {gstr(s.target.id)} {self.expr(s.iter)} {self.block(s.body)})'
        if isinstance(s, ast.Return):
            return f'(SReturn {gopt(None if s.value is None else self.expr(s.value))})'
        if isinstance(s, ast.Expr):
            return f'(SExpr {self.expr(s.value)})'
        if isinstance(s, ast.Pass):
            return 'SPass'
        if isinstance(s, ast.Try) and not s.orelse and not s.finalbody and len(s.handlers) == 1 \
                and s.handlers[0].name is None:
            h = s.handlers[0]
            if h.type is None:
                kinds = []
            else:
                names = h.type.elts if isinstance(h.type, ast.Tuple) else [h.type]
                kinds = []
                for n in names:
                    nm = n.attr if isinstance(n, ast.Attribute) else getattr(n, 'id', None)
                    if nm == 'Exception':
                        kinds = []
                        break
                    if nm not in EXC_KINDS:
                        raise Untranslatable(f'exception class {nm}')
                    kinds.append(str(EXC_KINDS[nm]))
            return f'(STry {self.block(s.body)} {glist(kinds)} {self.block(h.body)})'
        raise Untranslatable(f'statement {ast.dump(s)[:100]}')

    def translate(self):
        if self.defaults:
            # defaults are recorded separately: the caller of call_method passes every argument
            pass
        body = self.block(self.fd.body)
        gen = any(isinstance(n, (ast.Yield, ast.YieldFrom)) for n in ast.walk(self.fd))
        return ('{| f_params := ' + glist([gstr(p) for p in self.params]) + ';\n     f_body := ' + body +
                ';\n     f_gen := ' + ('true' if gen else 'false') + ' |}',
                [self.const_value(d) for d in self.defaults])

    def const_value(self, d):
        if isinstance(d, ast.Constant):
            return self.const(d.value)
        raise Untranslatable('non-constant default')


HEADER = '''(* GENERATED on every run by harness/vf/py2mini.py from the source of the imported beanquery objects
   (inspect.getsource + ast).  Do not edit.  One PyMini term per translated function; `refs` names the opaque
   callables the bodies mention (XConst (PRef k)). *)
From Coq Require Import String ZArith List.
Import ListNotations.
From Verif Require Import Base.PyValue Model.PyMini.
Open Scope string_scope.
Open Scope Z_scope.

'''


def render(defs, refs):
    """defs: list of (coq_name, origin, term, defaults)"""
    out = [HEADER]
    for name, origin, term, defaults in defs:
        out.append(f'(* {origin} *)\nDefinition {name} : fdef :=\n  {term}.\n')
        if defaults:
            out.append(f'Definition {name}_defaults : list expr := {glist(defaults)}.\n')
        out.append('\n')
    out.append('Definition refs : list (nat * string) :=\n  ' +
               glist([f'({i}%nat, {gstr(n)})' for i, n in enumerate(refs.names)]) + '.\n')
    return ''.join(out)


def translate_all(spec, prims=()):
    """spec: list of (coq_name, function object, origin text). Returns (text, info)."""
    refs = Refs()
    defs = []
    info = {}
    for name, fn, origin in spec:
        tr = FuncTranslator(fn, refs, prims=prims)
        term, defaults = tr.translate()
        defs.append((name, origin, term, defaults))
        info[name] = {'origin': origin, 'lines': len(inspect.getsource(fn).splitlines())}
    return render(defs, refs), info
