"""Group `env2` of the translator-based tie (see PYMINI.md): `date_bin(relativedelta, date, date)` of
beanquery/query_env.py (C18) - bld-env2.

The function is taken from the live registry (src_env.registered_plain_functions: the `func` cell of the NULL-strict wrapper
registered under BQL `date_bin` with a relativedelta first argument) and translated WHOLE into coq/Gen/SrcEnv2.v on every
run.  PyMini has no `while`; two desugaring rules on top of py2mini.FuncTranslator (both fail closed):

W1  `while True: B` (constant True test, no else, no break / continue anywhere in B) becomes the FUELLED loop
        for $while in $fuel: B
        <primitive "while:exhausted">          (no primitive semantics gives it a value: the run is Stuck)
    where `$fuel` is an EXTRA LAST PARAMETER of the translated function: a list whose length is the number of passes the
    loop may make.  A pass that returns leaves the loop (PyMini's SFor propagates Ret), a pass that falls through starts the
    next one, exactly as `while True` does; only running out of fuel differs, and that is a visible Stuck, never a value.
    Proofs/SrcEnvDateBin.v proves the tie for EVERY fuel and that the model's own bound suffices.
W2  a chained assignment `a = b = e` with e a local name or a constant becomes `a = e; b = e` (Python's order).
"""
import ast
import inspect

from . import py2mini
from .py2mini import Untranslatable, glist, gstr

PRIMS = ('datetime.timedelta',)
FUEL = '$fuel'


class WhileTranslator(py2mini.FuncTranslator):
    def __init__(self, func, refs, prims=()):
        super().__init__(func, refs, prims=prims)
        self.n_while = 0
        if FUEL in self.locals:
            raise Untranslatable('the function has a local named $fuel')
        self.params = self.params + [FUEL]
        self.locals.add(FUEL)

    def block(self, body):
        out = []
        for i, s in enumerate(body):
            if i == 0 and isinstance(s, ast.Expr) and isinstance(s.value, ast.Constant) \
                    and isinstance(s.value.value, str):
                continue  # docstring
            if isinstance(s, ast.While):
                # W1
                if not (isinstance(s.test, ast.Constant) and s.test.value is True) or s.orelse:
                    raise Untranslatable('while: only `while True:` without else')
                for n in ast.walk(s):
                    if isinstance(n, (ast.Break, ast.Continue)):
                        raise Untranslatable('while True: break / continue in the body')
                self.n_while += 1
                out.append(f'(SFor "$while" (XName {gstr(FUEL)}) {self.block(s.body)})')
                out.append('(SExpr (XPrim "while:exhausted" []))')
                continue
            if isinstance(s, ast.Assign) and len(s.targets) > 1:
                # W2
                if not all(isinstance(t, ast.Name) for t in s.targets):
                    raise Untranslatable('chained assignment to a non-name')
                v = s.value
                if not (isinstance(v, ast.Constant) or (isinstance(v, ast.Name) and v.id in self.locals
                                                        and v.id not in [t.id for t in s.targets])):
                    raise Untranslatable('chained assignment of a compound value')
                for t in s.targets:
                    out.append(f'(SAssign {self.target(t)} {self.expr(v)})')
                continue
            out.append(self.stmt(s))
        return glist(out)


def date_bin_function():
    """the plain function behind BQL date_bin(relativedelta, date, date), from the live registry"""
    from . import src_env
    reg = src_env.registered_plain_functions()
    if 'date_bin' not in reg:
        raise Untranslatable('query_env.date_bin is no longer registered as a BQL function')
    fn, bql = reg['date_bin']
    if bql != ['date_bin']:
        raise Untranslatable(f'query_env.date_bin is registered as {bql}')
    return fn


def spec_env2():
    fn = date_bin_function()
    return [('env2_date_bin', fn, 'beanquery.query_env.date_bin (BQL date_bin on a relativedelta stride); '
             'while True = for over the extra parameter $fuel, see harness/vf/src_env2.py')]


_last_report = {}


class Env2Translator:
    @staticmethod
    def translate_all(spec, prims=()):
        refs = py2mini.Refs()
        defs, info = [], {}
        nw = 0
        for coq_name, fn, origin in spec:
            tr = WhileTranslator(fn, refs, prims=prims)
            term, defaults = tr.translate()
            nw += tr.n_while
            defs.append((coq_name, origin, term, defaults))
            info[coq_name] = {'origin': origin, 'lines': len(inspect.getsource(fn).splitlines())}
        _last_report.clear()
        _last_report.update({'src_env2_while_loops_fuelled': nw, 'src_env2_opaque_callables': list(refs.names)})
        return py2mini.render(defs, refs), info


def report():
    return dict(_last_report)
