"""Delta debugging on lists."""


def ddmin(items, fails, max_tests=400):
    """Return a (locally) minimal sublist on which `fails` is still true."""
    items = list(items)
    tests = 0
    n = 2
    while len(items) >= 2 and tests < max_tests:
        chunk = max(1, len(items) // n)
        reduced = False
        for start in range(0, len(items), chunk):
            cand = items[:start] + items[start + chunk:]
            tests += 1
            if cand and fails(cand):
                items = cand
                n = max(n - 1, 2)
                reduced = True
                break
        if not reduced:
            if chunk == 1:
                break
            n = min(len(items), n * 2)
    # single-element removal pass
    i = 0
    while i < len(items) and len(items) > 1 and tests < max_tests:
        cand = items[:i] + items[i + 1:]
        tests += 1
        if fails(cand):
            items = cand
        else:
            i += 1
    return items


def ddmin_batch(items, fails_many, max_rounds=40):
    """Like ddmin, but evaluates all candidates of a round with one call:
    fails_many(list_of_candidates) -> list of bools."""
    items = list(items)
    rounds = 0
    chunk = max(1, len(items) // 2)
    while len(items) >= 2 and rounds < max_rounds:
        rounds += 1
        cands = [items[:s] + items[s + chunk:] for s in range(0, len(items), chunk)]
        cands = [c for c in cands if c]
        if not cands:
            break
        res = fails_many(cands)
        hit = next((c for c, r in zip(cands, res) if r), None)
        if hit is not None:
            items = hit
            chunk = max(1, min(chunk, len(items) // 2))
        elif chunk == 1:
            break
        else:
            chunk = max(1, chunk // 2)
    return items
