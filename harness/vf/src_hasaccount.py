"""Group `hasaccount` of the translator-based tie (see PYMINI.md): `has_account(context, pattern)` of
beanquery/query_env.py, the function PRINT / SELECT `FROM has_account('..')` filters call (C14) - bld-env2.

The plain function is taken from the live registry (src_env.registered_plain_functions) and translated WHOLE into
coq/Gen/SrcHasAccount.v on every run.  Rules on top of py2mini.FuncTranslator (all fail closed):

H1  a call of a LOCAL name `f(a, ..)` (here: the bound method `search`) is the primitive "apply" on (f, a, ..);
H2  an int-valued enum member met as a constant (re.IGNORECASE) is its integer value, read from the live object;
    the generator expression inside any(..) is the list of its items (py2mini's rule: consumed once, in order; exact
    here because the items are calls of a pure total function on strings).
Primitives (semantics: coq/Model/PrimsHasAccount.v): re.compile, "attr:search", "apply", builtins.any,
beancount.core.getters.get_entry_accounts, "attr:entry"."""
import ast
import enum
import inspect

from . import py2mini
from .py2mini import Untranslatable, glist

PRIMS = ('re.compile', 'builtins.any', 'beancount.core.getters.get_entry_accounts')


class HasAccountTranslator(py2mini.FuncTranslator):
    def const(self, v):
        if isinstance(v, enum.IntFlag) or isinstance(v, enum.IntEnum):
            return super().const(int(v))          # H2
        return super().const(v)

    def expr(self, e):
        if isinstance(e, ast.Call) and isinstance(e.func, ast.Name) and e.func.id in self.locals \
                and e.func.id not in self.params:
            if e.keywords or any(isinstance(a, ast.Starred) for a in e.args):
                raise Untranslatable('call of a local with keyword / star arguments')
            return f'(XPrim "apply" {glist([self.expr(e.func)] + [self.expr(a) for a in e.args])})'   # H1
        return super().expr(e)


def spec_hasaccount():
    from . import src_env
    reg = src_env.registered_plain_functions()
    if 'has_account' not in reg:
        raise Untranslatable('query_env.has_account is no longer registered as a BQL function')
    fn, bql = reg['has_account']
    return [('envh_has_account', fn, f'beanquery.query_env.has_account (BQL {", ".join(bql)})')]


class HasAccountGroup:
    @staticmethod
    def translate_all(spec, prims=()):
        refs = py2mini.Refs()
        defs, info = [], {}
        for coq_name, fn, origin in spec:
            term, defaults = HasAccountTranslator(fn, refs, prims=prims).translate()
            defs.append((coq_name, origin, term, defaults))
            info[coq_name] = {'origin': origin, 'lines': len(inspect.getsource(fn).splitlines())}
        return py2mini.render(defs, refs), info


def register(groups):
    groups['hasaccount'] = ('SrcHasAccount.v', spec_hasaccount, {'translator': HasAccountGroup, 'prims': PRIMS})
