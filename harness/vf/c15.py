"""C15: PIVOT BY. Correspondence: aggregate queries grouped by two key columns, with and without PIVOT BY,
on the implementation; Model/Pivot.v applied (vm_compute) to the un-pivoted result must give the pivoted one
(header and rows); plus the un-pivot round trip checked on the implementation's output."""
import datetime
import decimal

from . import core, impl, values, exprgen
from .core import clist
from .exprgen import T_INT, T_DEC, T_STR, T_DATE, T_BOOL, PY
from .shrink import ddmin_batch

D = decimal.Decimal
ASSUMPTIONS = [
    'the un-pivoted aggregate result fed to the model is the implementation\'s own result of the same query without PIVOT BY (that part is C02/C03)',
    'column names are compared after rendering the model\'s (key, column) header entries with Python str() as the executor does',
    'translator tie (C15_source_pivot): the WHOLE function execute_query is translated (rules W1-W7 of src_exec.py: set comprehension, sorted(key=lambda) as "sorted_by", tuple patterns in comprehensions, isinstance, raise, the lambda `other` inlined at its calls - sound because the locals it captures are assigned once, which the translator checks); library semantics in coq/Model/PrimsExec.v: a set is its distinct members in first-occurrence order (CPython iterates in hash order; the only use sorts it by a key order whose ties are ==), f-strings are NOT interpreted (a name is the record of its parts), objects are the tuples of their fields (EvalQuery / EvalPivot / Column recognised by arity), out[lo:hi] = vals is "stmt:setslice"; execute_select and the class Column are opaque callables',
]
KEYTYPES = [T_INT, T_STR, T_DATE, T_DEC, T_BOOL]


UCOLS = [('a', T_INT), ('b', T_INT), ('x', T_INT)]


def gen_sub(rng, targets):
    """A nested SELECT compiled AFTER the outer targets: an IN-subquery over a second table #u in WHERE or HAVING.
    Its single output is named like an outer target (at whatever position that one has outside), or differently."""
    urows = [tuple(values.gen_value(rng, int, 0.1) for _ in UCOLS) for _ in range(rng.choice([0, 1, 3, 6, 6]))]
    outer_names = [t.split(' AS ')[-1] for t in targets]

    def inner():
        col = rng.choice(['a', 'b', 'x'])
        alias = rng.choice(['', '', ' AS ' + rng.choice(outer_names), ' AS ' + rng.choice(outer_names), ' AS zz'])
        shape = rng.randrange(4)
        if shape == 0:
            return f'SELECT {col}{alias} FROM #u'
        if shape == 1:
            return f'SELECT {col}{alias} FROM #u WHERE x IS NOT NULL'
        if shape == 2:
            k = rng.choice(outer_names + ['k'])
            return f'SELECT {k} FROM (SELECT b AS p, {col} AS {k}, a AS q FROM #u)'
        return f'SELECT DISTINCT {col}{alias} FROM #u ORDER BY 1'
    place = rng.choice(['where', 'where', 'where', 'having'])
    lhs = 'c' if place == 'where' else 'count(*)'
    conds = [f'{lhs} {rng.choice(["IN", "IN", "NOT IN"])} ({inner()})' for _ in range(rng.choice([1, 1, 2]))]
    text = rng.choice([' OR ', ' AND ']).join(conds)
    if place == 'where' and rng.random() < 0.5:
        text = f'c IS NULL OR {text}'
    return {'urows': urows, 'place': place, 'cond': text}


def gen_case(rng, allow_null=True, sub=False):
    ta, tb = rng.choice(KEYTYPES), rng.choice(KEYTYPES)
    cols = [('a', ta), ('b', tb), ('c', T_INT), ('d', T_DEC)]
    nrows = rng.choice([0, 1, 2, 3, 5, 8, 12])
    null_p = rng.choice([0.0, 0.0, 0.2]) if allow_null else 0.0
    dom_a = rng.sample(values.POOLS[PY[ta]], min(3, len(values.POOLS[PY[ta]])))
    dom_b = rng.sample(values.POOLS[PY[tb]], min(3, len(values.POOLS[PY[tb]])))
    rows = []
    for _ in range(nrows):
        a = None if rng.random() < null_p else rng.choice(dom_a)
        b = None if rng.random() < null_p else rng.choice(dom_b)
        rows.append((a, b, values.gen_value(rng, int, 0.2), values.gen_value(rng, D, 0.2)))
    aggs = rng.sample(['sum(c) AS s', 'count(*) AS n', 'max(d) AS m', 'first(c) AS f', 'count(d) AS k'], rng.randint(1, 3))
    targets = ['a', 'b'] + aggs
    rng.shuffle(targets)
    first, second = rng.choice([('a', 'b'), ('b', 'a')])
    byname = rng.random() < 0.5
    order = ''
    if rng.random() < 0.4:
        ks = []
        for _ in range(rng.randint(1, 3)):
            ks.append(f'{rng.randint(1, len(targets))}{rng.choice(["", " DESC", " ASC"])}')
        order = ' ORDER BY ' + ', '.join(ks)
    c = {'cols': cols, 'rows': rows, 'targets': targets, 'first': first, 'second': second, 'byname': byname, 'order': order}
    if sub:
        c['sub'] = gen_sub(rng, targets)
        # by name, by position, and mixed
        c['refs'] = rng.choice([['name', 'name'], ['name', 'name'], ['pos', 'pos'], ['name', 'pos'], ['pos', 'name']])
        c['byname'] = c['refs'] == ['name', 'name']
    return c


def base_statement(c):
    sub = c.get('sub')
    where = f' WHERE {sub["cond"]}' if sub and sub['place'] == 'where' else ''
    having = f' HAVING {sub["cond"]}' if sub and sub['place'] == 'having' else ''
    return f'SELECT {", ".join(c["targets"])} FROM #t{where} GROUP BY a, b{having}' + c.get('order', '')


def pivot_clause(c, refs):
    ps = [col if how == 'name' else str(c['targets'].index(col) + 1) for col, how in zip((c['first'], c['second']), refs)]
    return ' PIVOT BY ' + ', '.join(ps)


SPELLINGS = [['name', 'name'], ['pos', 'pos'], ['name', 'pos'], ['pos', 'name']]


def statement(c):
    refs = c.get('refs') or (['name', 'name'] if c['byname'] else ['pos', 'pos'])
    return base_statement(c) + pivot_clause(c, refs)


def run_impl(c):
    t = impl.make_table('t', [(n, PY[ty]) for n, ty in c['cols']], c['rows'])
    tabs = {'t': t}
    if c.get('sub'):
        tabs['u'] = impl.make_table('u', [(n, PY[ty]) for n, ty in UCOLS], [tuple(r) for r in c['sub']['urows']])
    conn = impl.connection(tabs)
    out = {}
    try:
        cur = conn.execute(base_statement(c))
        out['base_desc'] = [(d.name, d.datatype.__name__) for d in cur.description]
        base = cur.fetchall()
        out['base'] = values.canon_rows(base)
        out['keystr'] = {repr(values.canon(r[c['targets'].index(c['second'])])): str(r[c['targets'].index(c['second'])])
                         for r in base}
    except Exception as e:  # noqa: BLE001
        return {'error': 'base: ' + impl.exc_class(e) + ' ' + str(e)[:100]}
    try:
        cur = conn.execute(statement(c))
        out['desc'] = [(d.name, d.datatype.__name__) for d in cur.description]
        out['rows'] = values.canon_rows(cur.fetchall())
    except Exception as e:  # noqa: BLE001
        out['pivot_error'] = impl.exc_class(e) + ' ' + str(e)[:100]
    if c.get('sub'):
        # the property text: "given by name or position" - every spelling of the same two columns is the same query
        sp = {}
        mine = c.get('refs')
        for refs in SPELLINGS:
            if refs == mine:    # already executed above
                sp['/'.join(refs)] = [out['desc'], out['rows']] if 'desc' in out else ['raised', out['pivot_error']]
                continue
            try:
                cur = conn.execute(base_statement(c) + pivot_clause(c, refs))
                sp['/'.join(refs)] = [[(d.name, d.datatype.__name__) for d in cur.description], values.canon_rows(cur.fetchall())]
            except Exception as e:  # noqa: BLE001
                sp['/'.join(refs)] = ['raised', impl.exc_class(e) + ' ' + str(e)[:100]]
        out['spellings'] = sp
    return out


def canon_to_coq(cv):
    k = cv[0]
    if k == 0:
        return 'VNull'
    if k == 1:
        return f'(VBool {core.cbool(cv[1])})'
    if k == 2:
        return f'(VInt {core.cZ(cv[1])})'
    if k == 3:
        s, c, e = cv[1]
        return f'(VDec (mkdec {core.cbool(s)} {c} {core.cZ(e)}))'
    if k == 4:
        return '(VStr ' + clist([str(x) for x in cv[1]]) + ')'
    if k == 5:
        return f'(VDate {cv[1]})'
    raise ValueError(cv)


def model_expr(c, io):
    n = len(c['targets'])
    c1, c2 = c['targets'].index(c['first']), c['targets'].index(c['second'])
    rows = clist([clist([canon_to_coq(v) for v in r]) for r in io['base']])
    return f'pivot_out {n}%nat {c1}%nat {c2}%nat {rows}'


def expected(c, io, m):
    """Render the model's header with Python formatting, like the executor does."""
    hdr, rows = m
    bd = io['base_desc']
    c1, c2 = c['targets'].index(c['first']), c['targets'].index(c['second'])
    nother = len(bd) - 2
    names, types = [], []
    for h in hdr:
        if not h:
            names.append(f'{bd[c1][0]}/{bd[c2][0]}')
            types.append(bd[c1][1])
        else:
            key, col = h
            ks = io['keystr'][repr(key)]
            names.append(f'{ks}/{bd[col][0]}' if nother > 1 else ks)
            types.append(bd[col][1])
    return list(zip(names, types)), rows


def veq(x, y):
    """Python == on canonical values (1 == 1.0 == TRUE)."""
    from fractions import Fraction

    def num(v):
        if v[0] in (1, 2):
            return Fraction(v[1])
        if v[0] == 3:
            s, cf, e = v[1]
            return (-1 if s else 1) * Fraction(cf) * Fraction(10) ** e
        return None
    a, b = num(x), num(y)
    if a is not None and b is not None:
        return a == b
    return x == y


def unpivot_ok(c, io):
    """Implementation only: un-pivoting the pivoted rows reproduces the un-pivoted result (as a multiset),
    when (first, second) is unique in the un-pivoted result and no remaining value is NULL-only ambiguous."""
    c1, c2 = c['targets'].index(c['first']), c['targets'].index(c['second'])
    base = io['base']
    oc = [i for i in range(len(c['targets'])) if i not in (c1, c2)]
    nother = len(oc)
    if nother == 0:
        return True
    keys = []
    for r in base:
        if not any(veq(r[c2], k) for k in keys):
            keys.append(r[c2])
    # order of the key blocks is given by the description; recover it from the model-independent rule "ascending"
    # -> here we only check content: every base row appears in exactly the block of its key in the row of its first value
    piv = io['rows']
    nkeys = (len(io['desc']) - 1) // nother
    if nkeys != len(keys):
        return False
    # block order = header order; map header names back to keys by position using keystr
    hdr_keys = []
    for j in range(nkeys):
        name = io['desc'][1 + j * nother][0]
        ks = name.split('/')[0] if nother > 1 else name
        cands = [k for k in keys if io['keystr'][repr(k)] == ks]
        if not cands:
            return False
        hdr_keys.append(cands[0])
    got = []
    for pr in piv:
        for j, k in enumerate(hdr_keys):
            block = pr[1 + j * nother: 1 + (j + 1) * nother]
            match = [r for r in base if veq(r[c1], pr[0]) and veq(r[c2], k)]
            if match:
                if block != [match[0][i] for i in oc]:
                    return False
                got.append(1)
            elif any(v != [0] for v in block):
                return False
    firsts = []
    for r in base:
        if not any(veq(r[c1], f) for f in firsts):
            firsts.append(r[c1])
    return len(got) == len(base) and len(piv) == len(firsts)


IMPORTS = ['Base.PyValue', 'Model.Order', 'Model.Pivot']


def evaluate(cases):
    ios = core.pmap(run_impl, cases)
    idx = [i for i, io in enumerate(ios) if 'base' in io]
    ms = core.coq_eval('c15', IMPORTS, [model_expr(cases[i], ios[i]) for i in idx], shard=200)
    models = [None] * len(cases)
    for i, m in zip(idx, ms):
        models[i] = m
    return ios, models


def judge(c, io, m):
    if 'error' in io:
        return 'base query failed: ' + io['error']
    exp_desc, exp_rows = expected(c, io, m)
    if 'pivot_error' in io:
        return f'PIVOT BY raised {io["pivot_error"]}; expected description {exp_desc} rows {exp_rows}'
    if [tuple(d) for d in io['desc']] != exp_desc:
        return f'description {io["desc"]} differs from expected {exp_desc}'
    if io['rows'] != exp_rows:
        return f'rows {io["rows"]} differ from expected {exp_rows}'
    if not unpivot_ok(c, io):
        return 'un-pivoting the pivoted rows does not reproduce the un-pivoted result'
    sp = io.get('spellings')
    if sp:
        ref = sp['pos/pos']
        for k, v in sp.items():
            if _plain(v) != _plain(ref):
                return f'PIVOT BY by {k} gives {v}, by position gives {ref}: the spellings name the same two columns'
    return None


def _plain(x):
    import json
    return json.loads(json.dumps(x))


def shrink(c):
    def with_rows(rows):
        d = dict(c)
        d['rows'] = rows
        return d

    def fails(cands):
        cs = [with_rows(r) for r in cands]
        ios, ms = evaluate(cs)
        return [judge(x, io, m) is not None for x, io, m in zip(cs, ios, ms)]
    if len(c['rows']) >= 2:
        c = with_rows(ddmin_batch(c['rows'], fails))
    return c


def invalid_references():
    """Invalid PIVOT BY references must be rejected at compile time with CompilationError."""
    t = impl.make_table('t', [('a', int), ('b', int), ('c', int), ('d', int)], [(1, 1, 1, 1), (1, 2, 3, 4), (2, 1, 5, 6)])
    conn = impl.connection({'t': t})
    cases = [
        ('SELECT a, b, sum(c) AS s FROM #t GROUP BY a, b PIVOT BY 0, 2', 'position 0'),
        ('SELECT a, b, sum(c) AS s FROM #t GROUP BY a, b PIVOT BY 1, 4', 'position n+1'),
        ('SELECT a, sum(c) AS s FROM #t GROUP BY a, b PIVOT BY 1, 3', 'position of a hidden GROUP BY target'),
        ('SELECT a, sum(c) AS s FROM #t GROUP BY a, b PIVOT BY 3, 1', 'position of a hidden GROUP BY target (first)'),
        ('SELECT a, b, sum(c) AS s FROM #t GROUP BY a, b ORDER BY sum(d) PIVOT BY 1, 4', 'position of a hidden ORDER BY target'),
        ('SELECT a, b, sum(c) AS s FROM #t GROUP BY a, b HAVING count(*) > 0 PIVOT BY 1, 4', 'position of the hidden HAVING target'),
        ('SELECT a, b, sum(c) AS s FROM #t GROUP BY a, b PIVOT BY a, a', 'same column twice'),
        ('SELECT a, b, sum(c) AS s FROM #t GROUP BY a, b PIVOT BY 1, 1', 'same position twice'),
        ('SELECT a, b, sum(c) AS s FROM #t GROUP BY a, b PIVOT BY a, 1', 'name and position of the same column'),
        ('SELECT a, b, sum(c) AS s FROM #t GROUP BY a, b PIVOT BY 2, b', 'position and name of the same column'),
        ('SELECT a AS k, b, sum(c) AS s FROM #t GROUP BY k, b PIVOT BY k, 1', 'alias and position of the same column'),
        ('SELECT a, b, sum(c) AS s FROM #t GROUP BY a, b PIVOT BY a, s', 'second column not grouped (aggregate)'),
        ('SELECT a, b, sum(c) AS s FROM #t GROUP BY a, b PIVOT BY a, zz', 'unknown name'),
        ('SELECT a, b, c FROM #t PIVOT BY a, b', 'query does not aggregate'),
    ]
    bad = []
    for sql, what in cases:
        try:
            conn.execute(sql).fetchall()
            bad.append((sql, what, 'accepted and executed'))
        except impl.beanquery.CompilationError:
            pass
        except Exception as e:  # noqa: BLE001
            bad.append((sql, what, f'{type(e).__name__}: {e}'))
    # valid counterparts stay accepted
    for sql in ('SELECT a, b, sum(c) AS s FROM #t GROUP BY a, b PIVOT BY 1, 2', 'SELECT a, b, sum(c) AS s FROM #t GROUP BY a, b PIVOT BY b, a',
                'SELECT sum(c) AS s, b, a FROM #t GROUP BY a, b PIVOT BY 3, 2'):
        try:
            conn.execute(sql).fetchall()
        except Exception as e:  # noqa: BLE001
            bad.append((sql, 'valid reference', f'rejected: {type(e).__name__}: {e}'))
    for sql in ('SELECT a, b, sum(c) AS s FROM #t GROUP BY a, b PIVOT BY a, 2', 'SELECT a, b, sum(c) AS s FROM #t GROUP BY a, b PIVOT BY 1, b'):
        try:
            if conn.execute(sql).fetchall() != conn.execute('SELECT a, b, sum(c) AS s FROM #t GROUP BY a, b PIVOT BY 1, 2').fetchall():
                bad.append((sql, 'valid reference', 'differs from PIVOT BY 1, 2'))
        except Exception as e:  # noqa: BLE001
            bad.append((sql, 'valid reference', f'rejected: {type(e).__name__}: {e}'))
    return len(cases) + 5, bad


def run(tier, rng):
    n = 1200 if tier == 'quick' else 15000
    cases = [gen_case(rng) for _ in range(n)]
    nsub = 300 if tier == 'quick' else 4000
    cases += [gen_case(rng, sub=True) for _ in range(nsub)]
    ios, models = evaluate(cases)
    violations, seen = [], set()
    hist = {'nrows': {}, 'nkeys': {}, 'nother': {}, 'byname': 0, 'null_keys': 0, 'sparse': 0,
            'with_in_subquery': {'cases': 0, 'place': {}, 'refs': {}, 'subquery_output_named_like_outer_target': 0,
                                 'same_name_other_position': 0, 'base_rows_nonempty': 0, 'spellings_compared': 0}}
    distinct, nontrivial = set(), 0
    for c, io, m in zip(cases, ios, models):
        key = statement(c) + repr(c['rows'])
        if key in distinct:
            continue
        distinct.add(key)
        hist['nrows'][len(c['rows'])] = hist['nrows'].get(len(c['rows']), 0) + 1
        hist['nother'][len(c['targets']) - 2] = hist['nother'].get(len(c['targets']) - 2, 0) + 1
        hist['byname'] += c['byname']
        hist['null_keys'] += any(r[0] is None or r[1] is None for r in c['rows'])
        if c.get('sub'):
            hs = hist['with_in_subquery']
            hs['cases'] += 1
            hs['place'][c['sub']['place']] = hs['place'].get(c['sub']['place'], 0) + 1
            rk = '/'.join(c['refs'])
            hs['refs'][rk] = hs['refs'].get(rk, 0) + 1
            onames = [t.split(' AS ')[-1] for t in c['targets']]
            import re as _re
            inner_names = [(_re.findall(r'AS (\w+) FROM #u', q) or _re.findall(r'SELECT (?:DISTINCT )?(\w+) FROM', q) or ['?'])[0]
                           for q in _re.findall(r'\((SELECT .*?#u[^()]*\)?)\)', c['sub']['cond'])]
            hs['subquery_output_named_like_outer_target'] += any(nm in onames for nm in inner_names)
            hs['same_name_other_position'] += any(nm in onames and onames.index(nm) != 0 for nm in inner_names)
            hs['base_rows_nonempty'] += bool(io.get('base'))
            hs['spellings_compared'] += len(io.get('spellings', {}))
        if 'base' in io and m:
            nk = (len(m[0]) - 1) // max(1, len(c['targets']) - 2)
            hist['nkeys'][nk] = hist['nkeys'].get(nk, 0) + 1
            sparse = len(io['base']) < nk * len(m[1])
            hist['sparse'] += sparse
            if nk >= 2 and len(m[1]) >= 2:
                nontrivial += 1
        bad = judge(c, io, m)
        if bad and len(seen) < 3:
            small = shrink(c)
            sio, sm = evaluate([small])
            sig = 'pivot:' + statement(small) + ' rows=' + repr(small['rows'])
            if sig in seen:
                continue
            seen.add(sig)
            violations.append(core.Violation('pivot', f'{statement(small)} over rows {small["rows"]}: {judge(small, sio[0], sm[0])}',
                                             {'case': small, 'statement': statement(small), 'impl': sio[0], 'model': sm[0]},
                                             signature=sig))
    ninv, ibad = invalid_references()
    for sql, what, got in ibad[:3]:
        violations.append(core.Violation('pivot-reference', f'{sql} ({what}): {got}; expected CompilationError' if what != 'valid reference' else f'{sql}: {got}',
                                         {'sql': sql, 'what': what, 'got': got}, signature='pivot-reference:' + sql))
    cov = {
        'evaluations': len(cases) + ninv, 'distinct_nontrivial': nontrivial, 'invalid_reference_cases': ninv,
        'rule': 'random tables (two key columns of any type with 3-value domains, NULL keys in a third of the tables, int/decimal '
                'value columns, 0-12 rows) x SELECT <a, b, 1-3 aggregates in any order> GROUP BY a, b PIVOT BY (a,b)|(b,a) by name or '
                'position; the model pivots the implementation\'s un-pivoted result; non-trivial = distinct case with >=2 keys and >=2 pivoted rows; '
                'plus the same family with an IN / NOT IN (SELECT ... FROM #u) in WHERE or HAVING (a nested SELECT compiled after the outer '
                'targets; its output named like an outer target at another position, or differently), PIVOT BY by name, by position and mixed: '
                'all four spellings must give the same description and rows, and the model\'s pivot of the un-pivoted result',
        'samples': [statement(c) + ' -- rows ' + repr(c['rows']) for c in cases[:4] + cases[n:n + 3]],
        'traces_validated_against_impl': len(cases), 'histograms': hist,
    }
    return {'coverage': cov, 'violations': violations}


def replay(rec):
    c = rec['case']
    c['rows'] = [tuple(_unjson(v, t) for v, (_, t) in zip(r, c['cols'])) for r in c['rows']]
    ios, ms = evaluate([c])
    return judge(c, ios[0], ms[0]) is None


def _unjson(v, t):
    if v is None:
        return None
    if t == T_DEC:
        return D(v)
    if t == T_DATE:
        return datetime.date.fromisoformat(v)
    return v


def generate():
    """translator tie: regenerate coq/Gen/SrcExec.v (incl. the filling part of the PIVOT BY branch of execute_query) from
    the source of the imported code (py2mini, src_exec.py)"""
    from . import gen_src, src_exec
    out = dict(gen_src.generate('exec'))
    out['src_exec_outside_fragment'] = dict(getattr(src_exec.ExecTranslator, 'skipped', {}))
    return out
