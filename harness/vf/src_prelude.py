"""Group `prelude` of the translator-based tie (C07, bld-misc): the statements of `query_execute.execute_select` IN FRONT OF
the dispatch `if query.group_indexes is None:` - the description (`result_types`), the projection (`result_indexes`), the
grouping set, `order_spec`, `c_where`, the empty `rows` and the list of target evaluators - translated on every run into
coq/Gen/SrcPrelude.v with the rules W1-W7 of src_exec.WholeTranslator (a generator expression is the list of its items,
`for index, c_target in enumerate(..)` binds through `$t[0]` / `$t[1]`).  Owned by c07.py's generate hook, so that a change
of the prelude re-opens C07's obligations only (group `exec`, C03/C01/C02, translates the row loops and the tail and takes
`result_indexes` as a parameter of the tail).

Selected by STRUCTURE: everything before the one statement `if query.group_indexes is None:` (src_exec.select_execute_select
finds it).  Also checked structurally, because the proofs rely on it: `result_types` and `result_indexes` are each assigned
exactly once in the whole function (what the prelude computes is what the tail projects with and what is returned), and
the function's return statement is `return result_types, <something>`."""
import ast

from . import py2mini, src_exec
from .py2mini import Untranslatable

PRIMS = ('builtins.set', 'builtins.tuple', 'builtins.enumerate')
ONCE = ('result_types', 'result_indexes')


def _prelude(fd):
    disp, _tail, _n = src_exec.select_execute_select(fd)
    i = fd.body.index(disp)
    stmts = fd.body[:i]
    if not any(not (isinstance(s, ast.Expr) and isinstance(s.value, ast.Constant)) for s in stmts):
        raise Untranslatable('execute_select: no statement in front of the dispatch')
    for name in ONCE:
        stores = [n for n in ast.walk(fd) if isinstance(n, ast.Name) and n.id == name and isinstance(n.ctx, (ast.Store, ast.Del))]
        inside = [n for s in stmts for n in ast.walk(s) if isinstance(n, ast.Name) and n.id == name and isinstance(n.ctx, ast.Store)]
        if len(stores) != 1 or len(inside) != 1:
            raise Untranslatable(f'execute_select: `{name}` is not assigned exactly once, in front of the dispatch')
    ret = fd.body[-1]
    ok = (isinstance(ret, ast.Return) and isinstance(ret.value, ast.Tuple) and len(ret.value.elts) == 2
          and isinstance(ret.value.elts[0], ast.Name) and ret.value.elts[0].id == 'result_types')
    if not ok:
        raise Untranslatable('execute_select: the return statement is not `return result_types, <rows>`')
    return stmts


def spec_prelude():
    from beanquery import query_execute as qx

    def build(refs, prims):
        tr = src_exec.WholeTranslator(qx.execute_select, 'prelude', refs, prims)
        tr.fd.body = _prelude(tr.fd)
        return tr

    stmts = _prelude(src_exec._host_ast(qx.execute_select))
    nlines = sum(s.end_lineno - s.lineno + 1 for s in stmts)
    return [('exec_prelude', 'beanquery.query_execute.execute_select: the statements in front of `if query.group_indexes is None:`',
             build, nlines, True)]


def register(groups):
    groups['prelude'] = ('SrcPrelude.v', spec_prelude, {'translator': src_exec.ExecTranslator, 'prims': PRIMS})
