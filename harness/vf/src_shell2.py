"""Group `shell2` of the translator-based tie (C19, bld-misc): what a SELECT / JOURNAL / BALANCES statement prints in the shell.

Translated on every run into coq/Gen/SrcShell2.v:
* `shell_on_select`   = BQLShell.on_Select (execute, numberify WITH the display context when the setting is on, FORMATS[format],
                         render with dcontext and ALL settings as keywords, NotImplementedError for an unknown format);
* `render_text_adapter` / `render_csv_adapter` = the `render` functions of beanquery/render/text.py and csv.py - the values of the
                         FORMATS dict, found through the LIVE dict (`FORMATS['text']`, `FORMATS['csv']`): "(empty)" for an empty
                         text result, and which arguments reach query_render.render_text / render_csv;
* `formats_keys`       = the keys of the live FORMATS dict (data);
(`spec_do_run_named`: the statements of BQLShell.do_run from `name, *args = shlex.split(arg)` to the end translate with rules
 S5/S6 but are not in the group yet: no proof.)

Shell2Translator = src_api.ApiTranslator + the rules
S1 `with E as v: body`            -> v = XPrim "with:enter" [E]; body      (v is the opaque value __enter__ returns; __exit__ - flushing
                                     / closing the pager - is outside the model: trusted)
S2 f(a.., k=v.., **E), f a LOCAL  -> XPrim "apply:k..,**" ([f; a..; v..; E])  (keywords appended to the primitive's name, like py2mini
                                     does for library primitives; "**" marks the trailing mapping)
S3 G.get(x), G a module-level dict of the function's module -> XPrim "get:<module>.G" [x]
S4 def f(a.., *, k.., **kw)       -> parameters a.., k.., kw (keyword-only parameters without defaults and the keyword mapping are
                                     ordinary parameters: the caller's "apply" passes them in that order);
   g(a.., **kw), g opaque         -> XCall (PRef "<qualified name of g>:**") (a.. ++ [kw])
S5 x, *rest = E (statement)       -> $u = XPrim "unpack_star:1" [E]; x = $u[0]; rest = $u[1]   (ValueError when E is empty)
S6 self.m(a.., k=v..) as a statement, m in EFFECT_CALLS -> the event ("m:k..", (a.., v..)) appended to self.$events (rule R10's
                                     event log: running a statement is an effect of do_run, its output is on_Select's tie)
"""
import ast
import inspect
import textwrap

from . import py2mini, src_api
from .py2mini import Untranslatable, glist, gstr

PRIMS = src_api.PRIMS


class Shell2Translator(src_api.ApiTranslator):
    EFFECT_CALLS = {'execute'}

    def __init__(self, func, refs, self_name='self', prims=(), select=None):
        self.func = func
        self.refs = refs
        self.self_name = self_name
        self.prims = set(prims)
        fd = ast.parse(textwrap.dedent(inspect.getsource(func))).body[0]
        if not isinstance(fd, ast.FunctionDef):
            raise Untranslatable(f'not a plain function: {ast.dump(fd)[:80]}')
        if select is not None:
            fd.body = select(fd.body)
        self.fd = fd
        a = fd.args
        if a.vararg or a.posonlyargs or a.defaults or any(d is not None for d in a.kw_defaults):
            if a.vararg or a.posonlyargs or any(d is not None for d in a.kw_defaults):
                raise Untranslatable('only positional, keyword-only (without default) and ** parameters are supported')
        self.params = [x.arg for x in a.args] + [x.arg for x in a.kwonlyargs]                      # S4
        self.kwparam = None
        if a.kwarg is not None:
            if any(isinstance(n, ast.Name) and n.id == a.kwarg.arg for n in ast.walk(fd)):
                self.kwparam = a.kwarg.arg
                self.params.append(a.kwarg.arg)
        self.defaults = a.defaults
        self.locals = set(self.params)
        for n in ast.walk(fd):
            if isinstance(n, ast.Name) and isinstance(n.ctx, ast.Store):
                self.locals.add(n.id)
        cv = inspect.getclosurevars(func)
        self.free = dict(cv.builtins)
        self.free.update(cv.globals)
        self.free.update(cv.nonlocals)
        self.nonlocals = set(cv.nonlocals)
        self.alias = {}
        self.settyped = set()

    def expr(self, e):
        if isinstance(e, ast.Call):
            f = e.func
            star2 = [k for k in e.keywords if k.arg is None]
            named = [k for k in e.keywords if k.arg is not None]
            plain = not any(isinstance(x, ast.Starred) for x in e.args)
            if isinstance(f, ast.Name) and f.id in self.locals and e.keywords and plain and len(star2) <= 1 \
                    and (not star2 or e.keywords[-1] is star2[0]):                                   # S2
                name = 'apply:' + ','.join([k.arg for k in named] + (['**'] if star2 else []))
                args = [self.expr(f)] + [self.expr(x) for x in e.args] + [self.expr(k.value) for k in e.keywords]
                return f'(XPrim {gstr(name)} {glist(args)})'
            if isinstance(f, ast.Attribute) and f.attr == 'get' and isinstance(f.value, ast.Name) \
                    and f.value.id not in self.locals and len(e.args) == 1 and not e.keywords:       # S3
                obj = self.resolve_free(f.value.id)
                if isinstance(obj, dict) and getattr(inspect.getmodule(self.func), f.value.id, None) is obj:
                    mod = self.func.__module__
                    return f'(XPrim {gstr("get:" + mod + "." + f.value.id)} [{self.expr(e.args[0])}])'
            if len(star2) == 1 and not named and plain and isinstance(star2[0].value, ast.Name) \
                    and star2[0].value.id == self.kwparam and isinstance(f, (ast.Name, ast.Attribute)):  # S4
                d = self.dotted(f)
                if d is not None and not (isinstance(f, ast.Name) and f.id in self.locals):
                    ident = self.ident_of(d.split('.')[0], d)
                    k = self.refs.ref(f'{ident}:**')
                    args = [self.expr(x) for x in e.args] + [self.expr(star2[0].value)]
                    return f'(XCall (XConst (PRef {k})) {glist(args)} None)'
        return super().expr(e)

    def stmt(self, s):
        if isinstance(s, ast.With) and len(s.items) == 1 and isinstance(s.items[0].optional_vars, ast.Name):   # S1
            v = s.items[0].optional_vars.id
            head = f'(SAssign (TName {gstr(v)}) (XPrim "with:enter" [{self.expr(s.items[0].context_expr)}]))'
            body = self.block(s.body)
            return head + ('; ' + body[1:-1] if body != '[]' else '')
        if isinstance(s, ast.Assign) and len(s.targets) == 1 and isinstance(s.targets[0], ast.Tuple) \
                and len(s.targets[0].elts) == 2 and isinstance(s.targets[0].elts[0], ast.Name) \
                and isinstance(s.targets[0].elts[1], ast.Starred) and isinstance(s.targets[0].elts[1].value, ast.Name):  # S5
            x, rest = s.targets[0].elts[0].id, s.targets[0].elts[1].value.id
            self.locals.add('$u')
            return (f'(SAssign (TName "$u") (XPrim "unpack_star:1" [{self.expr(s.value)}])); '
                    f'(SAssign (TName {gstr(x)}) (XIndex (XName "$u") (XConst (PInt 0)))); '
                    f'(SAssign (TName {gstr(rest)}) (XIndex (XName "$u") (XConst (PInt 1))))')
        if isinstance(s, ast.Expr) and isinstance(s.value, ast.Call) and self.is_selfattr(s.value.func) \
                and s.value.func.attr in self.EFFECT_CALLS and all(k.arg for k in s.value.keywords) \
                and not any(isinstance(x, ast.Starred) for x in s.value.args):                        # S6
            c = s.value
            chan = c.func.attr + (':' + ','.join(k.arg for k in c.keywords) if c.keywords else '')
            payload = glist([self.expr(x) for x in c.args] + [self.expr(k.value) for k in c.keywords])
            return (f'(SExpr (XMethod (TSelf "$events") "append" '
                    f'[(XTuple [{self.strconst(chan)}; (XTuple {payload})])]))')
        return super().stmt(s)

    @staticmethod
    def translate_all(spec, prims=()):
        refs = py2mini.Refs()
        defs, info = [], {}
        for name, fn, origin, *rest in spec:
            tr = Shell2Translator(fn, refs, prims=prims, **(rest[0] if rest else {}))
            term, defaults = tr.translate()
            defs.append((name, origin + '; parameters: ' + ', '.join(tr.params), term, defaults))
            info[name] = {'origin': origin, 'lines': len(inspect.getsource(fn).splitlines())}
        return py2mini.render(defs, refs), info


def select_run_named(body):
    """the statements of do_run from `name, *args = shlex.split(arg)` (the first starred unpacking) to the end"""
    start = [i for i, s in enumerate(body) if isinstance(s, ast.Assign) and len(s.targets) == 1
             and isinstance(s.targets[0], ast.Tuple) and any(isinstance(t, ast.Starred) for t in s.targets[0].elts)]
    if len(start) != 1:
        raise Untranslatable('do_run: expected exactly one starred unpacking `name, *args = ...`')
    return body[start[0]:]


def formats():
    from beanquery import shell
    return shell.FORMATS


def spec_shell2():
    from beanquery import shell
    import dataclasses
    F = formats()
    fields = {f.name for f in dataclasses.fields(shell.Settings)}
    for k in ('text', 'csv'):
        if k not in F or not inspect.isfunction(F[k]):
            raise Untranslatable(f'FORMATS[{k!r}] is not a plain function')
        clash = fields & set(inspect.signature(F[k]).parameters)
        if clash:
            raise Untranslatable(f'FORMATS[{k!r}] has parameters named like Settings fields: {sorted(clash)}')
    return [
        ('shell_on_select', shell.BQLShell.on_Select, 'beanquery.shell.BQLShell.on_Select'),
        ('render_text_adapter', F['text'], f'beanquery.shell.FORMATS["text"] = {F["text"].__module__}.{F["text"].__qualname__}',
         {'self_name': None}),
        ('render_csv_adapter', F['csv'], f'beanquery.shell.FORMATS["csv"] = {F["csv"].__module__}.{F["csv"].__qualname__}',
         {'self_name': None}),
    ]


def spec_do_run_named():
    """NOT part of the group yet (bld-misc ran out of time for its proof): the named-query part of BQLShell.do_run translates
    with rules S5/S6 (try `Shell2Translator.translate_all(spec_do_run_named())`); Model/PrimsShell2.v already gives
    "unpack_star:1" and "call:get" their meaning; the statement to prove is Shell.do_run's `ShOk [name]` branch."""
    from beanquery import shell
    return [('shell_do_run_named', shell.BQLShell.do_run, 'beanquery.shell.BQLShell.do_run: from `name, *args = shlex.split(arg)` '
             'to the end', {'select': select_run_named})]


def extra_shell2():
    return ('\n(* the keys of the live beanquery.shell.FORMATS dict, in its order *)\n'
            'Definition formats_keys : list string :=\n  ' + glist([gstr(k) for k in formats()]) + '.\n')


def register(groups):
    groups['shell2'] = ('SrcShell2.v', spec_shell2, {'translator': Shell2Translator, 'prims': PRIMS, 'extra': extra_shell2})
