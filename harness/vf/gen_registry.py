"""Translator: introspects the IMPORTED beanquery (working tree) and regenerates
coq/Gen/Registry.v: the operator and function overload registries (order preserved:
lookup returns the first match), the type table (bases as types._bases computes them,
hashable / dict-like flags), structured types, and the Beancount table schemas.
Walks live objects only (no parsing of Python text)."""
import collections.abc
import os

from . import core, impl  # noqa: F401  (impl forces /repo on sys.path and imports query_env + sources)


def tname(t):
    from beanquery import types
    if t is types.Any:
        return 'any'
    if t is types.Asterisk:
        return '*'
    mod = getattr(t, '__module__', '')
    qn = getattr(t, '__qualname__', getattr(t, '__name__', str(t)))
    if mod in ('builtins', 'datetime', 'decimal'):
        return qn
    return f'{mod}.{qn}'


def cs(s):
    assert '"' not in s
    return '"' + s + '"'


def cl(items):
    return '[' + '; '.join(items) + ']'


def collect():
    from beanquery import query_compile as qc, types
    import beanquery
    seen = []

    def note(t):
        if t is types.Any:
            return
        if not any(t is u for u in seen):
            seen.append(t)
            if isinstance(t, type):
                for b in types._bases(t):
                    note(b)

    funcs = []
    for name, ovs in qc.FUNCTIONS.items():
        lst = []
        for f in ovs:
            if f.__dict__.get('__verif_harness__'):
                continue  # registered by the harness itself (c20 scheduler hook), not part of /repo
            for t in f.__intypes__:
                note(t)
            ops = [qc.EvalConstant(None, (object if t is types.Any else t)) for t in f.__intypes__]
            try:
                inst = f(None, ops)
                out = inst.dtype
            except Exception:  # noqa: BLE001  (coalesce-like / operand-dependent)
                out = None
            if out is not None:
                note(out)
            agg = issubclass(f, qc.EvalAggregator)
            lst.append((name, [tname(t) for t in f.__intypes__], tname(out) if out is not None else '?',
                        bool(getattr(f, 'pure', False)), agg))
        if lst or not ovs:
            funcs.append((name, lst))
    opers = []
    for op, ovs in qc.OPERATORS.items():
        lst = []
        for f in ovs:
            for t in f.__intypes__:
                note(t)
            ops = [qc.EvalConstant(None, (object if t is types.Any else t)) for t in f.__intypes__]
            try:
                out = f(*ops).dtype
            except Exception:  # noqa: BLE001
                out = None
            if out is not None:
                note(out)
            nullsafe = issubclass(f, qc.EvalUnaryOp) and not issubclass(f, qc.EvalUnaryOpSafe)
            lst.append((op.__name__, [tname(t) for t in f.__intypes__], tname(out) if out is not None else '?',
                        True, nullsafe))
        opers.append((op.__name__, lst))
    structs = []
    for sname, cls in types.TYPES.items():
        attrs = []
        for an, getter in cls.columns.items():
            note(getter.dtype)
            attrs.append((an, tname(getter.dtype)))
        note(cls)
        structs.append((tname(cls), sname, attrs))
    aliases = []
    for k, v in types.ALIASES.items():
        note(k)
        note(v)
        aliases.append((tname(k), tname(v)))
    # table schemas of a beancount connection on an empty ledger
    import tempfile
    with tempfile.NamedTemporaryFile('w', suffix='.beancount', delete=False) as f:
        f.write('option "title" "empty"\n')
        path = f.name
    try:
        conn = beanquery.connect('beancount:' + path)
    finally:
        os.unlink(path)
    tables = []
    for name, t in conn.tables.items():
        cols = []
        for cn, col in t.columns.items():
            note(col.dtype)
            cols.append((cn, tname(col.dtype)))
        tables.append((name, cols, list(t.wildcard_columns)))
    tys = []
    for t in seen:
        if isinstance(t, type):
            bases = [tname(b) for b in types._bases(t)]
            hashable = issubclass(t, collections.abc.Hashable)
            isdict = issubclass(t, dict)
            alias = types.ALIASES.get(t, t)
            structured = isinstance(alias, type) and issubclass(alias, types.Structure)
        else:
            bases, hashable, isdict, structured = [tname(t)], False, False, False
        tys.append((tname(t), bases, hashable, isdict, structured))
    tys.sort()
    return {'functions': funcs, 'operators': opers, 'structs': structs, 'aliases': aliases, 'tables': tables,
            'types': tys, 'map': sorted((tname(k), v) for k, v in types.MAP.items())}


def render(d, module_comment):
    b = core.cbool
    out = ['(* ' + module_comment + ' *)',
           'From Coq Require Import String List Bool.', 'Import ListNotations.', 'Open Scope string_scope.', '',
           '(* (name, [input types], output type, pure, aggregate) ; for operators the last flag is "null-aware (not NULL-strict)" *)',
           'Definition overload := (string * list string * string * bool * bool)%type.', '']

    def ov(o):
        n, ins, outt, pure, flag = o
        return f'({cs(n)}, {cl([cs(t) for t in ins])}, {cs(outt)}, {b(pure)}, {b(flag)})'
    out.append('Definition functions : list (string * list overload) :=\n  ' +
               cl([f'({cs(n)}, {cl([ov(o) for o in l])})' for n, l in d['functions']]).replace('); (', ');\n   (') + '.')
    out.append('')
    out.append('Definition operators : list (string * list overload) :=\n  ' +
               cl([f'({cs(n)}, {cl([ov(o) for o in l])})' for n, l in d['operators']]).replace('); (', ');\n   (') + '.')
    out.append('')
    out.append('(* (type, bases as types._bases returns them, hashable, dict-like (subscriptable), structured) *)')
    out.append('Definition types : list (string * list string * bool * bool * bool) :=\n  ' +
               cl([f'({cs(n)}, {cl([cs(x) for x in bs])}, {b(h)}, {b(dd)}, {b(st)})' for n, bs, h, dd, st in d['types']]
                  ).replace('); (', ');\n   (') + '.')
    out.append('')
    out.append('(* structured types: (python type, BQL name, [(attribute, type)]) *)')
    out.append('Definition structs : list (string * string * list (string * string)) :=\n  ' +
               cl([f'({cs(t)}, {cs(n)}, {cl([f"({cs(a)}, {cs(at)})" for a, at in attrs])})' for t, n, attrs in d['structs']]
                  ).replace('); (', ');\n   (') + '.')
    out.append('Definition aliases : list (string * string) := ' + cl([f'({cs(a)}, {cs(v)})' for a, v in d['aliases']]) + '.')
    out.append('Definition cast_names : list (string * string) := ' + cl([f'({cs(a)}, {cs(v)})' for a, v in d['map']]) + '.')
    out.append('')
    out.append('(* Beancount tables: (table, [(column, type)], wildcard columns) *)')
    out.append('Definition tables : list (string * list (string * string) * list string) :=\n  ' +
               cl([f'({cs(n)}, {cl([f"({cs(c)}, {cs(t)})" for c, t in cols])}, {cl([cs(w) for w in wc])})'
                   for n, cols, wc in d['tables']]).replace(')); (', '));\n   (') + '.')
    out.append('')
    return '\n'.join(out)


def generate():
    d = collect()
    text = render(d, 'GENERATED on every run by harness/vf/gen_registry.py from the imported beanquery objects. Do not edit.')
    path = os.path.join(core.COQ, 'Gen', 'Registry.v')
    changed = core.write_if_changed(path, text)
    nf = sum(len(l) for _, l in d['functions'])
    no = sum(len(l) for _, l in d['operators'])
    return {'registry_function_overloads': nf, 'registry_operator_overloads': no,
            'registry_types': len(d['types']), 'registry_tables': len(d['tables']), 'registry_regenerated': changed}


def snapshot():
    """Write the frozen copy the model and its theorems are stated over (run by hand when the
    model is deliberately brought up to date with the code)."""
    d = collect()
    text = render(d, 'SNAPSHOT of the registries the model was written against (copy of Gen/Registry.v made by '
                     'gen_registry.snapshot()). The obligation Gen.Registry = this file is re-checked on every run.')
    core.write_if_changed(os.path.join(core.COQ, 'Model', 'RegistrySnapshot.v'), text)


if __name__ == '__main__':
    import sys
    print(generate())
    if len(sys.argv) > 1 and sys.argv[1] == 'snapshot':
        snapshot()
