"""Group `exec` of the translator-based tie (see PYMINI.md): the executor core of beanquery/query_execute.py.

Translated on every run from the source of the IMPORTED module (inspect.getsource + ast), into coq/Gen/SrcExec.v:

* `uniquify` (whole function, a generator);
* the two inner functions `func` of `nullitemgetter` as synthetic functions whose captured variable (`items` / `item`)
  becomes the first parameter; the outer function must have exactly the shape
      if items: items = (item, *items); def func(obj): ...; return func
      def func(obj): ...; return func
  (checked structurally; Model/PrimsExec.v's `apply_nig` is that dispatch);
* statement ranges of `execute_select`, selected by STRUCTURE, never by line number:
  - `exec_row_loop`: the then-branch of `if query.group_indexes is None:` (the non-aggregate row loop),
  - `exec_agg_loop`: its else-branch, when it is inside the fragment (reported, not required),
  - `exec_order_tail`: from the statement `if order_spec is not None:` to the final `return`; that statement must directly
    follow the dispatch `if` (nothing untranslated in between);
* the WHOLE function `execute_query` (`exec_execute_query`: the dispatch on the class of the compiled statement and the
  complete PIVOT BY branch), translated by WholeTranslator with the desugaring rules W1-W7 documented there; and, as a
  statement range of its EvalPivot branch, `exec_pivot_fill` (from `pivoted = []` to the return).

A synthetic function's parameters are the locals of the host function that the selected statements read before
writing them, in order of first occurrence; free names resolve against the host function's globals and builtins.
Everything fails closed with py2mini.Untranslatable."""
import ast
import inspect
import textwrap

from . import py2mini
from .py2mini import Untranslatable

PRIMS = ('builtins.set', 'builtins.tuple', 'builtins.list', 'builtins.reversed', 'builtins.min', 'builtins.sorted',
         'builtins.range', 'builtins.enumerate', 'builtins.zip', 'builtins.iter', 'builtins.next',
         'itertools.groupby', 'itertools.islice', 'itertools.product', 'operator.itemgetter')


def _host_ast(func):
    tree = ast.parse(textwrap.dedent(inspect.getsource(func)))
    fd = tree.body[0]
    if not isinstance(fd, ast.FunctionDef):
        raise Untranslatable(f'not a plain function: {func!r}')
    return fd


def _host_locals(fd):
    a = fd.args
    names = {x.arg for x in a.args + a.kwonlyargs + a.posonlyargs}
    if a.vararg:
        names.add(a.vararg.arg)
    if a.kwarg:
        names.add(a.kwarg.arg)
    for n in ast.walk(fd):
        if isinstance(n, ast.Name) and isinstance(n.ctx, ast.Store):
            names.add(n.id)
        elif isinstance(n, ast.FunctionDef) and n is not fd:
            names.add(n.name)
    return names


def _read_before_written(stmts, host_locals, own_params=()):
    """host locals the statements read before writing them, in order of first occurrence (source position);
    comprehension variables are local to their comprehension"""
    comp_vars = set()
    for s in stmts:
        for n in ast.walk(s):
            if isinstance(n, ast.comprehension):
                for t in ast.walk(n.target):
                    if isinstance(t, ast.Name):
                        comp_vars.add(t.id)
    occ = []
    for s in stmts:
        for n in ast.walk(s):
            if isinstance(n, ast.Name):
                occ.append((n.lineno, n.col_offset, n.id, isinstance(n.ctx, ast.Load)))
    occ.sort()
    first = {}
    for _, _, name, is_load in occ:
        first.setdefault(name, is_load)
    out = []
    for _, _, name, _ in occ:
        if first[name] and name in host_locals and name not in comp_vars and name not in own_params \
                and name not in out:
            out.append(name)
    return out


class SynthTranslator(py2mini.FuncTranslator):
    """FuncTranslator over a synthetic FunctionDef built from statements of a host function."""

    def __init__(self, host, name, params, stmts, refs, prims):
        self.func = host
        self.refs = refs
        self.self_name = 'self'
        self.prims = set(prims)
        args = ast.arguments(posonlyargs=[], args=[ast.arg(arg=p) for p in params], vararg=None, kwonlyargs=[],
                             kw_defaults=[], kwarg=None, defaults=[])
        self.fd = ast.FunctionDef(name=name, args=args, body=list(stmts), decorator_list=[], returns=None)
        self.params = list(params)
        self.defaults = []
        self.locals = set(params)
        for s in stmts:
            for n in ast.walk(s):
                if isinstance(n, ast.Name) and isinstance(n.ctx, ast.Store):
                    self.locals.add(n.id)
        self.free = dict(host.__globals__)
        self.nonlocals = set()

    def stmt(self, s):
        # x[lo:hi] = e on a LOCAL list x (value semantics: no alias of x exists in the translated statements):
        # x = setslice(x, lo, hi, e); the semantics of list slice assignment is Model/PrimsExec.v's "stmt:setslice"
        if isinstance(s, ast.Assign) and len(s.targets) == 1 and isinstance(s.targets[0], ast.Subscript) \
                and isinstance(s.targets[0].value, ast.Name) and s.targets[0].value.id in self.locals \
                and isinstance(s.targets[0].slice, ast.Slice) and s.targets[0].slice.step is None \
                and s.targets[0].slice.lower is not None and s.targets[0].slice.upper is not None:
            t = s.targets[0]
            x = py2mini.gstr(t.value.id)
            return (f'(SAssign (TName {x}) (XPrim "stmt:setslice" [(XName {x}); {self.expr(t.slice.lower)}; '
                    f'{self.expr(t.slice.upper)}; {self.expr(s.value)}]))')
        return super().stmt(s)


class WholeTranslator(SynthTranslator):
    """SynthTranslator over a WHOLE host function, plus desugaring rules (all into existing PyMini constructors; the
    primitives are given meaning in Model/PrimsExec.v).  Modelled on src_api.py R2/R4/R5/R6 and src_numberify.py R6:

    W1 {e for x in it}                    -> XPrim "builtins.set" [[e for x in it]]
    W2 sorted(S, key=lambda v: e)         -> XPrim "sorted_by" [S; [e for v in S]]   (S side-effect free: evaluated twice)
    W3 [e for a, b in it] (also genexp)   -> [e[a := $t[0], b := $t[1]] for $t in it]
    W4 f'..{e}..'                         -> XPrim "fstring" [parts]                  (uninterpreted: the record of its parts)
    W5 isinstance(x, C), C static         -> XPrim "isinstance:<qualified name>" [x]
    W6 raise E, E a static class          -> SExpr (XPrim "raise:<qualified name>" [])
    W7 f = lambda x: e  (f assigned once, every local e captures assigned once, so the value at the call is the value
       at the definition) -> the assignment is dropped and a call f(a), a a local name, is e[x := a]"""

    def __init__(self, host, name, refs, prims):
        fd = _host_ast(host)
        a = fd.args
        if a.vararg or a.kwarg or a.kwonlyargs or a.posonlyargs or a.defaults:
            raise Untranslatable('only positional parameters are supported')
        super().__init__(host, name, [x.arg for x in a.args], fd.body, refs, prims)
        self.alias = {}
        stores = {}
        for n in ast.walk(fd):
            if isinstance(n, ast.Assign):
                for t in n.targets:
                    for x in ast.walk(t):
                        if isinstance(x, ast.Name):
                            stores.setdefault(x.id, []).append(n.value if x is t else None)
            elif isinstance(n, (ast.AugAssign, ast.For, ast.comprehension)):
                for x in ast.walk(n.target):
                    if isinstance(x, ast.Name):
                        stores.setdefault(x.id, []).append(None)
        self.lambdas = {}
        for k, v in stores.items():
            if len(v) == 1 and isinstance(v[0], ast.Lambda):
                lam = v[0]
                la = lam.args
                if len(la.args) != 1 or la.defaults or la.vararg or la.kwarg or la.kwonlyargs:
                    raise Untranslatable('lambda with several parameters')
                bound = {la.args[0].arg}
                for x in ast.walk(lam.body):
                    if isinstance(x, ast.comprehension):
                        bound |= {t.id for t in ast.walk(x.target) if isinstance(t, ast.Name)}
                for x in ast.walk(lam.body):
                    if isinstance(x, ast.Name) and x.id not in bound and x.id in stores and len(stores[x.id]) != 1:
                        raise Untranslatable(f'lambda captures {x.id}, which is assigned more than once')
                self.lambdas[k] = lam

    def qual(self, e):
        d = self.dotted(e) if isinstance(e, (ast.Attribute, ast.Name)) else None
        if d is None or (isinstance(e, ast.Name) and e.id in self.locals):
            raise Untranslatable(f'not a static name: {ast.dump(e)[:60]}')
        return self.ident_of(d.split('.')[0], d)

    def comp(self, elt, g):
        if len(g.ifs) > 1 or g.is_async:
            raise Untranslatable('comprehension with several conditions')
        it = self.expr(g.iter)
        saved = dict(self.alias)
        if isinstance(g.target, ast.Name):
            var = g.target.id
            self.alias.pop(var, None)
        elif isinstance(g.target, ast.Tuple) and all(isinstance(t, ast.Name) for t in g.target.elts):   # W3
            var = '$t'
            if var in self.alias.values():
                raise Untranslatable('nested pattern comprehensions')
            for i, t in enumerate(g.target.elts):
                self.alias[t.id] = f'(XIndex (XName {py2mini.gstr(var)}) (XConst (PInt {i})))'
        else:
            raise Untranslatable('comprehension target')
        self.locals.add(var)
        cond = py2mini.gopt(self.expr(g.ifs[0]) if g.ifs else None)
        out = f'(XListComp {self.expr(elt)} {py2mini.gstr(var)} {it} {cond})'
        self.alias = saved
        return out

    def expr(self, e):
        if isinstance(e, ast.Name) and e.id in self.alias:
            return self.alias[e.id]
        if isinstance(e, (ast.ListComp, ast.GeneratorExp, ast.SetComp)):
            if len(e.generators) != 1:
                raise Untranslatable('nested comprehension')
            c = self.comp(e.elt, e.generators[0])
            return f'(XPrim "builtins.set" [{c}])' if isinstance(e, ast.SetComp) else c             # W1
        if isinstance(e, ast.JoinedStr):                                                            # W4
            parts = []
            for v in e.values:
                if isinstance(v, ast.Constant):
                    parts.append(self.const(v.value))
                elif isinstance(v, ast.FormattedValue) and v.format_spec is None and v.conversion == -1:
                    parts.append(self.expr(v.value))
                else:
                    raise Untranslatable('format spec / conversion in f-string')
            return f'(XPrim "fstring" {py2mini.glist(parts)})'
        if isinstance(e, ast.Call) and isinstance(e.func, ast.Name) and e.func.id not in self.locals:
            f = e.func.id
            if f == 'isinstance' and len(e.args) == 2 and not e.keywords:                           # W5
                return f'(XPrim {py2mini.gstr("isinstance:" + self.qual(e.args[1]))} [{self.expr(e.args[0])}])'
            if f == 'sorted' and self.resolve_free('sorted') is sorted and len(e.args) == 1 \
                    and [k.arg for k in e.keywords] == ['key'] and isinstance(e.keywords[0].value, ast.Lambda):  # W2
                lam = e.keywords[0].value
                la = lam.args
                if len(la.args) != 1 or la.defaults or la.vararg or la.kwarg or la.kwonlyargs:
                    raise Untranslatable('key function with several parameters')
                if any(isinstance(n, (ast.Call, ast.Yield, ast.Await, ast.NamedExpr)) for n in ast.walk(e.args[0])):
                    raise Untranslatable('sorted(key=lambda) over an expression with calls')
                v = la.args[0].arg
                saved = dict(self.alias)
                self.alias.pop(v, None)
                self.locals.add(v)
                xs = self.expr(e.args[0])
                out = f'(XPrim "sorted_by" [{xs}; (XListComp {self.expr(lam.body)} {py2mini.gstr(v)} {xs} None)])'
                self.alias = saved
                return out
        if isinstance(e, ast.Call) and isinstance(e.func, ast.Name) and e.func.id in self.lambdas:  # W7
            if len(e.args) != 1 or e.keywords or not isinstance(e.args[0], ast.Name) or e.args[0].id not in self.locals:
                raise Untranslatable('call of a local lambda on something that is not a local name')
            lam = self.lambdas[e.func.id]
            saved = dict(self.alias)
            self.alias[lam.args.args[0].arg] = self.expr(e.args[0])
            out = self.expr(lam.body)
            self.alias = saved
            return out
        if isinstance(e, ast.Lambda):
            raise Untranslatable('lambda in value position')
        return super().expr(e)

    def stmt(self, s):
        if isinstance(s, ast.Assign) and len(s.targets) == 1 and isinstance(s.targets[0], ast.Name) \
                and self.lambdas.get(s.targets[0].id) is s.value:                                   # W7
            return 'SPass'
        if isinstance(s, ast.Raise) and s.exc is not None and s.cause is None and isinstance(s.exc, (ast.Name, ast.Attribute)):
            return f'(SExpr (XPrim {py2mini.gstr("raise:" + self.qual(s.exc))} []))'                # W6
        return super().stmt(s)


def _is_name(e, name):
    return isinstance(e, ast.Name) and e.id == name


def _is_none_test(e, is_not=False):
    """`<x> is None` / `<x> is not None`: returns x or None"""
    if isinstance(e, ast.Compare) and len(e.ops) == 1 and isinstance(e.ops[0], ast.IsNot if is_not else ast.Is) \
            and isinstance(e.comparators[0], ast.Constant) and e.comparators[0].value is None:
        return e.left
    return None


def select_execute_select(fd):
    """(dispatch If, tail statements) of execute_select, by structure"""
    body = fd.body
    disp = [i for i, s in enumerate(body) if isinstance(s, ast.If) and (lambda x: isinstance(x, ast.Attribute)
            and _is_name(x.value, 'query') and x.attr == 'group_indexes')(_is_none_test(s.test))]
    if len(disp) != 1:
        raise Untranslatable('execute_select: expected exactly one `if query.group_indexes is None:`')
    start = [i for i, s in enumerate(body) if isinstance(s, ast.If)
             and _is_name(_is_none_test(s.test, is_not=True), 'order_spec')]
    if len(start) != 1:
        raise Untranslatable('execute_select: expected exactly one `if order_spec is not None:`')
    if start[0] != disp[0] + 1:
        raise Untranslatable('execute_select: statements between the row loops and the ORDER BY tail')
    if not isinstance(body[-1], ast.Return):
        raise Untranslatable('execute_select: does not end in a return statement')
    return body[disp[0]], body[start[0]:], len(body)


def select_nullitemgetter(fd):
    """the inner function of the `if items:` branch and the one after it"""
    a = fd.args
    if [x.arg for x in a.args] != ['item'] or a.vararg is None or a.vararg.arg != 'items' or a.kwonlyargs or a.kwarg:
        raise Untranslatable('nullitemgetter: signature is not (item, *items)')
    body = [s for s in fd.body if not (isinstance(s, ast.Expr) and isinstance(s.value, ast.Constant))]
    ok = (len(body) == 3 and isinstance(body[0], ast.If) and _is_name(body[0].test, 'items') and not body[0].orelse
          and isinstance(body[1], ast.FunctionDef) and isinstance(body[2], ast.Return)
          and _is_name(body[2].value, body[1].name))
    if ok:
        b = body[0].body
        ok = (len(b) == 3 and isinstance(b[0], ast.Assign) and len(b[0].targets) == 1
              and _is_name(b[0].targets[0], 'items') and isinstance(b[0].value, ast.Tuple)
              and len(b[0].value.elts) == 2 and _is_name(b[0].value.elts[0], 'item')
              and isinstance(b[0].value.elts[1], ast.Starred) and _is_name(b[0].value.elts[1].value, 'items')
              and isinstance(b[1], ast.FunctionDef) and isinstance(b[2], ast.Return)
              and _is_name(b[2].value, b[1].name))
    if not ok:
        raise Untranslatable('nullitemgetter: outer function is not the two-closure dispatch on `items`')
    return body[0].body[1], body[1]


def select_pivot(fd):
    """the body of `if isinstance(query, query_compile.EvalPivot):` in execute_query"""
    hits = []
    for s in fd.body:
        if isinstance(s, ast.If) and isinstance(s.test, ast.Call) and _is_name(s.test.func, 'isinstance') \
                and len(s.test.args) == 2 and isinstance(s.test.args[1], ast.Attribute) \
                and s.test.args[1].attr == 'EvalPivot':
            hits.append(s)
    if len(hits) != 1:
        raise Untranslatable('execute_query: expected exactly one EvalPivot branch')
    return hits[0].body


def select_pivot_fill(stmts):
    """from `pivoted = []` to the return of the EvalPivot branch"""
    start = [i for i, s in enumerate(stmts) if isinstance(s, ast.Assign) and len(s.targets) == 1
             and _is_name(s.targets[0], 'pivoted') and isinstance(s.value, ast.List) and not s.value.elts]
    if len(start) != 1 or not isinstance(stmts[-1], ast.Return):
        raise Untranslatable('execute_query: expected exactly one `pivoted = []` followed by the filling loop and a return')
    return stmts[start[0]:]


def _inner(host, fdef, name, host_locals, refs, prims):
    a = fdef.args
    if a.vararg or a.kwarg or a.kwonlyargs or a.posonlyargs or a.defaults:
        raise Untranslatable('inner function: only positional parameters are supported')
    own = [x.arg for x in a.args]
    captured = _read_before_written(fdef.body, host_locals, own_params=own)
    return SynthTranslator(host, name, captured + own, fdef.body, refs, prims)


def spec_exec():
    """list of (coq_name, origin, builder(refs, prims) -> FuncTranslator, n_source_lines, required)"""
    from beanquery import query_execute as qx
    out = []

    def lines(stmts):
        return sum((s.end_lineno - s.lineno + 1) for s in stmts)

    out.append(('exec_uniquify', 'beanquery.query_execute.uniquify',
                lambda refs, prims: py2mini.FuncTranslator(qx.uniquify, refs, prims=prims),
                len(inspect.getsource(qx.uniquify).splitlines()), True))

    nfd = _host_ast(qx.nullitemgetter)
    multi, single = select_nullitemgetter(nfd)
    nloc = _host_locals(nfd)
    out.append(('exec_nig_multi', 'beanquery.query_execute.nullitemgetter.<locals>.func (several items; captured: items)',
                lambda refs, prims: _inner(qx.nullitemgetter, multi, 'nig_multi', nloc, refs, prims),
                lines([multi]), True))
    out.append(('exec_nig_single', 'beanquery.query_execute.nullitemgetter.<locals>.func (one item; captured: item)',
                lambda refs, prims: _inner(qx.nullitemgetter, single, 'nig_single', nloc, refs, prims),
                lines([single]), True))

    sfd = _host_ast(qx.execute_select)
    disp, tail, _n = select_execute_select(sfd)
    sloc = _host_locals(sfd)

    def synth(host, name, stmts, hloc):
        return lambda refs, prims: SynthTranslator(host, name, _read_before_written(stmts, hloc), stmts, refs, prims)

    out.append(('exec_row_loop', 'beanquery.query_execute.execute_select: then-branch of `if query.group_indexes is None:`',
                synth(qx.execute_select, 'row_loop', disp.body, sloc), lines(disp.body), True))
    out.append(('exec_order_tail', 'beanquery.query_execute.execute_select: from `if order_spec is not None:` to the return',
                synth(qx.execute_select, 'order_tail', tail, sloc), lines(tail), True))
    out.append(('exec_agg_loop', 'beanquery.query_execute.execute_select: else-branch of `if query.group_indexes is None:`',
                synth(qx.execute_select, 'agg_loop', disp.orelse, sloc), lines(disp.orelse), False))

    qfd = _host_ast(qx.execute_query)
    piv = select_pivot(qfd)
    fill = select_pivot_fill(piv)
    out.append(('exec_pivot_fill', 'beanquery.query_execute.execute_query, EvalPivot branch: from `pivoted = []` to the return',
                synth(qx.execute_query, 'pivot_fill', fill, _host_locals(qfd)), lines(fill), True))
    # the WHOLE function execute_query (dispatch, header and rows of the PIVOT BY branch), with the rules W1-W7
    out.append(('exec_execute_query', 'beanquery.query_execute.execute_query (whole function)',
                lambda refs, prims: WholeTranslator(qx.execute_query, 'execute_query', refs, prims),
                len(inspect.getsource(qx.execute_query).splitlines()), True))
    return out


class ExecTranslator:
    """plugs into gen_src.generate through the 'translator' option"""

    @staticmethod
    def translate_all(spec, prims=()):
        refs = py2mini.Refs()
        defs, info, skipped = [], {}, {}
        for name, origin, build, nlines, required in spec:
            try:
                # refs are numbered in order of first use: translate optional parts on a copy first so that a part
                # outside the fragment leaves no trace in the numbering
                if not required:
                    trial = py2mini.Refs()
                    trial.names = list(refs.names)
                    build(trial, prims).translate()
                tr = build(refs, prims)
                term, defaults = tr.translate()
            except Untranslatable as e:
                if required:
                    raise
                skipped[name] = str(e)[:160]
                continue
            defs.append((name, origin + '; parameters: ' + ', '.join(tr.params), term, defaults))
            info[name] = {'origin': origin, 'lines': nlines}
        text = py2mini.render(defs, refs)
        text += ('\n(* parts of the executor outside the PyMini fragment today (not translated): ' +
                 ('; '.join(f'{k}: {v}' for k, v in sorted(skipped.items())) or 'none').replace('*)', '* )') + ' *)\n')
        ExecTranslator.skipped = skipped
        return text, info
