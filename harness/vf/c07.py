"""C07: result shape and naming. Generated SELECTs with aliased / bare-column / expression targets written with
random spacing, comments, redundant parentheses and letter case, plus hidden GROUP BY / ORDER BY / HAVING helpers,
on user tables, subquery tables and every Beancount table (wildcards): description names (vs Model/Naming.v by
vm_compute), description length, row widths, `parse(name)` = the target expression, wildcard lists vs the
introspected registry snapshot."""
import os
import random
import tempfile

from . import core, impl, values, exprgen, gen_registry
from .core import clist, copt, cstr
from .exprgen import T_INT, T_DEC, T_STR, T_DATE, T_BOOL, PY

ASSUMPTIONS = [
    'translator tie of the loop of Compiler._compile_targets (C07_source_compile_targets, Proofs/SrcTargetsLoop.v): self._compile, '
    'get_target_name (tied by C07_source_target_name), is_aggregate and get_columns_and_aggregates (tied by the C05_source_* theorems) '
    'are opaque callables assumed to return the model\'s values; compiled nodes are references into a heap, self.table is threaded '
    'through self._compile (Model/PrimsSelect.v)',
    'the source slice of a target (parseinfo.pos:endpos) is taken from the implementation\'s parser; the harness predicts it as '
    '"first token to last token of the expression without enclosing parentheses" and the model applies the naming rule to it',
    'identifiers are lower-cased by the parser (column names), source slices keep their spelling',
    'translator tie (C07_source_target_name): PyMini (Model/PyMini.v) is the semantics of the translated get_target_name; '
    'a target is encoded as a tagged record (Model/PrimsApi.v): isinstance(x, ast.Column) is a test of the class tag, '
    'attribute reads are record lookups, str.strip() is Model/Naming.strip (ASCII white space)',
    'translator tie of the prelude of execute_select (C07_source_result_types, group prelude -> Gen/SrcPrelude.v, regenerated '
    'by this check): trusted are the translator (py2mini + src_exec.WholeTranslator rules, src_prelude.py statement '
    'selection), PyMini and Model/PrimsPrelude.v (query / targets as tagged records, c_expr an opaque callable with a dtype, '
    'tuple / set / enumerate); beanquery.Column is an opaque constructor; the theorem assumes that no target name is the '
    'empty string - the harness monitors that hypothesis on the implementation (empty_name_probe: statements that try to '
    'alias a target by an empty quoted / back-quoted string must be rejected by the parser or deliver rows as wide as '
    'the description)',
    'translator tie of the wildcard expansion (bld-compiler3; C07_source_wildcard_*; Gen/SrcTargets.v regenerated from Compiler._compile_targets / _inop on every run): the statement in front of the target loop is selected by structure (first statement of the body); trusted: PyMini semantics, translator rules of harness/vf/src_compiler.py (K12 state threading for the loop body, not used by the tied statement), Model/PrimsSelect.v: ast.Target / ast.Column build tagged records, a table exposes wildcard_columns as an attribute holding a list of names (an explicit hypothesis); the loop over the targets and _inop are translated (a change is visible in Gen/SrcTargets.v) but not tied by proof',
]
EXTRA_TARGETS = ['Proofs/RegistryTie.vo']
WS = [' ', '  ', '\n', '\t', ' /* c */ ', '\n  ']


def generate():
    """registry snapshot (as before) + translator tie: coq/Gen/SrcNaming.v from the source of get_target_name"""
    from . import gen_src
    out = dict(gen_registry.generate() or {})
    out.update(gen_src.generate('naming'))
    out.update(gen_src.generate('prelude'))     # bld-misc: the prelude of execute_select (description / projection)
    out.update(gen_src.generate('targets'))     # bld-compiler3: Compiler._compile_targets / _inop (wildcard expansion)
    return out


EMPTY_NAME_PROBES = ["SELECT a AS '' FROM #t", 'SELECT a AS "" FROM #t', 'SELECT a AS `` FROM #t',
                     "SELECT a AS '', b FROM #t", "SELECT b, a + 1 AS '' FROM #t ORDER BY a",
                     "SELECT a AS '' FROM #t GROUP BY a", "SELECT * FROM (SELECT a AS '', b FROM #t)",
                     "SELECT a AS ' ' FROM #t", "SELECT a AS 'x y' FROM #t"]


def empty_name_probe(sqls=EMPTY_NAME_PROBES):
    """The hypothesis of C07_source_result_types on the implementation: can a visible target be named by the empty
    string?  Every probe must be rejected, or describe exactly as many columns as its rows are wide."""
    conn = impl.connection({'t': impl.make_table('t', [('a', int), ('b', int)], [(1, 2), (3, 4)])})
    out = {'rejected': 0, 'accepted': 0, 'accepted_with_empty_name': 0}
    bad = []
    for sql in sqls:
        try:
            cur = conn.execute(sql)
            names = [d.name for d in cur.description]
            widths = sorted({len(r) for r in cur.fetchall()})
        except Exception:  # noqa: BLE001
            out['rejected'] += 1
            continue
        out['accepted'] += 1
        out['accepted_with_empty_name'] += any(not n for n in names)
        if widths not in ([], [len(names)]):
            bad.append((sql, names, widths))
    return out, bad


def spaced(rng, text):
    """Insert random white space / comments at token boundaries that exprgen marks with single spaces."""
    out = []
    for part in text.split(' '):
        out.append(part)
        out.append(rng.choice([' ', ' ', ' ', '  ', ' /* x */ ', '\n']))
    return ''.join(out[:-1])


def strip_outer(text):
    """exprgen wraps operators in one pair of parentheses: the inner text is what the parser's node spans."""
    t = text
    while t.startswith('(') and t.endswith(')') and _balanced(t[1:-1]):
        t = t[1:-1]
    return t


def _balanced(t):
    d = 0
    in_s = False
    for ch in t:
        if ch == "'":
            in_s = not in_s
        if in_s:
            continue
        if ch == '(':
            d += 1
        if ch == ')':
            d -= 1
            if d < 0:
                return False
    return d == 0


def gen_case(rng):
    ncols = rng.randint(2, 5)
    cols = [(n, rng.choice(exprgen.ALL_TYPES)) for n in 'abcde'[:ncols]]
    rows = [tuple(values.gen_value(rng, PY[t], 0.2) for _, t in cols) for _ in range(rng.choice([0, 1, 3, 5]))]
    g = exprgen.Gen(rng, cols, rng.randint(0, 3))
    targets = []
    for i in range(rng.randint(1, 4)):
        e = g.expr(rng.choice(exprgen.ALL_TYPES))
        inner = spaced(rng, strip_outer(e.text))
        is_col = inner in [c for c, _ in cols]
        if is_col and rng.random() < 0.3:
            inner = inner.upper()             # identifiers are case-insensitive
        wraps = rng.choice([0, 0, 1, 2])
        fmt = '{}'
        for _ in range(wraps):
            fmt = '(' + rng.choice(['', ' ']) + fmt + rng.choice(['', ' ']) + ')'
        if is_col and rng.random() < 0.2 and wraps == 0:
            fmt = '+{}'
        text = fmt.format(inner)
        alias = f'n{i}' if rng.random() < 0.3 else None
        lead, trail = rng.choice(WS), rng.choice(WS + [''])
        expected = alias or (inner.lower() if is_col else inner.strip())
        tail = (f' AS {alias.upper() if rng.random() < 0.3 else alias}' if alias else '') + trail
        targets.append({'sql': lead + text + tail, 'lead': lead, 'fmt': fmt, 'tail': tail,
                        'alias': alias, 'col': inner.lower() if is_col else None, 'inner': inner, 'expected': expected,
                        'expr_sql': inner})
    hidden = []
    extra = ''
    mode = rng.random()
    if mode < 0.3:
        k = g.expr(rng.choice([T_INT, T_STR, T_DEC]), 1)
        extra = f' ORDER BY ({k.text})'   # a bare integer would be a position, a bare decimal does not parse
        if k.cols or True:
            hidden.append(k.text)
    elif mode < 0.5:
        # aggregate query: every target becomes first(expr) except keys; hidden GROUP BY key + HAVING
        keycol = rng.choice([c for c, _ in cols])
        for t in targets:
            new_inner = 'first(' + t['inner'] + ')'
            t['sql'] = t['lead'] + t['fmt'].format(new_inner) + t['tail']
            t['inner'] = new_inner
            t['col'] = None
            if t['alias'] is None:
                t['expected'] = new_inner
        extra = f' GROUP BY {keycol}, length(str({keycol})) HAVING count(*) >= 0 ORDER BY count({keycol}) DESC'
    names = [t['expected'] for t in targets]
    wrap = rng.random() < 0.2 and len(set(names)) == len(names)   # duplicate names under * are checked separately
    return {'cols': cols, 'rows': rows, 'targets': targets, 'extra': extra, 'wrap': wrap}


def statement(c):
    s = 'SELECT' + ','.join(t['sql'] for t in c['targets']) + ' FROM #t' + c['extra']
    if c['wrap']:
        s = f'SELECT * FROM ({s})'
    return s


def ast_eq(a, b):
    """dataclass equality ignores parseinfo but equates 1/TRUE/1.0; compare a type-tagged dump instead."""
    return _dump(a) == _dump(b)


def _dump(n):
    import dataclasses
    if dataclasses.is_dataclass(n):
        return (type(n).__name__,) + tuple((f.name, _dump(getattr(n, f.name))) for f in dataclasses.fields(n) if f.name != 'parseinfo')
    if isinstance(n, list):
        return ('list',) + tuple(_dump(x) for x in n)
    return (type(n).__name__, repr(n))


def run_impl(c):
    t = impl.make_table('t', [(n, PY[ty]) for n, ty in c['cols']], c['rows'])
    conn = impl.connection({'t': t})
    sql = statement(c)
    try:
        cur = conn.execute(sql)
        names = [d.name for d in cur.description]
        rows = cur.fetchall()
        widths = sorted({len(r) for r in rows})
        back = []
        if not c['wrap']:
            parsed = conn.parse(sql)
            for tgt, name in zip(parsed.targets, names):
                if tgt.name is not None:
                    back.append(True)
                    continue
                try:
                    again = conn.parse('SELECT ' + name + ' FROM #t').targets[0].expression
                    back.append(ast_eq(again, tgt.expression))
                except Exception as e:  # noqa: BLE001
                    back.append(f'name does not parse: {e!r}')
        return {'names': names, 'widths': widths, 'nrows': len(rows), 'back': back}
    except Exception as e:  # noqa: BLE001
        return {'error': impl.exc_class(e) + ': ' + str(e)[:200]}


def model_expr(t):
    return f'name_out {copt(t["alias"], cstr)} {copt(t["col"], cstr)} {cstr(t["inner"] if t["col"] is None else t["inner"].lower())}'


def beancount_wildcards():
    """SELECT * over every Beancount table = the wildcard list of the introspected registry, in order."""
    src = '2020-01-01 open Assets:Cash\n2020-01-02 * "p" "n"\n  Assets:Cash  1 USD\n  Assets:Cash  -1 USD\n'
    with tempfile.NamedTemporaryFile('w', suffix='.beancount', delete=False) as f:
        f.write(src)
        path = f.name
    bad, n = [], 0
    try:
        conn = impl.beanquery.connect('beancount:' + path)
        reg = gen_registry.collect()['tables']
        for name, cols, wild in reg:
            if not name:
                continue
            n += 1
            try:
                cur = conn.execute(f'SELECT * FROM #{name}')
                got = [d.name for d in cur.description]
                rows = cur.fetchall()
                if got != wild:
                    bad.append((name, got, wild))
                # "`*` expands to the table's default columns in declaration order": independently of the list the
                # table reports, the expansion must keep the order in which the table declares its columns
                declared = [c for c, _ in cols]
                in_order = [c for c in declared if c in got]
                if sorted(got) == sorted(in_order) and got != in_order:
                    bad.append((name, got, in_order))
                if any(len(r) != len(got) for r in rows):
                    bad.append((name, 'row width', len(got)))
                cur = conn.execute(f'SELECT {", ".join(c for c, _ in cols)} FROM #{name}')
                if [d.name for d in cur.description] != [c for c, _ in cols]:
                    bad.append((name, [d.name for d in cur.description], [c for c, _ in cols]))
            except Exception as e:  # noqa: BLE001
                bad.append((name, repr(e), wild))
    finally:
        os.unlink(path)
    return n, bad


def structured_and_placeholder_names(rng):
    """Un-aliased targets whose top node is an attribute access, a subscript or a placeholder are expressions: they are
    named by their exact source text (only bare columns are named by the column name). On a Beancount connection."""
    src = '2020-01-01 open Assets:Cash\n2020-01-02 * "p" "n"\n  k: "v"\n  Assets:Cash  1 USD\n    k: "w"\n  Assets:Cash  -1 USD\n'
    with tempfile.NamedTemporaryFile('w', suffix='.beancount', delete=False) as f:
        f.write(src)
        path = f.name
    bad, n = [], 0
    try:
        conn = impl.beanquery.connect('beancount:' + path)
        exprs = ['entry.flag', 'entry.date', 'position.units.currency', 'position.units', 'entry.meta', "meta['k']", "entry.meta['k']",
                 'entry  .  narration', 'weight.number', 'date', 'entry']
        for e in exprs:
            for text in (e, spaced(rng, e), f'( {e} )'):
                n += 1
                try:
                    cur = conn.execute(f'SELECT {text} FROM #postings')
                    got = cur.description[0].name
                    want = e if e in ('date', 'entry') else text.strip('() ').strip()
                    if got != want:
                        bad.append((f'SELECT {text} FROM #postings', got, want))
                except Exception as ex:  # noqa: BLE001
                    bad.append((f'SELECT {text} FROM #postings', repr(ex), e))
        for text, params, want in (('%(bound)s', {'bound': 1}, '%(bound)s'), ('%s', [1], '%s'), ('%(a)s, %(b)s', {'a': 1, 'b': 2}, None),
                                   ('%s + %s', [1, 2], '%s + %s')):
            n += 1
            try:
                cur = conn.execute(f'SELECT {text} FROM #postings', params)
                got = [d.name for d in cur.description]
                exp = [want] if want else ['%(a)s', '%(b)s']
                if got != exp or any(len(r) != len(exp) for r in cur.fetchall()):
                    bad.append((f'SELECT {text} FROM #postings {params}', got, exp))
            except Exception as ex:  # noqa: BLE001
                bad.append((f'SELECT {text} FROM #postings {params}', repr(ex), want))
        n += 1
        cur = conn.execute('SELECT * FROM (SELECT date, entry.date FROM #postings)')
        if [d.name for d in cur.description] != ['date', 'entry.date']:
            bad.append(('SELECT * FROM (SELECT date, entry.date FROM #postings)', [d.name for d in cur.description], ['date', 'entry.date']))
    finally:
        os.unlink(path)
    return n, bad


def parsed_wildcard_reuse():
    """`*` expands to the CURRENT table's columns every time a parsed statement is executed (the expansion must not be
    frozen into the parsed statement), at top level and inside a FROM subquery."""
    bad = []
    for text in ('SELECT * FROM #t', 'SELECT * FROM (SELECT * FROM #t)', 'SELECT * FROM (SELECT * FROM #t) WHERE 1 = 1'):
        c1 = impl.connection({'t': impl.make_table('t', [('b', int), ('a', int)], [(1, 2)])})
        c2 = impl.connection({'t': impl.make_table('t', [('a', int), ('s', str), ('b', int)], [(3, 'x', 4), (5, 'y', 6)])})
        parsed = c1.parse(text)
        for conn, want, width in ((c1, ['b', 'a'], 2), (c2, ['a', 's', 'b'], 3), (c1, ['b', 'a'], 2)):
            try:
                cur = conn.execute(parsed)
                got = [d.name for d in cur.description]
                rows = cur.fetchall()
                if got != want or any(len(r) != width for r in rows):
                    bad.append((f'parse once, execute on tables (b,a) then (a,s,b): {text}', [got, rows], want))
                    break
            except Exception as e:  # noqa: BLE001
                bad.append((f'parse once, execute on tables (b,a) then (a,s,b): {text}', repr(e), want))
                break
    return bad


# ---- cursor re-use: the description of a statement is a function of the statement alone, whatever the SAME cursor
# executed (or was refused) before. Oracles: the same statement on a fresh connection, and for plain wildcards the
# introspected declaration order of the statement's own table.
REUSE_SRC = '''option "operating_currency" "USD"
2020-01-01 open Assets:Cash
2020-01-01 open Assets:Stock
2020-01-01 open Income:Job
2020-01-01 open Expenses:Food
2020-01-01 commodity USD
2020-01-05 * "Employer" "Pay" #tag ^link
  Assets:Cash   1000.00 USD
  Income:Job
2020-02-01 * "Shop" "Food"
  Expenses:Food  12.50 USD
  Assets:Cash
2020-03-01 * "Buy"
  Assets:Stock  2 ABC {10.00 USD}
  Assets:Cash
2020-03-02 price ABC 11.00 USD
2020-03-03 note Assets:Cash "a note"
2020-03-04 event "location" "somewhere"
2020-12-31 balance Assets:Cash 967.50 USD
'''
REUSE_USER = [('k', int), ('v', str)]
ABSENT = ['nosuch', 'zz_q', 'k9']          # names that are a column of no table


def _reuse_conn(path):
    conn = impl.beanquery.connect('beancount:' + path)
    conn.tables['t'] = impl.make_table('t', REUSE_USER, [(1, 'x'), (2, 'y')])
    return conn


def reuse_registry():
    reg = [(name, [c for c, _ in cols], wild) for name, cols, wild in gen_registry.collect()['tables'] if name]
    return reg + [('t', [c for c, _ in REUSE_USER], [c for c, _ in REUSE_USER])]


def gen_reuse_step(rng, reg):
    """One statement: {'sql', 'role', 'wild'}; role 'left' = refused (or PRINT) after its FROM clause was compiled,
    'star' = a wildcard statement, 'plain' = anything else. 'wild' = the names the property text prescribes, when the
    statement is a plain wildcard over a named table (else None: only the fresh connection judges)."""
    name, cols, wild = rng.choice(reg)
    col = rng.choice(cols)
    bad = rng.choice(ABSENT)
    post = next(w for n, _, w in reg if n == 'postings')
    r = rng.random()
    if r < 0.42:
        frm = rng.choice([f'#{name}', f'#{name}', f'(SELECT {col} FROM #{name})', f'(SELECT {col} AS {bad} FROM #{name} WHERE {col} = {col})',
                          f'(SELECT * FROM #{name})', 'year = 2020', 'OPEN ON 2020-02-01', 'CLOSE ON 2020-03-15 CLEAR'])
        inner = col if frm.startswith('#') or frm.startswith('(SELECT *') else ('date' if not frm.startswith('(') else
                                                                                 (bad if ' AS ' in frm else col))
        other = rng.choice([a for a in ABSENT if a != inner])
        sql = rng.choice([
            f'SELECT {other} FROM {frm}',
            f'SELECT {inner}, {other} FROM {frm}',
            f'SELECT {inner} FROM {frm} WHERE {other} = 1',
            f'SELECT {inner}, nosuchfn({inner}) FROM {frm}',
            f'SELECT {inner} FROM {frm} ORDER BY 7',
            f'SELECT * FROM {frm} ORDER BY {other}',
            f'SELECT {inner} FROM {frm} GROUP BY {other}',
            'PRINT', 'PRINT FROM year = 2020',
        ])
        return {'sql': sql, 'role': 'left', 'wild': None}
    if r < 0.85:
        k = rng.randrange(12)
        if k < 4:
            tail = rng.choice(['', '', ' WHERE number > 0', ' ORDER BY date DESC', ' LIMIT 1', ' FROM year = 2020', ' FROM OPEN ON 2020-02-01'])
            return {'sql': 'SELECT *' + tail, 'role': 'star', 'wild': post}
        if k < 6:
            return {'sql': f'SELECT * FROM #{name}' + rng.choice(['', ' LIMIT 2', ' WHERE 1 = 1']), 'role': 'star', 'wild': wild}
        if k == 6:
            return {'sql': 'SELECT * FROM (SELECT *)', 'role': 'star', 'wild': post}
        if k == 7:
            return {'sql': 'SELECT DISTINCT * FROM (SELECT account, number WHERE number > 0)', 'role': 'star', 'wild': ['account', 'number']}
        if k < 10:
            return {'sql': f'SELECT * FROM #{name}', 'role': 'star', 'wild': wild}
        if k == 10:
            return {'sql': f'SELECT * FROM (SELECT * FROM #{name})', 'role': 'star', 'wild': None if len(set(wild)) != len(wild) else wild}
        return {'sql': f'SELECT * FROM (SELECT {col} AS c0, {col} FROM #{name})', 'role': 'star', 'wild': ['c0', col]}
    sql = rng.choice([f'SELECT {col} FROM #{name}', 'SELECT date, account, number', 'SELECT account, sum(number) GROUP BY account',
                      'BALANCES', 'JOURNAL', f'SELECT count(*) FROM #{name}', 'SELECT 1 AS one FROM #'])
    return {'sql': sql, 'role': 'plain', 'wild': None}


def gen_reuse_case(rng, reg):
    steps = [gen_reuse_step(rng, reg) for _ in range(rng.randint(2, 6))]
    if rng.random() < 0.7 and not any(s['role'] == 'star' for s in steps[1:]):
        steps.append(next(s for s in iter(lambda: gen_reuse_step(rng, reg), None) if s['role'] == 'star'))
    return steps


def _reuse_outcome(cur, sql):
    try:
        cur.execute(sql)
        rows = cur.fetchall()
        return {'names': [d.name for d in cur.description], 'widths': sorted({len(r) for r in rows}), 'nrows': len(rows)}
    except Exception as e:  # noqa: BLE001
        return {'error': impl.exc_class(e) + ': ' + str(e)[:160]}


def run_reuse_fresh(arg):
    path, sql = arg
    return _reuse_outcome(_reuse_conn(path).cursor(), sql)


def run_reuse_impl(arg):
    """All statements of the sequence on ONE cursor object."""
    path, sqls = arg
    cur = _reuse_conn(path).cursor()
    return [_reuse_outcome(cur, sql) for sql in sqls]


def reuse_first_bad(steps, got, fresh):
    """index and reason of the first statement whose shape on the re-used cursor is not what it should be"""
    for i, (s, g) in enumerate(zip(steps, got)):
        w = fresh[s['sql']]
        if 'error' in g and 'error' in w:
            continue                      # refused either way: no description to judge (which error is C09's business)
        if g != w:
            return i, f'{g} on the re-used cursor but {w} on a fresh connection'
        if s.get('wild') is not None and g.get('names') != s['wild']:
            return i, f'{g} but the targets are {s["wild"]}'
        if 'names' in g and g['widths'] not in ([], [len(g['names'])]):
            return i, f'row widths {g["widths"]} differ from the {len(g["names"])} described columns'
    return None


def cursor_reuse_stream(tier, rng):
    reg = reuse_registry()
    cases = [gen_reuse_case(rng, reg) for _ in range(400 if tier == 'quick' else 6000)]
    with tempfile.NamedTemporaryFile('w', suffix='.beancount', delete=False) as f:
        f.write(REUSE_SRC)
        path = f.name
    violations = []
    hist = {'roles': {}, 'length': {}, 'star_after_left': 0, 'left_refused': 0, 'left_total': 0, 'star_described': 0}
    try:
        sqls = sorted({s['sql'] for c in cases for s in c})
        fresh = dict(zip(sqls, core.pmap(run_reuse_fresh, [(path, q) for q in sqls])))
        gots = core.pmap(run_reuse_impl, [(path, [s['sql'] for s in c]) for c in cases])
        seen = set()
        for c, got in zip(cases, gots):
            hist['length'][len(c)] = hist['length'].get(len(c), 0) + 1
            left = False
            for s in c:
                hist['roles'][s['role']] = hist['roles'].get(s['role'], 0) + 1
                if s['role'] == 'left':
                    hist['left_total'] += 1
                    refused = fresh[s['sql']].get('error', '').startswith(('CompilationError', 'other:'))
                    hist['left_refused'] += refused
                    left = left or refused
                if s['role'] == 'star':
                    hist['star_after_left'] += left
                    hist['star_described'] += 'names' in fresh[s['sql']]
            bad = reuse_first_bad(c, got, fresh)
            if bad is None or len(seen) >= 3:
                continue
            k = bad[0]
            steps = c[:k + 1]

            def fails_many(cands, last=steps[-1]):
                out = []
                for cd in cands:
                    seq = cd + [last]
                    b = reuse_first_bad(seq, run_reuse_impl((path, [s['sql'] for s in seq])), fresh)
                    out.append(b is not None and b[0] == len(cd))
                return out
            pre = steps[:-1]
            if len(pre) >= 2:
                from . import shrink
                pre = shrink.ddmin_batch(pre, fails_many)
            steps = pre + [steps[-1]]
            got2 = run_reuse_impl((path, [s['sql'] for s in steps]))
            why = reuse_first_bad(steps, got2, fresh) or bad
            sig = 'cursor-reuse:' + ' ; '.join(s['sql'] for s in steps)
            if sig in seen:
                continue
            seen.add(sig)
            violations.append(core.Violation(
                'cursor-reuse', f'one cursor, execute in turn {[s["sql"] for s in steps]}: the last statement gives {why[1]}',
                {'kind': 'cursor-reuse', 'ledger': REUSE_SRC, 'steps': steps, 'got': got2,
                 'fresh': [fresh[s['sql']] for s in steps]}, signature=sig))
    finally:
        os.unlink(path)
    return violations, {'cursor_reuse_sequences': len(cases), 'cursor_reuse_distinct_statements': len(sqls),
                        'cursor_reuse_histograms': hist,
                        'cursor_reuse_samples': [' ; '.join(s['sql'] for s in c) for c in cases[:3]]}


# ---- (fix-I) string constants holding comment / quote look-alikes in un-aliased targets: "named by the exact source text"
STR_PIECES = [';', ';', '; ', '/*', '*/', '/* c */', '--', '#', ',', '(', ')', ' ', 'a', 'b', 'x y', 'AS n', 'FROM', '%', '\\', '\t']
STR_COLS = [('tag', T_STR), ('qty', T_INT), ('s', T_STR)]


def gen_string_constant(rng):
    """(literal text, kind histogram key): a string constant whose content is plain data that looks like BQL syntax"""
    body = ''.join(rng.choice(STR_PIECES) for _ in range(rng.randint(1, 4)))
    q = rng.choice(["'", "'", '"'])
    other = '"' if q == "'" else "'"
    if rng.random() < 0.3:
        k = rng.randint(0, len(body))
        body = body[:k] + other + body[k:]            # a quote of the other kind is an ordinary character
    if rng.random() < 0.1:
        k = rng.randint(0, len(body))
        body = body[:k] + '\n' + body[k:]
    return q + body + q


def gen_string_case(rng):
    """Same record shape as gen_case: 1-4 targets, each built around 1-2 'difficult' string constants, placed at the end of the
    target, at its start, in the middle, inside function arguments and inside IN lists; random spacing / comments / redundant
    parentheses around; some aliased; the statement may end with an end-of-line comment."""
    rows = [(rng.choice(['a;b', 'c', 'x; y', '/*', None]), rng.choice([0, 1, 2, None]), rng.choice(['', ';', 'b'])) for _ in range(rng.choice([0, 1, 3]))]
    targets = []
    shapes = {}
    for i in range(rng.randint(1, 4)):
        s1, s2 = gen_string_constant(rng), gen_string_constant(rng)
        col = rng.choice(['tag', 's'])
        sp = lambda: rng.choice(['', ' ', ' ', '  ', ' /* x */ ', '\n'])      # noqa: E731
        sp1 = lambda: rng.choice([' ', ' ', '  ', ' /* x */ ', '\n'])         # noqa: E731
        shape = rng.choice(['const', 'cmp-end', 'cmp-start', 'func', 'func2', 'in', 'in-end', 'middle', 'nested', 'two'])
        shapes[shape] = 1
        if shape == 'const':
            inner = s1
        elif shape == 'cmp-end':
            inner = col + sp() + rng.choice(['=', '!=', '<', '>=']) + sp() + s1
        elif shape == 'cmp-start':
            inner = s1 + sp() + rng.choice(['=', '!=', '<']) + sp() + col
        elif shape == 'func':
            inner = rng.choice(['upper', 'lower', 'length', 'str']) + '(' + sp() + s1 + sp() + ')'
        elif shape == 'func2':
            inner = 'coalesce(' + sp() + col + sp() + ',' + sp() + s1 + sp() + ')'
        elif shape == 'in':
            inner = col + sp1() + 'IN' + sp1() + '(' + s1 + sp() + ',' + sp() + s2 + ')'
        elif shape == 'in-end':
            inner = s1 + sp1() + 'IN' + sp1() + '(' + sp() + "'k'," + sp() + s2 + sp() + ')'
        elif shape == 'middle':
            inner = 'length(' + s1 + ')' + sp() + '+' + sp() + 'qty'
        elif shape == 'nested':
            inner = 'length(' + sp() + 'upper(' + s1 + ')' + sp() + ')' + sp() + rng.choice(['+', '*', '-']) + sp() + 'length(' + s2 + ')'
        else:
            inner = s1 + sp() + rng.choice(['=', '<', '!=']) + sp() + s2
        wraps = rng.choice([0, 0, 0, 1, 2])
        fmt = '{}'
        for _ in range(wraps):
            fmt = '(' + rng.choice(['', ' ']) + fmt + rng.choice(['', ' ']) + ')'
        alias = f'n{i}' if rng.random() < 0.2 else None
        lead, trail = rng.choice(WS), rng.choice(WS + ['', ''])
        tail = (f' AS {alias}' if alias else '') + trail
        targets.append({'sql': lead + fmt.format(inner) + tail, 'lead': lead, 'fmt': fmt, 'tail': tail, 'alias': alias, 'col': None,
                        'inner': inner, 'expected': alias or inner, 'expr_sql': inner, 'shape': shape})
    extra = rng.choice(['', '', '', ' ORDER BY qty', ' ; done', ';', ' WHERE tag != \'x;\'', '\n; c'])
    return {'cols': STR_COLS, 'rows': rows, 'targets': targets, 'extra': extra, 'wrap': False}


def judge(c, io, want):
    """None, or what is wrong with the implementation's answer `io` for case `c` given the model's names `want` (the
    judgement of the main stream)."""
    if 'error' in io:
        return 'statement failed: ' + io['error']
    if io['names'] != want:
        return f'description names {io["names"]} differ from the naming rule {want}'
    if want != [t['expected'] for t in c['targets']]:
        return f'model names {want} differ from harness expectation {[t["expected"] for t in c["targets"]]}'
    if io['widths'] not in ([], [len(c['targets'])]):
        return f'row widths {io["widths"]} differ from the {len(c["targets"])} described columns'
    if not all(b is True for b in io['back']):
        return f'a column name does not parse back to its target expression: {io["back"]}'
    return None


def string_constant_stream(tier, rng):
    n = 400 if tier == 'quick' else 6000
    cases = [gen_string_case(rng) for _ in range(n)]
    ios = core.pmap(run_impl, cases)
    flat = [(ci, ti) for ci, c in enumerate(cases) for ti in range(len(c['targets']))]
    models = core.coq_eval('c07s', ['Model.Naming'], [model_expr(cases[ci]['targets'][ti]) for ci, ti in flat], shard=400)
    mnames = {}
    for (ci, ti), m in zip(flat, models):
        mnames.setdefault(ci, []).append(''.join(chr(x) for x in m))
    violations = []
    hist = {'shape': {}, 'aliased': 0, 'unaliased': 0, 'constants_with': {}, 'statement_tail': {}, 'errors': 0}
    marks = [';', '/*', '*/', '--', '#', '"', "'", '\n', ',', '(', ')']
    for ci, (c, io) in enumerate(zip(cases, ios)):
        for t in c['targets']:
            hist['shape'][t['shape']] = hist['shape'].get(t['shape'], 0) + 1
            hist['aliased' if t['alias'] else 'unaliased'] += 1
            body = t['inner']
            for mk in marks:
                if mk in body:
                    hist['constants_with'][mk] = hist['constants_with'].get(mk, 0) + 1
        hist['statement_tail'][c['extra']] = hist['statement_tail'].get(c['extra'], 0) + 1
        hist['errors'] += 'error' in io
        bad = judge(c, io, mnames[ci])
        if bad and len(violations) < 3:
            small = shrink_string_case(c)
            violations.append(core.Violation('naming', f'{statement(small)!r}: {judge(small, run_impl(small), [t["expected"] for t in small["targets"]])}',
                                             {'kind': 'string-constants', 'sql': statement(small), 'impl': run_impl(small), 'case': small},
                                             signature='naming:' + statement(small)))
    return violations, {'string_constant_cases': len(cases), 'string_constant_histograms': hist}


def shrink_string_case(c):
    """one failing target, no statement tail, when that still fails (names / parse-back only; the model's name is the slice)"""
    def fails(x):
        return judge(x, run_impl(x), [t['expected'] for t in x['targets']]) is not None
    for t in c['targets']:
        for extra in ('', c['extra']):
            for rows in ([], c['rows']):
                x = dict(c, targets=[t], extra=extra, rows=rows)
                if fails(x):
                    return x
    return c


def run(tier, rng):
    n = 1500 if tier == 'quick' else 20000
    cases = [gen_case(rng) for _ in range(n)]
    ios = core.pmap(run_impl, cases)
    flat = [(ci, ti) for ci, c in enumerate(cases) for ti in range(len(c['targets']))]
    models = core.coq_eval('c07', ['Model.Naming'], [model_expr(cases[ci]['targets'][ti]) for ci, ti in flat], shard=400)
    mnames = {}
    for (ci, ti), m in zip(flat, models):
        mnames.setdefault(ci, []).append(''.join(chr(x) for x in m))
    violations, seen = [], set()
    hist = {'ntargets': {}, 'alias': 0, 'bare': 0, 'expr': 0, 'hidden': 0, 'wrap': 0, 'errors': 0}
    nontrivial = 0
    for ci, (c, io) in enumerate(zip(cases, ios)):
        hist['ntargets'][len(c['targets'])] = hist['ntargets'].get(len(c['targets']), 0) + 1
        for t in c['targets']:
            hist['alias'] += t['alias'] is not None
            hist['bare'] += t['col'] is not None and t['alias'] is None
            hist['expr'] += t['col'] is None and t['alias'] is None
        hist['hidden'] += bool(c['extra'])
        hist['wrap'] += c['wrap']
        bad = None
        if 'error' in io:
            hist['errors'] += 1
            bad = 'statement failed: ' + io['error']
        else:
            want = mnames[ci]
            if io['names'] != want:
                bad = f'description names {io["names"]} differ from the naming rule {want}'
            elif want != [t['expected'] for t in c['targets']]:
                bad = f'model names {want} differ from harness expectation {[t["expected"] for t in c["targets"]]}'
            elif io['widths'] not in ([], [len(c['targets'])]):
                bad = f'row widths {io["widths"]} differ from the {len(c["targets"])} described columns'
            elif not all(b is True for b in io['back']):
                bad = f'a column name does not parse back to its target expression: {io["back"]}'
            if any(t['alias'] is None and t['col'] is None for t in c['targets']) and c['extra']:
                nontrivial += 1
        if bad and len(seen) < 3:
            sig = 'naming:' + statement(c)
            seen.add(sig)
            violations.append(core.Violation('naming', f'{statement(c)!r}: {bad}', {'sql': statement(c), 'impl': io, 'case': c},
                                             signature=sig))
    # duplicate output names under SELECT * FROM (...)
    conn = impl.connection({'t': impl.make_table('t', [('a', int), ('b', int)], [(1, 2)])})
    try:
        d = [x.name for x in conn.execute('SELECT * FROM (SELECT a, a, b AS a FROM #t)').description]
    except Exception as e:  # noqa: BLE001
        d = repr(e)
    if d != ['a', 'a', 'a']:
        violations.append(core.Violation('naming', f'SELECT * FROM (SELECT a, a, b AS a FROM #t): description {d}, expected the three '
                                         'inner columns a, a, a', {'got': d}, signature='naming:star-duplicate-names'))
    for what, got, want in parsed_wildcard_reuse():
        violations.append(core.Violation('wildcard-reuse', f'{what}: description {got}, expected {want}',
                                         {'what': what, 'got': got, 'want': want}, signature='wildcard-reuse:' + what))
    ns, sbad = structured_and_placeholder_names(rng)
    for sql, got, want in sbad[:2]:
        violations.append(core.Violation('naming', f'{sql}: column named {got!r}, expected the source text {want!r}',
                                         {'sql': sql, 'got': got, 'want': want}, signature='naming:' + sql))
    nb, wbad = beancount_wildcards()
    for name, got, want in wbad[:2]:
        violations.append(core.Violation('wildcard', f'SELECT * FROM #{name}: {got} but the table declares {want}',
                                         {'table': name, 'got': got, 'want': want}, signature='wildcard:' + name))
    rviol, rcov = cursor_reuse_stream(tier, rng)
    violations.extend(rviol)
    ecov, ebad = empty_name_probe()
    for sql, names, widths in ebad[:2]:
        violations.append(core.Violation('naming', f'{sql!r}: row widths {widths} differ from the {len(names)} described columns '
                                         f'{names} (a target named by the empty string is described but not projected)',
                                         {'kind': 'empty-name', 'sql': sql, 'names': names, 'widths': widths},
                                         signature='naming:empty-name:' + sql))
    cov = {
        'evaluations': len(cases) + nb + ns + rcov['cursor_reuse_sequences'], 'structured_and_placeholder_targets': ns, 'distinct_nontrivial': nontrivial,
        'rule': 'random SELECT lists of 1-4 targets (aliased / bare column / expression of depth<=3) written with random white space, '
                'comments, redundant parentheses, unary +, upper-case identifiers; hidden ORDER BY / GROUP BY / HAVING helpers; '
                'optionally wrapped as SELECT * FROM (...); every Beancount table with * and with all columns; '
                'non-trivial = case with an expression-named target and hidden helper expressions',
        'samples': [statement(c) for c in cases[:4]],
        'traces_validated_against_impl': len(cases), 'histograms': hist, 'beancount_tables_checked': nb,
    }
    cov.update(rcov)
    cov['empty_name_probe'] = ecov
    sviol, scov = string_constant_stream(tier, rng)      # (fix-I) drawn last: the streams above see the random numbers they saw before
    violations.extend(sviol)
    cov.update(scov)
    cov['evaluations'] += scov['string_constant_cases']
    cov['rule'] += ('; string constants: 1-4 targets built around string constants whose content looks like BQL syntax (; /* */ -- # '
                    'quotes of the other kind, commas, parentheses, keywords, newlines) at the end / start / middle of an un-aliased '
                    'target, inside function arguments and IN lists, with random spacing, comments, redundant parentheses and '
                    'end-of-line comments after the statement: names vs Model/Naming.v on the exact slice, parse(name) = the target')
    cov['rule'] += ('; cursor re-use: sequences of 2-7 statements on ONE cursor of a Beancount connection (statements refused after '
                    'their FROM clause was compiled - unknown column / function / ORDER BY index over every table, subqueries, FROM '
                    'expressions - and PRINT, wildcard statements with and without FROM, plain statements): description names and '
                    'row widths of every statement equal those on a fresh connection and, for wildcards over a named table, the '
                    'introspected declaration order')
    return {'coverage': cov, 'violations': violations}


def replay(rec):
    if rec.get('kind') == 'cursor-reuse':
        with tempfile.NamedTemporaryFile('w', suffix='.beancount', delete=False) as f:
            f.write(rec['ledger'])
        try:
            fresh = {s['sql']: run_reuse_fresh((f.name, s['sql'])) for s in rec['steps']}
            return reuse_first_bad(rec['steps'], run_reuse_impl((f.name, [s['sql'] for s in rec['steps']])), fresh) is None
        finally:
            os.unlink(f.name)
    if rec.get('kind') == 'empty-name':
        return not empty_name_probe([rec['sql']])[1]
    if rec.get('kind') == 'string-constants':
        c = rec['case']
        return judge(c, run_impl(c), [t['expected'] for t in c['targets']]) is None
    if 'sql' not in rec:
        return not beancount_wildcards()[1]
    c = rec['case']
    io = run_impl(c)
    return 'error' not in io and io['names'] == [t['expected'] for t in c['targets']]
