"""Translator-based tie of the stateful API code (bld-api): groups `params` (C09), `naming` (C07), `shell` (C19).

ApiTranslator extends py2mini.FuncTranslator by a few desugaring rules.  Each rule maps a Python construct to a PyMini
term built from the EXISTING constructors (mostly XPrim), so Model/PyMini.v is unchanged; what the primitives mean is
fixed in coq/Model/PrimsApi.v (trusted, documented there).  Rules (R1..R9):

R1 raise E(msg)              -> SExpr (XPrim "raise" [<qualified name of E>; <leading constant text of msg>; msg])
                                (the primitive returns Exc kind; the kind is a function of the class and the leading text)
R2 {e for x in it}           -> XPrim "builtins.set" [[e for x in it]]; a local assigned once from a set comprehension is
                                set-typed, and `a - b` with a set-typed left operand -> XPrim "set.difference" [a; b]
R3 {k: v for a, b in it}     -> XPrim "builtins.dict" [[(k, v) for $t in it]] with a := $t[0], b := $t[1]
R4 sorted(xs, key=lambda v: e) (xs a local name) -> XPrim "sorted_by" [xs; [e for v in xs]]
R5 isinstance(x, C)          -> XPrim "isinstance:<qualified name of C>" [x]   (C a class or a tuple of classes, static)
R6 f'..{e}..'                -> XPrim "fstring" [parts]                          (text building: an uninterpreted oracle)
R7 e[i] (no slice)           -> XPrim "getitem" [e; i]                           (lists, tuples, mappings, strings)
R8 {a, b, c} as right operand of in / not in -> the list of its elements
R9 f(args, k=v) on an opaque callable -> XCall (PRef "<name>:k") (args ++ [v]);  super().m(args) -> XPrim "super.m" (self :: args)
"""
import ast
import inspect

from . import py2mini
from .py2mini import FuncTranslator, Untranslatable, glist, gstr, gopt

PRIMS = ('builtins.all', 'builtins.any', 'builtins.sorted', 'builtins.enumerate', 'builtins.id', 'builtins.getattr',
         'builtins.repr', 'builtins.str', 'builtins.type', 'builtins.setattr')


def qualname(obj):
    mod = getattr(obj, '__module__', None)
    qn = getattr(obj, '__qualname__', None) or getattr(obj, '__name__', None) or getattr(obj, '_name', None)
    if not mod or not qn:
        raise Untranslatable(f'cannot name {obj!r}')
    return f'{mod}.{qn}'


class ApiTranslator(FuncTranslator):
    def __init__(self, func, refs, self_name='self', prims=()):
        super().__init__(func, refs, self_name=self_name, prims=prims)
        self.alias = {}
        # R2: locals assigned exactly once, from a set comprehension
        stores = {}
        for n in ast.walk(self.fd):
            if isinstance(n, ast.Assign) and len(n.targets) == 1 and isinstance(n.targets[0], ast.Name):
                stores.setdefault(n.targets[0].id, []).append(n.value)
            elif isinstance(n, (ast.AugAssign, ast.For, ast.comprehension)):
                for t in ast.walk(n.target):
                    if isinstance(t, ast.Name):
                        stores.setdefault(t.id, []).append(None)
        self.settyped = {k for k, v in stores.items() if len(v) == 1 and isinstance(v[0], ast.SetComp)}

    def static(self, e):
        """the object a dotted free name denotes, or Untranslatable"""
        d = self.dotted(e) if isinstance(e, (ast.Attribute, ast.Name)) else None
        if d is None or (isinstance(e, ast.Name) and e.id in self.locals):
            raise Untranslatable(f'not a static name: {ast.dump(e)[:60]}')
        obj = self.resolve_free(d.split('.')[0])
        for a in d.split('.')[1:]:
            obj = getattr(obj, a)
        return obj

    def strconst(self, s):
        return '(XConst (PV (VStr ' + glist([str(ord(c)) for c in s]) + ')))'

    def comp(self, elt_fn, g):
        """[elt for target in iter]; elt_fn() is called after the target is bound"""
        if g.ifs and len(g.ifs) > 1 or g.is_async:
            raise Untranslatable('comprehension with several conditions')
        it = self.expr(g.iter)
        saved = dict(self.alias)
        if isinstance(g.target, ast.Name):
            var = g.target.id
            self.locals.add(var)
        elif isinstance(g.target, ast.Tuple) and all(isinstance(t, ast.Name) for t in g.target.elts):
            var = '$t'
            self.locals.add(var)
            for i, t in enumerate(g.target.elts):
                self.alias[t.id] = f'(XIndex (XName {gstr(var)}) (XConst (PInt {i})))'
        else:
            raise Untranslatable('comprehension target')
        cond = gopt(self.expr(g.ifs[0]) if g.ifs else None)
        elt = elt_fn()
        self.alias = saved
        return f'(XListComp {elt} {gstr(var)} {it} {cond})'

    def expr(self, e):
        if isinstance(e, ast.Name) and e.id in self.alias:
            return self.alias[e.id]
        if isinstance(e, ast.SetComp):                                                  # R2
            if len(e.generators) != 1:
                raise Untranslatable('nested comprehension')
            return f'(XPrim "builtins.set" [{self.comp(lambda: self.expr(e.elt), e.generators[0])}])'
        if isinstance(e, ast.BinOp) and isinstance(e.op, ast.Sub) and isinstance(e.left, ast.Name) \
                and e.left.id in self.settyped:                                         # R2
            return f'(XPrim "set.difference" [{self.expr(e.left)}; {self.expr(e.right)}])'
        if isinstance(e, ast.DictComp):                                                 # R3
            if len(e.generators) != 1:
                raise Untranslatable('nested comprehension')
            pair = lambda: f'(XTuple [{self.expr(e.key)}; {self.expr(e.value)}])'  # noqa: E731
            return f'(XPrim "builtins.dict" [{self.comp(pair, e.generators[0])}])'
        if isinstance(e, ast.JoinedStr):                                                # R6
            parts = []
            for v in e.values:
                if isinstance(v, ast.Constant):
                    parts.append(self.strconst(v.value))
                elif isinstance(v, ast.FormattedValue) and v.format_spec is None:
                    parts.append(self.expr(v.value))
                else:
                    raise Untranslatable('format spec in f-string')
            return f'(XPrim "fstring" {glist(parts)})'
        if isinstance(e, ast.Subscript) and not isinstance(e.slice, ast.Slice):       # R7
            return f'(XPrim "getitem" [{self.expr(e.value)}; {self.expr(e.slice)}])'
        if isinstance(e, ast.Compare) and len(e.ops) == 1 and isinstance(e.ops[0], (ast.In, ast.NotIn)) \
                and isinstance(e.comparators[0], ast.Set):                              # R8
            op = 'CIn' if isinstance(e.ops[0], ast.In) else 'CNotIn'
            items = glist([self.expr(x) for x in e.comparators[0].elts])
            return f'(XCompare {self.expr(e.left)} [({op}, (XList {items}))])'
        if isinstance(e, ast.Call):
            f = e.func
            if isinstance(f, ast.Name) and f.id == 'isinstance' and f.id not in self.locals and len(e.args) == 2 \
                    and not e.keywords:                                                 # R5
                c = e.args[1]
                classes = c.elts if isinstance(c, ast.Tuple) else [c]
                names = '|'.join(qualname(self.static(x)) for x in classes)
                return f'(XPrim {gstr("isinstance:" + names)} [{self.expr(e.args[0])}])'
            if isinstance(f, ast.Name) and f.id == 'sorted' and f.id not in self.locals and len(e.args) == 1 \
                    and [k.arg for k in e.keywords] == ['key'] and isinstance(e.keywords[0].value, ast.Lambda) \
                    and isinstance(e.args[0], ast.Name) and e.args[0].id in self.locals:  # R4
                lam = e.keywords[0].value
                if len(lam.args.args) != 1 or lam.args.defaults or lam.args.vararg or lam.args.kwarg:
                    raise Untranslatable('key function with several parameters')
                v = lam.args.args[0].arg
                self.locals.add(v)
                xs = self.expr(e.args[0])
                return f'(XPrim "sorted_by" [{xs}; (XListComp {self.expr(lam.body)} {gstr(v)} {xs} None)])'
            if isinstance(f, ast.Attribute) and isinstance(f.value, ast.Call) and isinstance(f.value.func, ast.Name) \
                    and f.value.func.id == 'super' and not f.value.args and not e.keywords:  # R9
                args = [f'(XName {gstr(self.self_name)})'] + [self.expr(a) for a in e.args]
                return f'(XPrim {gstr("super." + f.attr)} {glist(args)})'
            if e.keywords and all(k.arg for k in e.keywords) and isinstance(f, (ast.Name, ast.Attribute)) \
                    and not any(isinstance(a, ast.Starred) for a in e.args):            # R9
                d = self.dotted(f)
                if d is not None and not (isinstance(f, ast.Name) and f.id in self.locals):
                    ident = self.ident_of(d.split('.')[0], d)
                    if ident not in self.prims:
                        kws = ','.join(k.arg for k in e.keywords)
                        k = self.refs.ref(f'{ident}:{kws}')
                        args = [self.expr(a) for a in e.args] + [self.expr(k_.value) for k_ in e.keywords]
                        return f'(XCall (XConst (PRef {k})) {glist(args)} None)'
        return super().expr(e)

    def stmt(self, s):
        if isinstance(s, ast.Raise) and s.exc is not None and s.cause is None:         # R1
            exc = s.exc
            if isinstance(exc, ast.Call) and not exc.keywords and len(exc.args) <= 1:
                cls = qualname(self.static(exc.func))
                if exc.args:
                    m = exc.args[0]
                    if isinstance(m, ast.Constant) and isinstance(m.value, str):
                        lead, msg = m.value, '(XConst PNone)'     # the whole message is the leading text
                    elif isinstance(m, ast.JoinedStr):
                        lead = m.values[0].value if m.values and isinstance(m.values[0], ast.Constant) else ''
                    else:
                        lead = ''
                    if not (isinstance(m, ast.Constant) and isinstance(m.value, str)):
                        msg = self.expr(m)
                else:
                    lead, msg = '', '(XConst PNone)'
                return f'(SExpr (XPrim "raise" [{self.strconst(cls)}; {self.strconst(lead)}; {msg}]))'
            if isinstance(exc, ast.Name) and exc.id not in self.locals:
                cls = qualname(self.static(exc))
                return f'(SExpr (XPrim "raise" [{self.strconst(cls)}; {self.strconst("")}; (XConst PNone)]))'
            raise Untranslatable(f'raise {ast.dump(exc)[:80]}')
        return super().stmt(s)

    @staticmethod
    def translate_all(spec, prims=()):
        refs = py2mini.Refs()
        defs, info = [], {}
        for name, fn, origin in spec:
            tr = ApiTranslator(fn, refs, prims=prims)
            term, defaults = tr.translate()
            defs.append((name, origin, term, defaults))
            info[name] = {'origin': origin, 'lines': len(inspect.getsource(fn).splitlines())}
        return py2mini.render(defs, refs), info


# ------------------------------------------------------------------------------------------------ specs
def spec_params():
    """C09: placeholder validation and binding in the compiler; the Connection wrappers"""
    import beanquery
    from beanquery import compiler
    K, C = compiler.Compiler, beanquery.Connection
    placeholder = K.__dict__['_compile'].dispatcher.dispatch(compiler.ast.Placeholder)
    if placeholder.__name__ != '_placeholder':
        raise Untranslatable(f'Compiler._compile does not dispatch ast.Placeholder to _placeholder: {placeholder!r}')
    return [
        ('compiler_compile', K.compile, 'beanquery.compiler.Compiler.compile'),
        ('compiler_placeholder', placeholder, 'beanquery.compiler.Compiler._placeholder (the handler _compile '
                                              'dispatches ast.Placeholder to)'),
        ('compiler_compile_fn', compiler.compile, 'beanquery.compiler.compile'),
        ('connection_execute', C.execute, 'beanquery.Connection.execute'),
        ('connection_cursor', C.cursor, 'beanquery.Connection.cursor'),
        ('connection_parse', C.parse, 'beanquery.Connection.parse'),
        ('connection_compile', C.compile, 'beanquery.Connection.compile'),
    ]


def spec_naming():
    """C07: the name of an output column"""
    from beanquery import compiler
    return [('get_target_name', compiler.get_target_name, 'beanquery.compiler.get_target_name')]


def spec_shell():
    """C19: command dispatch and the settings parsers"""
    from beanquery import shell
    D, S = shell.DispatchingShell, shell.Settings
    return [
        ('shell_parseline', D.parseline, 'beanquery.shell.DispatchingShell.parseline'),
        ('shell_onecmd', D.onecmd, 'beanquery.shell.DispatchingShell.onecmd'),
        ('settings_parse_bool', S._parse_bool, 'beanquery.shell.Settings._parse_bool'),
    ]


def register(groups):
    opts = {'translator': ApiTranslator, 'prims': PRIMS}
    groups['params'] = ('SrcParams.v', spec_params, opts)
    groups['naming'] = ('SrcNaming.v', spec_naming, opts)
    groups['shell'] = ('SrcShell.v', spec_shell, opts)
