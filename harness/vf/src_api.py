"""Translator-based tie of the stateful API code (bld-api): groups `params` (C09), `naming` (C07), `shell` (C19).

ApiTranslator extends py2mini.FuncTranslator by a few desugaring rules.  Each rule maps a Python construct to a PyMini
term built from the EXISTING constructors (mostly XPrim), so Model/PyMini.v is unchanged; what the primitives mean is
fixed in coq/Model/PrimsApi.v (trusted, documented there).  Rules (R1..R9):

R1 raise E(msg)              -> SExpr (XPrim "raise" [<qualified name of E>; <leading constant text of msg>; msg])
                                (the primitive returns Exc kind; the kind is a function of the class and the leading text)
R2 {e for x in it}           -> XPrim "builtins.set" [[e for x in it]]; a local assigned once from a set comprehension is
                                set-typed, and `a - b` with a set-typed left operand -> XPrim "set.difference" [a; b]
R3 {k: v for a, b in it}     -> XPrim "builtins.dict" [[(k, v) for $t in it]] with a := $t[0], b := $t[1]
R4 sorted(xs, key=lambda v: e) (xs a local name) -> XPrim "sorted_by" [xs; [e for v in xs]]
R5 isinstance(x, C)          -> XPrim "isinstance:<qualified name of C>" [x]   (C a class or a tuple of classes, static)
R6 f'..{e}..'                -> XPrim "fstring" [parts]                          (text building: an uninterpreted oracle)
R7 e[i] (no slice)           -> XPrim "getitem" [e; i]                           (lists, tuples, mappings, strings)
R8 {a, b, c} as right operand of in / not in -> the list of its elements
R9 f(args, k=v) on an opaque callable -> XCall (PRef "<name>:k") (args ++ [v]);  super().m(args) -> XPrim "super.m" (self :: args)
R10 effects: print(x, file=self.outfile) / print(x) / self.error(x) as STATEMENTS -> append ("outfile"|"stdout"|"error", x) to
    the reserved attribute self.$events (the shell's output is the list of what was written, in order)
R11 self.<attr>.<m>(args) with m a declared mutator (setstr) -> XMethod (TSelf attr) m args ("method:m" returns the new object)
R12 `except E as ex` where ex occurs only as str(ex): str(ex) -> XPrim "exc_text" [] (uninterpreted text)
R13 try with two handlers whose first handler consists of effect statements only -> nested STry
R14 for x in E (E a name or attribute) -> SFor x (XPrim "iter" [E])
R15 a in E / a not in E, E not a literal -> XPrim "contains" [E; a]; E a module-level global -> XPrim "contains:<name>" [a]
R16 value receivers (self_name=None: `self` is an ordinary value): setattr(x, n, v) as a statement, x a local ->
    x = XPrim "builtins.setattr" [x; n; v];  x.a.b = v, x a local -> x = XPrim "setpath:a.b" [x; v]
A function may take **kwargs (dropped) when the body never mentions it.
"""
import ast
import inspect

from . import py2mini
from .py2mini import FuncTranslator, Untranslatable, glist, gstr, gopt

PRIMS = ('shlex.split', 'builtins.all', 'builtins.any', 'builtins.sorted', 'builtins.enumerate', 'builtins.id', 'builtins.getattr',
         'builtins.repr', 'builtins.str', 'builtins.type', 'builtins.setattr')


def qualname(obj):
    mod = getattr(obj, '__module__', None)
    qn = getattr(obj, '__qualname__', None) or getattr(obj, '__name__', None) or getattr(obj, '_name', None)
    if not mod or not qn:
        raise Untranslatable(f'cannot name {obj!r}')
    return f'{mod}.{qn}'


class ApiTranslator(FuncTranslator):
    MUTATORS = {'setstr'}
    EFFECT_METHODS = {'error'}

    def __init__(self, func, refs, self_name='self', prims=(), select=None):
        import textwrap
        self.func = func
        self.refs = refs
        self.self_name = self_name
        self.prims = set(prims)
        fd = ast.parse(textwrap.dedent(inspect.getsource(func))).body[0]
        if not isinstance(fd, ast.FunctionDef):
            raise Untranslatable(f'not a plain function: {ast.dump(fd)[:80]}')
        if select is not None:
            # a statement range, chosen by structure (never by line number); the rest of the body is not translated
            fd.body = select(fd.body)
        self.fd = fd
        a = fd.args
        if a.vararg or a.kwonlyargs or a.posonlyargs:
            raise Untranslatable('only positional parameters are supported')
        if a.kwarg and any(isinstance(n, ast.Name) and n.id == a.kwarg.arg for n in ast.walk(fd)):
            raise Untranslatable('**kwargs is used')
        self.params = [x.arg for x in a.args]
        self.defaults = a.defaults
        self.locals = set(self.params)
        for n in ast.walk(fd):
            if isinstance(n, ast.Name) and isinstance(n.ctx, ast.Store):
                self.locals.add(n.id)
        cv = inspect.getclosurevars(func)
        self.free = dict(cv.builtins)
        self.free.update(cv.globals)
        self.free.update(cv.nonlocals)
        self.nonlocals = set(cv.nonlocals)
        self.alias = {}
        # R2: locals assigned exactly once, from a set comprehension
        stores = {}
        for n in ast.walk(self.fd):
            if isinstance(n, ast.Assign) and len(n.targets) == 1 and isinstance(n.targets[0], ast.Name):
                stores.setdefault(n.targets[0].id, []).append(n.value)
            elif isinstance(n, (ast.AugAssign, ast.For, ast.comprehension)):
                for t in ast.walk(n.target):
                    if isinstance(t, ast.Name):
                        stores.setdefault(t.id, []).append(None)
        self.settyped = {k for k, v in stores.items() if len(v) == 1 and isinstance(v[0], ast.SetComp)}

    def is_selfattr(self, e):
        return isinstance(e, ast.Attribute) and isinstance(e.value, ast.Name) and e.value.id == self.self_name

    def effect(self, s):
        """R10: the event an effect statement appends, or None"""
        if not (isinstance(s, ast.Expr) and isinstance(s.value, ast.Call)):
            return None
        c = s.value
        if isinstance(c.func, ast.Name) and c.func.id == 'print' and 'print' not in self.locals and len(c.args) == 1:
            kws = {k.arg: k.value for k in c.keywords}
            if not kws:
                chan = 'stdout'
            elif set(kws) == {'file'} and self.is_selfattr(kws['file']) and kws['file'].attr == 'outfile':
                chan = 'outfile'
            else:
                return None
            return chan, c.args[0]
        if self.is_selfattr(c.func) and c.func.attr in self.EFFECT_METHODS and len(c.args) == 1 and not c.keywords:
            return c.func.attr, c.args[0]
        return None

    def static(self, e):
        """the object a dotted free name denotes, or Untranslatable"""
        d = self.dotted(e) if isinstance(e, (ast.Attribute, ast.Name)) else None
        if d is None or (isinstance(e, ast.Name) and e.id in self.locals):
            raise Untranslatable(f'not a static name: {ast.dump(e)[:60]}')
        obj = self.resolve_free(d.split('.')[0])
        for a in d.split('.')[1:]:
            obj = getattr(obj, a)
        return obj

    def strconst(self, s):
        return '(XConst (PV (VStr ' + glist([str(ord(c)) for c in s]) + ')))'

    def comp(self, elt_fn, g):
        """[elt for target in iter]; elt_fn() is called after the target is bound"""
        if g.ifs and len(g.ifs) > 1 or g.is_async:
            raise Untranslatable('comprehension with several conditions')
        it = self.expr(g.iter)
        saved = dict(self.alias)
        if isinstance(g.target, ast.Name):
            var = g.target.id
            self.locals.add(var)
        elif isinstance(g.target, ast.Tuple) and all(isinstance(t, ast.Name) for t in g.target.elts):
            var = '$t'
            self.locals.add(var)
            for i, t in enumerate(g.target.elts):
                self.alias[t.id] = f'(XIndex (XName {gstr(var)}) (XConst (PInt {i})))'
        else:
            raise Untranslatable('comprehension target')
        cond = gopt(self.expr(g.ifs[0]) if g.ifs else None)
        elt = elt_fn()
        self.alias = saved
        return f'(XListComp {elt} {gstr(var)} {it} {cond})'

    def expr(self, e):
        if isinstance(e, ast.Name) and e.id in self.alias:
            return self.alias[e.id]
        if isinstance(e, ast.SetComp):                                                  # R2
            if len(e.generators) != 1:
                raise Untranslatable('nested comprehension')
            return f'(XPrim "builtins.set" [{self.comp(lambda: self.expr(e.elt), e.generators[0])}])'
        if isinstance(e, ast.BinOp) and isinstance(e.op, ast.Sub) and isinstance(e.left, ast.Name) \
                and e.left.id in self.settyped:                                         # R2
            return f'(XPrim "set.difference" [{self.expr(e.left)}; {self.expr(e.right)}])'
        if isinstance(e, ast.DictComp):                                                 # R3
            if len(e.generators) != 1:
                raise Untranslatable('nested comprehension')
            pair = lambda: f'(XTuple [{self.expr(e.key)}; {self.expr(e.value)}])'  # noqa: E731
            return f'(XPrim "builtins.dict" [{self.comp(pair, e.generators[0])}])'
        if isinstance(e, ast.Dict) and all(k is not None for k in e.keys):               # R3 (display)
            items = glist([f'(XTuple [{self.expr(k)}; {self.expr(v)}])' for k, v in zip(e.keys, e.values)])
            return f'(XPrim "builtins.dict" [(XList {items})])'
        if isinstance(e, ast.JoinedStr):                                                # R6
            parts = []
            for v in e.values:
                if isinstance(v, ast.Constant):
                    parts.append(self.strconst(v.value))
                elif isinstance(v, ast.FormattedValue) and v.format_spec is None:
                    parts.append(self.expr(v.value))
                else:
                    raise Untranslatable('format spec in f-string')
            return f'(XPrim "fstring" {glist(parts)})'
        if isinstance(e, ast.Subscript) and not isinstance(e.slice, ast.Slice):       # R7
            return f'(XPrim "getitem" [{self.expr(e.value)}; {self.expr(e.slice)}])'
        if isinstance(e, ast.Compare) and len(e.ops) == 1 and isinstance(e.ops[0], (ast.In, ast.NotIn)) \
                and isinstance(e.comparators[0], ast.Set):                              # R8
            op = 'CIn' if isinstance(e.ops[0], ast.In) else 'CNotIn'
            items = glist([self.expr(x) for x in e.comparators[0].elts])
            return f'(XCompare {self.expr(e.left)} [({op}, (XList {items}))])'
        if isinstance(e, ast.Compare) and len(e.ops) == 1 and isinstance(e.ops[0], (ast.In, ast.NotIn)) \
                and not isinstance(e.comparators[0], (ast.List, ast.Tuple)):               # R15
            c = e.comparators[0]
            try:
                obj = self.static(c)
            except Untranslatable:
                obj = None
            if obj is not None and isinstance(c, ast.Name) and isinstance(obj, (dict, set, frozenset, list, tuple)):
                mod = getattr(self.func, '__module__', '?')
                t = f'(XPrim {gstr("contains:" + mod + "." + c.id)} [{self.expr(e.left)}])'
            else:
                t = f'(XPrim "contains" [{self.expr(c)}; {self.expr(e.left)}])'
            return t if isinstance(e.ops[0], ast.In) else f'(XNot {t})'
        if isinstance(e, ast.Call):
            f = e.func
            if isinstance(f, ast.Name) and f.id == 'str' and len(e.args) == 1 and isinstance(e.args[0], ast.Name) \
                    and e.args[0].id in getattr(self, 'exc_names', ()):                    # R12
                return '(XPrim "exc_text" [])'
            if isinstance(f, ast.Attribute) and f.attr in self.MUTATORS and self.is_selfattr(f.value) \
                    and not e.keywords and not any(isinstance(a, ast.Starred) for a in e.args):  # R11
                return (f'(XMethod (TSelf {gstr(f.value.attr)}) {gstr(f.attr)} '
                        f'{glist([self.expr(a) for a in e.args])})')
            if isinstance(f, ast.Name) and f.id == 'isinstance' and f.id not in self.locals and len(e.args) == 2 \
                    and not e.keywords:                                                 # R5
                c = e.args[1]
                classes = c.elts if isinstance(c, ast.Tuple) else [c]
                names = '|'.join(qualname(self.static(x)) for x in classes)
                return f'(XPrim {gstr("isinstance:" + names)} [{self.expr(e.args[0])}])'
            if isinstance(f, ast.Name) and f.id == 'sorted' and f.id not in self.locals and len(e.args) == 1 \
                    and [k.arg for k in e.keywords] == ['key'] and isinstance(e.keywords[0].value, ast.Lambda) \
                    and isinstance(e.args[0], ast.Name) and e.args[0].id in self.locals:  # R4
                lam = e.keywords[0].value
                if len(lam.args.args) != 1 or lam.args.defaults or lam.args.vararg or lam.args.kwarg:
                    raise Untranslatable('key function with several parameters')
                v = lam.args.args[0].arg
                self.locals.add(v)
                xs = self.expr(e.args[0])
                return f'(XPrim "sorted_by" [{xs}; (XListComp {self.expr(lam.body)} {gstr(v)} {xs} None)])'
            if isinstance(f, ast.Attribute) and isinstance(f.value, ast.Call) and isinstance(f.value.func, ast.Name) \
                    and f.value.func.id == 'super' and not f.value.args and not e.keywords:  # R9
                args = [f'(XName {gstr(self.self_name)})'] + [self.expr(a) for a in e.args]
                return f'(XPrim {gstr("super." + f.attr)} {glist(args)})'
            if e.keywords and all(k.arg for k in e.keywords) and isinstance(f, (ast.Name, ast.Attribute)) \
                    and not any(isinstance(a, ast.Starred) for a in e.args):            # R9
                d = self.dotted(f)
                if d is not None and not (isinstance(f, ast.Name) and f.id in self.locals):
                    ident = self.ident_of(d.split('.')[0], d)
                    if ident not in self.prims:
                        kws = ','.join(k.arg for k in e.keywords)
                        k = self.refs.ref(f'{ident}:{kws}')
                        args = [self.expr(a) for a in e.args] + [self.expr(k_.value) for k_ in e.keywords]
                        return f'(XCall (XConst (PRef {k})) {glist(args)} None)'
        return super().expr(e)

    def stmt(self, s):
        ev = self.effect(s)
        if ev is not None:                                                              # R10
            chan, arg = ev
            return (f'(SExpr (XMethod (TSelf "$events") "append" '
                    f'[(XTuple [{self.strconst(chan)}; {self.expr(arg)}])]))')
        if isinstance(s, ast.For) and isinstance(s.iter, (ast.Name, ast.Attribute)) and isinstance(s.target, ast.Name) \
                and not s.orelse:                                                       # R14
            return f'(SFor {gstr(s.target.id)} (XPrim "iter" [{self.expr(s.iter)}]) {self.block(s.body)})'
        if isinstance(s, ast.Try) and not s.orelse and not s.finalbody and s.handlers:  # R12, R13
            def kinds(h):
                names = h.type.elts if isinstance(h.type, ast.Tuple) else [h.type]
                out = []
                for n in names:
                    nm = n.attr if isinstance(n, ast.Attribute) else getattr(n, 'id', None)
                    if nm not in py2mini.EXC_KINDS:
                        raise Untranslatable(f'exception class {nm}')
                    out.append(str(py2mini.EXC_KINDS[nm]))
                return out
            if all(h.type is not None for h in s.handlers) and len(s.handlers) <= 2:
                for h in s.handlers[:-1]:
                    if not all(self.effect(x) is not None for x in h.body):
                        raise Untranslatable('a handler that is not the last one must consist of effect statements')
                term = self.block(s.body)
                for h in s.handlers:
                    if h.name is not None:
                        uses = [n for x in h.body for n in ast.walk(x) if isinstance(n, ast.Name) and n.id == h.name]
                        calls = [n for x in h.body for n in ast.walk(x)
                                 if isinstance(n, ast.Call) and isinstance(n.func, ast.Name) and n.func.id == 'str'
                                 and len(n.args) == 1 and isinstance(n.args[0], ast.Name) and n.args[0].id == h.name]
                        if len(uses) != len(calls):
                            raise Untranslatable('exception variable used other than as str(ex)')
                        self.exc_names = getattr(self, 'exc_names', set()) | {h.name}
                    term = f'[(STry {term} {glist(kinds(h))} {self.block(h.body)})]'
                return term[1:-1]
        if isinstance(s, ast.Expr) and isinstance(s.value, ast.Call) and isinstance(s.value.func, ast.Name) \
                and s.value.func.id == 'setattr' and len(s.value.args) == 3 and isinstance(s.value.args[0], ast.Name) \
                and s.value.args[0].id in self.locals and not s.value.keywords:          # R16
            x = s.value.args[0].id
            args = glist([self.expr(a) for a in s.value.args])
            return f'(SAssign (TName {gstr(x)}) (XPrim "builtins.setattr" {args}))'
        if isinstance(s, ast.Assign) and len(s.targets) == 1 and isinstance(s.targets[0], ast.Attribute):  # R16
            path, t = [], s.targets[0]
            while isinstance(t, ast.Attribute):
                path.append(t.attr)
                t = t.value
            if isinstance(t, ast.Name) and t.id in self.locals and t.id != self.self_name:
                nm = 'setpath:' + '.'.join(reversed(path))
                return (f'(SAssign (TName {gstr(t.id)}) (XPrim {gstr(nm)} '
                        f'[(XName {gstr(t.id)}); {self.expr(s.value)}]))')
        if isinstance(s, ast.Raise) and s.exc is not None and s.cause is None:         # R1
            exc = s.exc
            if isinstance(exc, ast.Call) and not exc.keywords and len(exc.args) <= 1:
                cls = qualname(self.static(exc.func))
                if exc.args:
                    m = exc.args[0]
                    if isinstance(m, ast.Constant) and isinstance(m.value, str):
                        lead, msg = m.value, '(XConst PNone)'     # the whole message is the leading text
                    elif isinstance(m, ast.JoinedStr):
                        lead = m.values[0].value if m.values and isinstance(m.values[0], ast.Constant) else ''
                    else:
                        lead = ''
                    if not (isinstance(m, ast.Constant) and isinstance(m.value, str)):
                        msg = self.expr(m)
                else:
                    lead, msg = '', '(XConst PNone)'
                return f'(SExpr (XPrim "raise" [{self.strconst(cls)}; {self.strconst(lead)}; {msg}]))'
            if isinstance(exc, ast.Name) and exc.id not in self.locals:
                cls = qualname(self.static(exc))
                return f'(SExpr (XPrim "raise" [{self.strconst(cls)}; {self.strconst("")}; (XConst PNone)]))'
            raise Untranslatable(f'raise {ast.dump(exc)[:80]}')
        return super().stmt(s)

    @staticmethod
    def translate_all(spec, prims=()):
        refs = py2mini.Refs()
        defs, info = [], {}
        for name, fn, origin, *rest in spec:
            tr = ApiTranslator(fn, refs, prims=prims, **(rest[0] if rest else {}))
            term, defaults = tr.translate()
            defs.append((name, origin, term, defaults))
            info[name] = {'origin': origin, 'lines': len(inspect.getsource(fn).splitlines())}
        return py2mini.render(defs, refs), info


# ------------------------------------------------------------------------------------------------ specs
def leading_self_assignments(body):
    out = []
    for st in body:
        if isinstance(st, ast.Expr) and isinstance(st.value, ast.Constant) and isinstance(st.value.value, str) and not out:
            continue
        if isinstance(st, ast.Assign) and len(st.targets) == 1 and isinstance(st.targets[0], ast.Attribute) \
                and isinstance(st.targets[0].value, ast.Name) and st.targets[0].value.id == 'self':
            out.append(st)
        else:
            break
    if not out:
        raise Untranslatable('no leading self.<attr> = ... statements')
    return out


def spec_params():
    """C09: placeholder validation and binding in the compiler; the Connection wrappers"""
    import beanquery
    from beanquery import compiler
    K, C = compiler.Compiler, beanquery.Connection
    placeholder = K.__dict__['_compile'].dispatcher.dispatch(compiler.ast.Placeholder)
    if placeholder.__name__ != '_placeholder':
        raise Untranslatable(f'Compiler._compile does not dispatch ast.Placeholder to _placeholder: {placeholder!r}')
    return [
        ('compiler_compile', K.compile, 'beanquery.compiler.Compiler.compile'),
        ('compiler_placeholder', placeholder, 'beanquery.compiler.Compiler._placeholder (the handler _compile '
                                              'dispatches ast.Placeholder to)'),
        ('compiler_compile_fn', compiler.compile, 'beanquery.compiler.compile'),
        ('connection_init_state', C.__init__, 'beanquery.Connection.__init__: the leading `self.<attr> = ...` statements '
                                              '(the per-connection state; what follows attaches a data source)',
         {'select': leading_self_assignments}),
        ('connection_execute', C.execute, 'beanquery.Connection.execute'),
        ('connection_cursor', C.cursor, 'beanquery.Connection.cursor'),
        ('connection_parse', C.parse, 'beanquery.Connection.parse'),
        ('connection_compile', C.compile, 'beanquery.Connection.compile'),
    ]


def spec_naming():
    """C07: the name of an output column"""
    from beanquery import compiler
    return [('get_target_name', compiler.get_target_name, 'beanquery.compiler.get_target_name')]


def spec_shell():
    """C19: command dispatch and the settings parsers"""
    from beanquery import shell
    D, S = shell.DispatchingShell, shell.Settings
    return [
        ('shell_parseline', D.parseline, 'beanquery.shell.DispatchingShell.parseline'),
        ('shell_onecmd', D.onecmd, 'beanquery.shell.DispatchingShell.onecmd'),
        ('settings_parse_bool', S._parse_bool, 'beanquery.shell.Settings._parse_bool'),
        ('settings_parse_format', S._parse_format, 'beanquery.shell.Settings._parse_format'),
        # value receivers: `self` is an ordinary value (a record), so getattr / setattr / todict are primitives
        ('settings_getstr', S.getstr, 'beanquery.shell.Settings.getstr (self as a value)', {'self_name': None}),
        ('settings_setstr', S.setstr, 'beanquery.shell.Settings.setstr (self as a value)', {'self_name': None}),
        ('shell_do_set', D.do_set, 'beanquery.shell.DispatchingShell.do_set'),
        ('shell_parse', shell.BQLShell.parse, 'beanquery.shell.BQLShell.parse'),
    ]


def register(groups):
    opts = {'translator': ApiTranslator, 'prims': PRIMS}
    groups['params'] = ('SrcParams.v', spec_params, opts)
    groups['naming'] = ('SrcNaming.v', spec_naming, opts)
    groups['shell'] = ('SrcShell.v', spec_shell, opts)
