"""Access to the implementation under test (always imported from the working tree)."""
import datetime
import decimal
import os
import sys

REPO = os.environ.get('VERIF_REPO', '/repo')
if REPO not in sys.path:
    sys.path.insert(0, REPO)

import beanquery  # noqa: E402
from beanquery import query_compile, tables, query_env  # noqa: E402,F401
from beanquery.sources import beancount as bq_beancount  # noqa: E402,F401

assert os.path.realpath(beanquery.__file__).startswith(os.path.realpath(REPO)), beanquery.__file__


def make_table(name, columns, rows):
    """A user table: `columns` is [(name, dtype)], `rows` a list of tuples.
    One accessor class per column (as BeanTable.column / SubqueryTable.column do),
    because EvalNode.__eq__ compares class + slots only."""
    cols = {}
    for i, (cname, dtype) in enumerate(columns):
        def mk(i=i, dtype=dtype, cname=cname):
            class Col(query_compile.EvalColumn):
                def __init__(self):
                    super().__init__(dtype)
                def __call__(self, row):
                    return row[i]
            Col.__name__ = f'Col_{name}_{cname}'
            return Col()
        cols[cname] = mk()

    class T(tables.Table):
        def __iter__(self):
            return iter(self.rows)
    T.__name__ = f'Table_{name}'
    t = T()
    t.columns = cols
    t.name = name
    t.rows = rows
    return t


def connection(tabs=None):
    conn = beanquery.Connection()
    for name, t in (tabs or {}).items():
        conn.tables[name] = t
    return conn


def exc_class(e):
    """Map an exception to a small enum for comparison."""
    if isinstance(e, beanquery.ParseError):
        return 'ParseError'
    if isinstance(e, beanquery.CompilationError):
        return 'CompilationError'
    if isinstance(e, beanquery.ProgrammingError):
        return 'ProgrammingError'
    return 'other:' + type(e).__name__
