"""C05: static validation is complete; rejections are ParseError/CompilationError only.

Three streams of statements -- valid, single-fault mutants (one per rule of the property text), corrupted
texts / arbitrary strings -- are run through the real parser + compiler (+ executor) and through the Coq
model Model/Compile.v (`compile_out`, evaluated by vm_compute on the Gallina translation of the parsed AST).
Compared: accept/reject, the error kind, and for accepted statements the compiled structure (target names,
dtypes, aggregate flags, chosen overloads, group_indexes, having_index, order_spec, pivots). Independent checks on
the implementation alone: exception class, parseinfo span, render_exception, and 'ill-formed by construction'
mutants must be rejected.  Stream "end-to-end": statements over a table WITH DATA are compiled, lowered to the
executor model (Model/Link.v) and executed inside Coq (`run_out`); the rows and description datatypes are compared
with what the implementation fetches."""
import datetime
import decimal
import io
import json
import re
import traceback

from . import core, impl, gen_registry, c05gen
from .core import cZ, clist, copt, cbool
from .c05gen import Reg, Gen, USER_TABLES

import beanquery
from beanquery import parser as bq_parser, compiler as bq_compiler, query_execute, query_compile, shell as bq_shell
from beanquery.parser import ast

D = decimal.Decimal
EXTRA_TARGETS = ['Proofs/RegistryTie.vo']
ASSUMPTIONS = [
    'end-to-end streams: a statement on which Python\'s date arithmetic raises OverflowError("date value out of range") is counted '
    '(histogram key date_overflow_counted_not_compared), not compared - the model\'s dates are unbounded; a statement the implementation '
    'rejects with the GROUP BY coverage error although two of its non-aggregate targets compile to EQUAL nodes is reported under the '
    'listed finding rejected:duplicate-grouped-target (the model keeps the provenance of folded constants apart)',
    'the connection has the Beancount source attached (a default `postings` table exists); Connection() without a source '
    'compiles column-free statements against table None and fails at execution -- outside the modelled environment',
    'statement ASTs are the parser\'s output (they carry parseinfo; target names and positional placeholder order come from it)',
    'TypeError for a wrong parameter container (mapping vs sequence) is API misuse, outside the property (modelled as its own kind)',
    'constant folding evaluates pure functions at compile time; exceptions from function bodies there (invalid regex, '
    'maxwidth < 5, splitcomp index) are C18\'s subject and are classified `fold-error`, not violations; two folded constants '
    'are equal in the model only if they are the same call on equal arguments',
    'parameter values are None/bool/int/Decimal/str/date',
    'registry histories (fix-G): each history runs in a fresh Python process that imports only `beanquery`; statements use `FROM #` '
    '(the NullTable of a bare Connection()); the oracle is a simulated registry in the harness: a call f(T..) is accepted exactly when '
    'an overload whose signature is in the product of the operand types\' MROs (bool < int; object never a base of a strict type) was '
    'registered before that statement, the first such signature in product order and the first registration of it winning; the '
    'harness-registered overloads return a constant tag and are marked __verif_harness__',
    'the registries, type table and table schemas are those of Model/RegistrySnapshot.v (kernel-checked equal to the live ones on every run)',
    'end-to-end stream: the executor model (Eval.v/Exec.v/Order.v/Pivot.v, validated by C01-C03/C15) is the meaning of a lowered '
    'query; strings in data and patterns contain no regular-expression metacharacters (Eval.v models ~ as case-insensitive '
    'substring search); x IN (subquery) is run by first running the subquery in the model and compiling `x IN <its items>` '
    '(what EvalConstantSubquery1D evaluates to; the inlined constant compares by value where the real node compares equal to '
    'every other IN-subquery, D25); a statement whose lowering is refused (IN over a column, FROM expressions on the Beancount '
    'tables, scalar functions beyond the 36 of Eval.v that Model/Typing.v types - the ten arithmetic/string ones and the total '
    'functions of the C18 library: year month day quarter weekday date_diff date_part date(y,m,d) date(x) str(x) int(x) decimal(bool|Decimal) '
    'root parent leaf round(int[, n]); the library functions that can raise (yearmonth date_add date_trunc date_bin splitcomp maxwidth '
    'round(Decimal) decimal(str)) are refused because Eval.eval does not propagate exceptions -, folded constants that evaluate to NULL, types outside '
    'int/Decimal/str/date/bool) is counted as not lowerable, not compared',
    'library functions in the end-to-end streams (C05 e2e:lib, C06 text-to-rows): strings are ASCII (int(str), date(str), upper/lower are the '
    'ASCII restrictions of the Python operations, as for C18); round(int, n) is modelled for every n, Python needs memory for 10**-n',
    'translator tie (C05_source_*; Gen/SrcLookup.v, Gen/SrcCompiler.v regenerated from types.py / compiler.py on every run): '
    'trusted are the PyMini semantics, the translator rules K1-K11 of harness/vf/src_compiler.py (assert, overload signature '
    'equality as AnyType-aware list equality, itertools.product(*..), identity with a datatype, issubclass, `continue` as else-branch, '
    'accumulator passing for list parameters mutated in place) and the primitive semantics of coq/Model/PrimsCompiler.v: compiled '
    'nodes are references into a heap (dtype / childnodes / isinstance / EvalNode.__eq__ = Compile.node_eqb on the referenced nodes), '
    'datatypes are their snapshot names, t.__mro__ is the table emitted with the generated terms, dicts keep the last item of a key, '
    'an exception kind is a function of the class and the leading constant text of the message; `self._compile`, `is_aggregate`, '
    '`check_aggregates`, `_bases` are opaque callables in the theorems about their callers (assumed to return the model\'s value)',
    'translator tie of the statement level (bld-compiler3; C05_source_select_run / _flow; Gen/SrcSelect.v regenerated from compiler.py on every run): trusted in addition to the C05_source_* base: translator rules K12-K14 of harness/vf/src_compiler.py - K12 STATE THREADING: a call `x = self.m(..)` of a Compiler method that may assign self.table (the set of such attributes and methods is recomputed from the live class by threading_info and emitted next to the terms; the proofs check it is ["table"]) is read as `self.table, x = self.m(self.table, ..)`, i.e. an opaque callable that receives the table and returns the table it leaves behind next to its value; such a call anywhere else than as the whole right-hand side of an assignment is rejected; K13 set(..)/set comparison as order-insensitive list operations; K14 the leading constant of \'..{}\'.format(..) selects the exception kind - and the encodings of coq/Model/PrimsSelect.v: a table is any value with hasattr(t,\'update\') / t.update(open=,close=,clear=) uninterpreted, EvalQuery / EvalPivot are records of their constructor arguments, str.format/join are uninterpreted text; the receiver\'s attributes are a concrete prefix (its table and its methods as opaque callables) followed by an arbitrary rest; what the opaque callables return is a hypothesis of each theorem (the model\'s value; for C08_source_table_restored: ANY table and any well-shaped result)',
]

# The tables are EMPTY on purpose: an exception at execution over empty tables is independent of the data, i.e. a
# validation the compiler failed to do (LIMIT range, PIVOT BY position); data-dependent evaluation failures belong to C04/C18.
LEDGER = '''
option "operating_currency" "USD"
'''

_ENV = {}


def env():
    if _ENV:
        return _ENV
    from beancount import loader
    from beancount.core import position, amount, inventory
    entries, errors, options = loader.load_string(LEDGER)
    conn = beanquery.connect('beancount:', entries=entries, errors=[], options=options)
    pyt = {'int': int, 'str': str, 'date': datetime.date, 'Decimal': D, 'bool': bool, 'set': set, 'dict': dict,
           'object': object, 'beancount.core.position.Position': position.Position,
           'beancount.core.amount.Amount': amount.Amount, 'beancount.core.inventory.Inventory': inventory.Inventory}
    for name, cols in USER_TABLES:
        conn.tables[name] = impl.make_table(name, [(c, pyt[t]) for c, t in cols], [])
    d = gen_registry.collect()
    _ENV.update(conn=conn, reg=Reg(d), regdata=d)
    return _ENV


# ------------------------------------------------------------------------------------------------
# Gallina translation of the parsed AST and of the schema

def q(s):
    """Coq string literal; injective ASCII encoding of anything else."""
    out = []
    for ch in s:
        o = ord(ch)
        if ch == '"':
            out.append('""')
        elif ch == '\\' or o < 32 or o > 126:
            out.append('\\u%04x;' % o)
        else:
            out.append(ch)
    return '"' + ''.join(out) + '"'


def c_scalar(v):
    if v is None:
        return 'VNull'
    if isinstance(v, bool):
        return f'(VBool {cbool(v)})'
    if isinstance(v, int):
        return f'(VInt {cZ(v)})'
    if isinstance(v, D):
        s, digits, e = v.as_tuple()
        if not isinstance(e, int):
            raise Untranslatable('special decimal')
        return f'(VDec (mkdec {cbool(bool(s))} {int("".join(map(str, digits)) or 0)} {cZ(e)}))'
    if isinstance(v, str):
        return '(VStr ' + clist([str(ord(c)) for c in v]) + ')'
    if isinstance(v, datetime.date):
        return f'(VDate {v.toordinal()})'
    raise Untranslatable(f'constant of type {type(v).__name__}')


def c_const(v):
    if isinstance(v, list):
        return '(CListV ' + clist([c_scalar(x) for x in v]) + ')'
    return f'(CScalar {c_scalar(v)})'


class Untranslatable(Exception):
    pass


def c_expr(n):
    if isinstance(n, ast.Column):
        return f'(EColumn {q(n.name)})'
    if isinstance(n, ast.Function):
        return f'(EFunction {q(n.fname)} {clist([c_expr(a) for a in (n.operands or [])])})'
    if isinstance(n, ast.Attribute):
        return f'(EAttribute {c_expr(n.operand)} {q(n.name)})'
    if isinstance(n, ast.Subscript):
        return f'(ESubscript {c_expr(n.operand)} {q(n.key)})'
    if isinstance(n, ast.Constant):
        return f'(EConstant {c_const(n.value)})'
    if isinstance(n, ast.Placeholder):
        return f'(EPlaceholder {q(n.name or "")} {cZ(n.parseinfo.pos)})'
    if isinstance(n, ast.Asterisk):
        return 'EAsterisk'
    if isinstance(n, ast.UnaryOp):
        return f'(EUnary {q(type(n).__name__)} {c_expr(n.operand)})'
    if isinstance(n, ast.BinaryOp):
        return f'(EBinary {q(type(n).__name__)} {c_expr(n.left)} {c_expr(n.right)})'
    if isinstance(n, ast.And):
        return f'(EAnd {clist([c_expr(a) for a in n.args])})'
    if isinstance(n, ast.Or):
        return f'(EOr {clist([c_expr(a) for a in n.args])})'
    if isinstance(n, ast.Between):
        return f'(EBetween {c_expr(n.operand)} {c_expr(n.lower)} {c_expr(n.upper)})'
    if isinstance(n, ast.Select):
        return c_select(n)
    raise Untranslatable(type(n).__name__)


def const_expr(n):
    """Evaluated at compile time (constant folding) or a literal?"""
    if isinstance(n, (ast.Constant, ast.Placeholder)):
        return True
    if isinstance(n, ast.UnaryOp):
        return const_expr(n.operand)
    if isinstance(n, ast.BinaryOp) and not isinstance(n, (ast.In, ast.NotIn)):
        return const_expr(n.left) and const_expr(n.right)
    if isinstance(n, ast.Function) and n.fname != 'coalesce':
        return all(const_expr(a) for a in n.operands or [])
    return False


def fold_sensitive(node):
    """Does a SELECT with GROUP BY / ORDER BY expression keys contain a folded (computed) constant in a key or a target?
    Whether a key is the SAME node as a target then depends on the computed VALUE (abs(1.5) == 1.5), which the
    compiler model does not have (see ASSUMPTIONS)."""
    def computed(e):
        return any(not isinstance(sub, (ast.Constant, ast.Placeholder)) and const_expr(sub)
                   for sub in e.walk() if isinstance(sub, ast.Node))
    for n in node.walk():
        if isinstance(n, ast.Select):
            keys = [c for c in (n.group_by.columns if n.group_by else [])] + [o.column for o in (n.order_by or [])]
            keys = [k for k in keys if isinstance(k, ast.Node)]
            if not keys:
                continue
            targets = [] if isinstance(n.targets, ast.Asterisk) else [t.expression for t in n.targets]
            if any(computed(e) for e in keys + targets):
                return True
    return False


def c_ref(c):
    return f'(inl {cZ(c)})' if isinstance(c, int) else f'(inr {c_expr(c)})'


def c_date(d):
    return str(d.toordinal())


def c_from(f):
    """-> (fromkind, option expr)"""
    if f is None:
        return 'FKNone', 'None'
    if isinstance(f, ast.Table):
        return f'(FKTable {q(f.name)})', 'None'
    if isinstance(f, ast.Select):
        return 'FKSelect', f'(Some {c_select(f)})'
    if isinstance(f, ast.From):
        close = 'None' if f.close is None else '(Some None)' if f.close is True else f'(Some (Some {c_date(f.close)}))'
        return (f'(FKExpr {copt(f.open, c_date)} {close} {cbool(bool(f.clear))})',
                copt(f.expression, c_expr))
    raise Untranslatable('from ' + type(f).__name__)


def c_select(n):
    if isinstance(n.targets, ast.Asterisk):
        targets = 'None'
    else:
        targets = '(Some ' + clist([f'({c_expr(t.expression)}, {copt(t.name, q)}, {q((t.expression.text or "").strip())})'
                                    for t in n.targets]) + ')'
    fk, fe = c_from(n.from_clause)
    grp = 'None'
    if n.group_by is not None:
        grp = f'(Some ({clist([c_ref(c) for c in n.group_by.columns])}, {copt(n.group_by.having, c_expr)}))'
    order = clist([f'({c_ref(o.column)}, {cbool(bool(o.ordering))})' for o in (n.order_by or [])])
    piv = 'None'
    if n.pivot_by is not None:
        cols = n.pivot_by.columns
        if len(cols) != 2:
            raise Untranslatable('pivot arity')
        piv = '(Some (' + ', '.join(f'(PIdx {cZ(c)})' if isinstance(c, int) else f'(PName {q(c.name)})' for c in cols) + '))'
    return (f'(ESelect {targets} {fk} {fe} {copt(n.where_clause, c_expr)} {grp} {order} {piv} '
            f'{copt(n.limit, cZ)} {cbool(bool(n.distinct))})')


def c_stmt(n):
    if isinstance(n, ast.Select):
        return f'(SSelect {c_select(n)})'
    if isinstance(n, ast.Balances):
        fk, fe = c_from(n.from_clause)
        return f'(SBalances {copt(n.summary_func, q)} {fk} {fe} {copt(n.where_clause, c_expr)})'
    if isinstance(n, ast.Journal):
        fk, fe = c_from(n.from_clause)
        return f'(SJournal {copt(n.account, lambda s: "(" + c_scalar(s) + ")")} {copt(n.summary_func, q)} {fk} {fe})'
    if isinstance(n, ast.Print):
        fk, fe = c_from(n.from_clause)
        return f'(SPrint {fk} {fe})'
    raise Untranslatable(type(n).__name__)


def node_spans(node):
    """{path: (pos, endpos)} of every node of a SELECT, paths as in Model/Locate.v."""
    out = {}

    def span(n, path):
        pi = getattr(n, 'parseinfo', None)
        out[','.join(map(str, path))] = [pi.pos, pi.endpos] if pi is not None else None

    def ex(n, path):
        if not isinstance(n, ast.Node):
            return
        span(n, path)
        if isinstance(n, ast.Function):
            for i, a in enumerate(n.operands or []):
                ex(a, path + [i])
        elif isinstance(n, (ast.Attribute, ast.Subscript, ast.UnaryOp)):
            ex(n.operand, path + [0])
        elif isinstance(n, ast.BinaryOp):
            ex(n.left, path + [0])
            ex(n.right, path + [1])
        elif isinstance(n, ast.Between):
            ex(n.operand, path + [0])
            ex(n.lower, path + [1])
            ex(n.upper, path + [2])
        elif isinstance(n, ast.BoolOp):
            for i, a in enumerate(n.args):
                ex(a, path + [i])
        elif isinstance(n, ast.Select):
            if not isinstance(n.targets, ast.Asterisk):
                for i, t in enumerate(n.targets):
                    ex(t.expression, path + [0, i])
            f = n.from_clause
            if isinstance(f, ast.Select):
                ex(f, path + [1])
            elif f is not None:
                span(f, path + [1])
                if isinstance(f, ast.From) and f.expression is not None:
                    ex(f.expression, path + [1, 0])
            ex(n.where_clause, path + [2])
            if n.group_by is not None:
                for i, c in enumerate(n.group_by.columns):
                    ex(c, path + [3, i])
                ex(n.group_by.having, path + [4])
            for i, o in enumerate(n.order_by or []):
                ex(o.column, path + [5, i])
    ex(node, [])
    return out


def py_params(p):
    """JSON-able parameter description -> the Python object handed to compile()."""
    if p is None:
        return None

    def val(t, v):
        if t == 'Decimal':
            return D(v)
        if t == 'date':
            return datetime.date.fromisoformat(v)
        return v
    if p[0] == 'pos':
        return [val(t, v) for t, v in p[1]]
    return {n: val(t, v) for n, t, v in p[1]}


def c_params(p):
    if p is None:
        return 'PNone'
    pv = py_params(p)
    if p[0] == 'pos':
        return '(PSeq ' + clist([c_const(v) for v in pv]) + ')'
    return '(PMap ' + clist([f'({q(n)}, {c_const(v)})' for n, v in pv.items()]) + ')'


def c_params_case(case):
    p = case.get('params')
    if case.get('container') == 'swap' and p is not None:
        # the harness hands a mapping where a sequence is expected and vice versa
        pv = py_params(p)
        if p[0] == 'pos':
            return '(PMap ' + clist([f'({q(str(i))}, {c_const(v)})' for i, v in enumerate(pv)]) + ')'
        return '(PSeq ' + clist([c_const(v) for v in pv.values()]) + ')'
    return c_params(p)


def schema_coq():
    """User tables of the harness connection as a Gallina [list table] (the Beancount tables come from the snapshot)."""
    out = []
    for name, cols in USER_TABLES:
        out.append(f'(mk_table {q(name)} {clist([f"({q(c)}, {q(t)})" for c, t in cols])} '
                   f'{clist([q(c) for c, _ in cols])} false)')
    return clist(out)


# ------------------------------------------------------------------------------------------------
# Observation of the implementation

KINDS = [
    (2, 'ProgrammingError', r'query parameter missing'),
    (3, 'ProgrammingError', r'the query has \d+ placeholders but'),
    (4, 'ProgrammingError', r'positional and named parameters cannot be mixed'),
    (10, 'CompilationError', r'table ".*" does not exist'),
    (11, 'CompilationError', r'aggregates are not allowed in WHERE clause'),
    (12, 'CompilationError', r'aggregates are not allowed in FROM clause'),
    (13, 'CompilationError', r'CLOSE date must follow OPEN date'),
    (14, 'CompilationError', r'mixed aggregates and non-aggregates are not allowed'),
    (15, 'CompilationError', r'aggregates of aggregates are not allowed'),
    (16, 'CompilationError', r'invalid ORDER-BY column index'),
    (17, 'CompilationError', r'invalid PIVOT BY column index'),
    (18, 'CompilationError', r'PIVOT BY column .* is not in the targets list'),
    (19, 'CompilationError', r'the two PIVOT BY columns cannot be the same column'),
    (20, 'CompilationError', r'the second PIVOT BY column must be a GROUP BY column'),
    (21, 'CompilationError', r'invalid GROUP-BY column index'),
    (22, 'CompilationError', r'GROUP-BY expressions may not be aggregates'),
    (23, 'CompilationError', r'GROUP-BY expressions may not reference aggregates'),
    (24, 'CompilationError', r'GROUP-BY a non-hashable type is not supported'),
    (25, 'CompilationError', r'the HAVING clause must be an aggregate expression'),
    (26, 'CompilationError', r'all non-aggregates must be covered by GROUP-BY clause'),
    (27, 'CompilationError', r'column ".*" does not exist'),
    (28, 'CompilationError', r'coalesce\(\) function arguments must have uniform type'),
    (29, 'CompilationError', r'no function matches'),
    (30, 'CompilationError', r'column type is not subscriptable'),
    (31, 'CompilationError', r'structured type has no attribute'),
    (32, 'CompilationError', r'column type is not structured'),
    (33, 'CompilationError', r'operator "(not|neg|isnull|isnotnull)\(.*\)" not supported'),
    (34, 'CompilationError', r'operator ".* BETWEEN .* AND .*" not supported'),
    (35, 'CompilationError', r'subquery has too many columns'),
    (36, 'CompilationError', r'operator ".*\(.*, .*\)" not supported'),
    (37, 'CompilationError', r'coalesce\(\) function requires at least one argument'),
    (38, 'CompilationError', r'subqueries are only supported'),
    (39, 'CompilationError', r'PIVOT BY is not supported in a subquery'),
    (40, 'CompilationError', r'aggregates are not allowed in ORDER BY of a non-aggregate query'),
    (42, 'CompilationError', r'coalesce\(\) function arguments cannot be'),
    (41, 'CompilationError', r"FROM expressions and OPEN, CLOSE, CLEAR qualifiers are not supported"),
]


def kind_of(e):
    msg = str(e)
    for k, cls, pat in KINDS:
        if re.match(pat, msg, re.S):
            return k
    return 0


def tname(t):
    return gen_registry.tname(t)


def check_exception(e, text):
    """The implementation-only oracle on one exception: class, span, rendering. Returns (class, [problems])."""
    problems = []
    cls = impl.exc_class(e)
    if cls.startswith('other:'):
        problems.append('class:' + type(e).__name__)
    pi = getattr(e, 'parseinfo', None)
    if pi is not None:
        try:
            src = pi.tokenizer.text
            if not (0 <= pi.pos <= pi.endpos <= len(src)):
                problems.append('span')
            elif not (0 <= pi.line < max(1, len(src.splitlines(True)))):
                problems.append('line')
        except Exception as ee:  # noqa: BLE001
            problems.append('parseinfo:' + type(ee).__name__)
    if isinstance(e, beanquery.ProgrammingError):
        try:
            try:
                raise e
            except beanquery.ProgrammingError as ee:
                bq_shell.render_exception(ee)
        except Exception as ee:  # noqa: BLE001
            if ee is not e:
                problems.append('render:' + type(ee).__name__)
    return cls, problems


def where_raised(e):
    """Innermost beanquery frame of the traceback: (file, function)."""
    tb = traceback.extract_tb(e.__traceback__)
    frames = [(f.filename.rsplit('/', 1)[-1], f.name) for f in tb if '/beanquery/' in f.filename]
    return frames[-1] if frames else ('?', '?')


def is_fold_error(e):
    """Raised by a function body evaluated during constant folding (compile time)?"""
    tb = traceback.extract_tb(e.__traceback__)
    for i, f in enumerate(tb):
        if f.filename.endswith('/beanquery/compiler.py') and f.line and 'function(None)' in f.line and i + 1 < len(tb):
            return True
    return False


_CLASS_INDEX = {}


def class_index(cls):
    if not _CLASS_INDEX:
        for reg in (query_compile.FUNCTIONS, query_compile.OPERATORS):
            for lst in reg.values():
                for i, c in enumerate(lst):
                    _CLASS_INDEX[id(c)] = i
    return _CLASS_INDEX.get(id(cls), -1)


def fingerprint(n):
    """Pre-order walk of a compiled tree: node class and, for functions and operators, the position of the chosen
    overload in its registry list (what the lookup order decides)."""
    qc = query_compile
    kids = list(n.childnodes())
    if isinstance(n, qc.EvalConstant):
        return [0]
    if isinstance(n, qc.EvalColumn):
        return [1]
    if isinstance(n, qc.EvalAnd):
        head = [3]
    elif isinstance(n, qc.EvalOr):
        head = [4]
    elif isinstance(n, qc.EvalCoalesce):
        head = [5]
    elif isinstance(n, qc.EvalFunction):
        head = [6, class_index(type(n))]
    elif isinstance(n, qc.EvalGetItem):
        head = [7]
    elif isinstance(n, qc.EvalGetter):
        head = [8]
        kids = [n.operand]
    elif isinstance(n, qc.EvalConstantSubquery1D):
        return [9]
    elif isinstance(n, (qc.EvalUnaryOp, qc.EvalBinaryOp, qc.EvalBetween)):
        head = [2, class_index(type(n))]
    else:
        return [-1]
    out = list(head)
    for k in kids:
        out.extend(fingerprint(k))
    return out


def summarize(cq):
    pivots = None
    kind = 0
    if isinstance(cq, query_compile.EvalPivot):
        pivots = list(cq.pivots)
        cq = cq.query
        kind = 1
    if isinstance(cq, query_compile.EvalPrint):
        return [2, [], [], [], [], [], [], 0]
    targets = [[([[ord(c) for c in q_enc(t.name)]] if t.name is not None else []),
                [ord(c) for c in tname(t.c_expr.dtype)], int(bool(t.is_aggregate)), fingerprint(t.c_expr)]
               for t in cq.c_targets]
    return [kind, targets,
            [] if cq.group_indexes is None else [list(cq.group_indexes)],
            [] if cq.having_index is None else [cq.having_index],
            [] if cq.order_spec is None else [[[i, int(d)] for i, d in cq.order_spec]],
            [] if pivots is None else [pivots],
            [] if cq.limit is None else [cq.limit], int(bool(cq.distinct))]


def q_enc(s):
    return q(s)[1:-1].replace('""', '"')


def observe(case):
    """Run one statement through parse / compile / execute. Returns a JSON-able record."""
    e_ = env()
    text, params = case['text'], case.get('params')
    rec = {'phase': 'ok', 'cls': None, 'kind': None, 'msg': None, 'problems': [], 'coq': None, 'summary': None,
           'where': None, 'untranslatable': None, 'spans': None, 'loc': None}
    try:
        node = bq_parser.parse(text)
    except Exception as e:  # noqa: BLE001
        cls, problems = check_exception(e, text)
        rec.update(phase='parse', cls=cls, msg=str(e)[:200], problems=problems, where=list(where_raised(e)))
        if isinstance(e, beanquery.ParseError) and e.parseinfo is not None and e.parseinfo.tokenizer.text != text:
            rec['problems'].append('span-of-other-text')
        return rec
    try:
        rec['coq'] = f'{c_params_case(case)} {c_stmt(node)}'
        rec['fold_sensitive'] = fold_sensitive(node)
        if isinstance(node, ast.Select):
            rec['spans'] = node_spans(node)
    except Untranslatable as u:
        rec['untranslatable'] = str(u)
    except Exception as u:  # noqa: BLE001
        rec['untranslatable'] = 'translator: ' + repr(u)
    if case.get('container') == 'swap' and params is not None:
        pv = py_params(params)
        pv = {str(i): v for i, v in enumerate(pv)} if isinstance(pv, list) else list(pv.values())
    else:
        pv = py_params(params)
    try:
        cq = bq_compiler.compile(e_['conn'], node, pv)
    except Exception as e:  # noqa: BLE001
        cls, problems = check_exception(e, text)
        if is_fold_error(e):
            rec.update(phase='fold-error', cls=cls, msg=repr(e)[:200], where=list(where_raised(e)))
            return rec
        pi = getattr(e, 'parseinfo', None)
        rec.update(phase='compile', cls=cls, kind=kind_of(e), msg=str(e)[:200], problems=problems, where=list(where_raised(e)),
                   loc=[pi.pos, pi.endpos] if pi is not None else None)
        return rec
    try:
        rec['summary'] = summarize(cq)
    except Exception as e:  # noqa: BLE001
        rec['summary'] = ['summary-failed', repr(e)]
    try:
        if isinstance(cq, query_compile.EvalPrint):
            query_execute.execute_print(cq, io.StringIO())
        else:
            query_execute.execute_query(cq)
    except Exception as e:  # noqa: BLE001
        cls, problems = check_exception(e, text)
        w = where_raised(e)
        # exceptions raised inside expression evaluation (function / operator bodies) are C04/C18's subject
        inside_eval = w[0] in ('query_env.py', 'query_compile.py') or '/beanquery/' not in (
            traceback.extract_tb(e.__traceback__)[-1].filename) and w[0] in ('query_env.py', 'query_compile.py')
        rec.update(phase='execute-eval' if inside_eval else 'execute', cls=cls, msg=repr(e)[:200],
                   problems=[] if inside_eval else problems, where=list(w))
    return rec


# ------------------------------------------------------------------------------------------------
# Stream 2: single-fault mutants, one per rule (ill-formed by construction unless expect == 'accept')

def mutants():
    """[(rule, text, params, expect)] with expect in {'reject', 'accept', 'any'}; 'reject' = ill-formed by the property text."""
    M = []

    def add(rule, text, params=None, expect='reject', **kw):
        M.append(dict(rule=rule, text=text, params=params, expect=expect, **kw))
    # names
    add('unknown-table', 'SELECT a FROM #nosuch')
    add('unknown-table', 'SELECT 1 FROM #t WHERE a IN (SELECT k FROM #nosuch)')
    add('unknown-column', 'SELECT nosuch FROM #t')
    add('unknown-column', 'SELECT a FROM #t WHERE nosuch = 1')
    add('unknown-column', 'SELECT a, count(*) FROM #t GROUP BY nosuch')
    add('unknown-column', 'SELECT a FROM #t ORDER BY nosuch')
    add('unknown-column', 'SELECT a FROM #t GROUP BY a HAVING sum(nosuch) > 1')
    add('unknown-column', 'SELECT k FROM #t')                     # column of another table
    add('unknown-column', 'SELECT a IN (SELECT k FROM #u), z FROM #t')   # z lives in #u only
    add('wrong-scope', 'SELECT a IN (SELECT k FROM #u), b FROM #t', expect='accept')
    add('wrong-scope', 'SELECT x FROM #t WHERE a IN (SELECT k FROM #u) AND b = "x"', expect='accept')
    add('unknown-column', 'SELECT account FROM #t')
    add('unknown-column', 'SELECT meta("kk") FROM #t')
    add('unknown-column', 'SELECT entry_meta("kk") FROM #prices')
    add('unknown-column', 'SELECT k FROM (SELECT a, b FROM #t)')
    add('unknown-column', 'SELECT a FROM (SELECT a AS c FROM #t)')
    add('unknown-attribute', 'SELECT p.nosuch FROM #t')
    add('unknown-attribute', 'SELECT entry.nosuch')
    add('unknown-attribute', 'SELECT position.units.nosuch')
    add('not-structured', 'SELECT a.units FROM #t')
    add('not-structured', 'SELECT b.number FROM #t')
    add('not-structured', 'SELECT inv.units FROM #t')
    add('unknown-function', 'SELECT nosuch(a) FROM #t')
    add('unknown-function', 'SELECT nosuch() FROM #t')
    add('unknown-function', 'BALANCES AT nosuch')
    add('unknown-function', 'JOURNAL AT nosuch')
    add('not-subscriptable', "SELECT a['k'] FROM #t")
    add('not-subscriptable', "SELECT b['k'] FROM #t")
    add('not-subscriptable', "SELECT s['k'] FROM #t")
    add('not-subscriptable', "SELECT m['k']['j'] FROM #t")
    add('subscript-ok', "SELECT m['k'], inv['USD'] FROM #t", expect='accept')
    # aggregates
    add('agg-in-where', 'SELECT a FROM #t WHERE sum(a) > 1')
    add('agg-in-where', 'SELECT count(*) FROM #t WHERE count(*) > 1')
    add('agg-in-where', 'SELECT a FROM #t WHERE a > 1 AND max(x) > 1')
    add('agg-in-from', 'SELECT date FROM count(*) > 1')
    add('agg-in-from', 'SELECT date FROM year = 2020 AND sum(number) > 1')
    add('agg-in-from', 'PRINT FROM count(*) > 1')
    add('agg-in-from', 'BALANCES FROM count(*) > 1')
    add('agg-in-group', 'SELECT count(*) FROM #t GROUP BY sum(a)')
    add('agg-in-group', 'SELECT a, count(*) FROM #t GROUP BY a, count(*)')
    add('agg-in-group', 'SELECT a, count(*) AS n FROM #t GROUP BY a, n')
    add('agg-in-group', 'SELECT a, count(*) FROM #t GROUP BY 1, 2')
    add('agg-of-agg', 'SELECT sum(count(*)) FROM #t')
    add('agg-of-agg', 'SELECT max(sum(a) + 1) FROM #t')
    add('agg-of-agg', 'SELECT a, first(last(b)) FROM #t GROUP BY a')
    add('agg-of-agg-having', 'SELECT a FROM #t GROUP BY a HAVING sum(count(*)) > 1')
    add('agg-of-agg-order', 'SELECT a, count(*) FROM #t GROUP BY a ORDER BY sum(sum(a))')
    add('mixed-target', 'SELECT a + sum(a) FROM #t')
    add('mixed-target', 'SELECT a, a + sum(a) FROM #t GROUP BY a')
    add('mixed-target', 'SELECT b, length(b) + count(*) FROM #t GROUP BY b')
    add('mixed-having', 'SELECT b, sum(a) FROM #t GROUP BY b HAVING a + sum(a) > 0')
    add('mixed-order', 'SELECT b, sum(a) FROM #t GROUP BY b ORDER BY a + sum(a)')
    add('mixed-order', 'SELECT b, sum(a) FROM #t GROUP BY b, a ORDER BY a + sum(a)')
    add('agg-order-nonagg-query', 'SELECT b FROM #t ORDER BY sum(a)')
    add('agg-order-nonagg-query', 'SELECT b, a FROM #t ORDER BY 1, count(*) DESC')
    add('uncovered-target', 'SELECT a, b, count(*) FROM #t GROUP BY a')
    add('uncovered-target', 'SELECT a, b FROM #t GROUP BY a')
    add('uncovered-target', 'SELECT a + 1, count(*) FROM #t GROUP BY a')
    add('uncovered-order', 'SELECT a, count(*) FROM #t GROUP BY a ORDER BY b')
    # aggregate-only targets, no GROUP BY (group_indexes == []): a non-aggregate ORDER BY key is an uncovered hidden target
    add('uncovered-order-all-aggregates', 'SELECT count(x) FROM #t ORDER BY b')
    add('uncovered-order-all-aggregates', 'SELECT count(*), sum(a) AS s FROM #t ORDER BY a + 1 DESC')
    add('uncovered-order-all-aggregates', 'SELECT count(*) ORDER BY account')
    add('uncovered-order-all-aggregates', 'SELECT sum(number) AS total, count(*) WHERE account ~ "Food" ORDER BY year(date)')
    add('uncovered-order-all-aggregates', 'SELECT max(a) FROM #t WHERE a > 0 ORDER BY 1, length(b)')
    add('uncovered-order-all-aggregates', 'SELECT * FROM (SELECT count(x) AS n FROM #t ORDER BY b)')
    add('uncovered-order-all-aggregates', 'SELECT a FROM #t WHERE a IN (SELECT count(x) FROM #t ORDER BY b)')
    add('uncovered-order-all-aggregates', 'SELECT k FROM #u WHERE k IN (SELECT max(a) FROM #t ORDER BY d DESC, 1)')
    add('order-all-aggregates-ok', 'SELECT count(x), sum(a) AS s FROM #t ORDER BY s, 1, count(x), max(d)', expect='accept')
    add('order-all-aggregates-ok', 'SELECT count(x) FROM #t ORDER BY 2020-01-01 - 2020-01-01', expect='any')
    add('covered-ok', 'SELECT a + 1, count(*) FROM #t GROUP BY a + 1 ORDER BY a + 1', expect='accept')
    add('covered-ok', 'SELECT a, count(*) FROM #t GROUP BY a, b ORDER BY b', expect='accept')
    # positions
    for clause, tmpl in (('group', 'SELECT a, b, count(*) FROM #t GROUP BY {}, 2'),
                         ('order', 'SELECT a, b FROM #t ORDER BY {}'),
                         ('pivot', 'SELECT a, b, count(*) FROM #t GROUP BY 1, 2 PIVOT BY {}, 2')):
        add(f'{clause}-position-0', tmpl.format(0))
        add(f'{clause}-position-n+1', tmpl.format(4 if clause != 'order' else 3))
        add(f'{clause}-position-huge', tmpl.format('9' * 40))
    add('order-position-n+1', 'SELECT a, a FROM #t ORDER BY 3')
    add('order-position-dup-ok', 'SELECT a, a FROM #t ORDER BY 2', expect='accept')
    add('order-position-hidden', 'SELECT a FROM #t GROUP BY a, b ORDER BY 2')
    add('group-position-hidden', 'SELECT a, count(*) FROM #t GROUP BY 1, b, 3')
    add('pivot-position-hidden', 'SELECT a, b, count(*) FROM #t GROUP BY a, b, d PIVOT BY 1, 4')
    add('pivot-position-hidden', 'SELECT a, b, count(*) FROM #t GROUP BY a, b, d PIVOT BY 4, 2')
    add('pivot-position-hidden', 'SELECT a, b, count(*) FROM #t GROUP BY a, b HAVING count(*) > 0 PIVOT BY 4, 2')
    add('pivot-second-position-n+1', 'SELECT a, b, count(*) FROM #t GROUP BY 1, 2 PIVOT BY 1, 4')
    add('pivot-unknown-name', 'SELECT a, b, count(*) FROM #t GROUP BY 1, 2 PIVOT BY a, nosuch')
    add('pivot-unknown-name', 'SELECT a AS c, b, count(*) FROM #t GROUP BY 1, 2 PIVOT BY a, b')
    add('having-not-aggregate', 'SELECT a, count(*) FROM #t GROUP BY a HAVING a > 1')
    add('having-not-aggregate', 'SELECT a, count(*) FROM #t GROUP BY a HAVING TRUE')
    # fix-G: a non-aggregate HAVING that repeats an expression the statement already evaluates
    add('having-copy-of-target', 'SELECT f, count(*) FROM #t GROUP BY f HAVING f')
    add('having-copy-of-target', 'SELECT b, a > 1 AS big, count(*) FROM #t GROUP BY b, big HAVING a > 1')
    add('having-copy-of-positional-key', 'SELECT f, sum(a) FROM #t GROUP BY 1 HAVING f')
    add('having-copy-of-hidden-key', 'SELECT count(*) FROM #t GROUP BY b, length(b) > 2 HAVING length(b) > 2')
    add('having-copy-of-hidden-key', 'SELECT max(x) FROM #t GROUP BY a HAVING a')
    add('having-over-key', 'SELECT a, count(*) FROM #t GROUP BY a HAVING a = a')
    add('having-over-key', 'SELECT f, count(*) FROM #t GROUP BY f HAVING NOT f')
    add('having-copy-of-order-key', 'SELECT a, count(*) FROM #t GROUP BY a, f HAVING f ORDER BY f')
    add('having-copy-of-aggregate-ok', 'SELECT b, sum(a) > 0 AS p FROM #t GROUP BY b HAVING sum(a) > 0', expect='accept')
    add('having-copy-of-aggregate-ok', 'SELECT b, count(*) FROM #t GROUP BY b HAVING count(*)', expect='accept')
    add('pivot-same-column', 'SELECT a, b, count(*) FROM #t GROUP BY 1, 2 PIVOT BY 1, 1')
    add('pivot-same-column', 'SELECT a, b, count(*) FROM #t GROUP BY 1, 2 PIVOT BY a, 1')
    add('pivot-same-column', 'SELECT a, b, count(*) FROM #t GROUP BY 1, 2 PIVOT BY b, b')
    add('pivot-second-not-grouped', 'SELECT a, b, count(*) FROM #t GROUP BY 1, 2 PIVOT BY 1, 3')
    add('pivot-second-not-grouped', 'SELECT a, b, count(*) AS n FROM #t GROUP BY 1, 2 PIVOT BY a, n')
    add('pivot-on-non-aggregate', 'SELECT a, b, x FROM #t PIVOT BY 1, 2')
    add('pivot-on-non-aggregate', 'SELECT a, b FROM #t PIVOT BY a, b')
    add('pivot-ok', 'SELECT a, b, count(*) FROM #t GROUP BY 1, 2 PIVOT BY 1, 2', expect='accept')
    add('pivot-ok', 'SELECT a, b, count(*), sum(x) FROM #t GROUP BY a, b PIVOT BY b, a', expect='accept')
    add('pivot-ok-implicit', 'SELECT a, b, count(*) FROM #t PIVOT BY 1, 2', expect='accept')
    add('pivot-in-subquery', 'SELECT * FROM (SELECT a, b, count(*) AS n FROM #t GROUP BY 1, 2 PIVOT BY 1, 2)', expect='any')
    add('pivot-in-subquery', 'SELECT a FROM #t WHERE a IN (SELECT a, b, count(*) AS n FROM #t GROUP BY 1, 2 PIVOT BY 1, 2)',
        expect='any')
    # clause-specific
    add('coalesce-empty', 'SELECT coalesce() FROM #t')
    add('coalesce-empty', 'SELECT a FROM #t WHERE coalesce() = 1')
    add('coalesce-mixed', 'SELECT coalesce(a, b) FROM #t')
    add('coalesce-mixed', 'SELECT coalesce(a, x) FROM #t')
    add('coalesce-mixed', 'SELECT coalesce(a, NULL) FROM #t')
    add('coalesce-mixed', 'SELECT coalesce(b, 1, b) FROM #t')
    add('coalesce-ok', 'SELECT coalesce(a, 1, a2), coalesce(b), coalesce(sum(a), 0) FROM #t', expect='accept')
    add('asterisk-operand', 'SELECT coalesce(*) FROM #t', expect='any')
    add('asterisk-operand', 'SELECT coalesce(*)["x"] FROM #t')
    add('asterisk-operand', 'SELECT coalesce(*).x FROM #t')
    add('asterisk-operand', 'SELECT count(*) FROM #t GROUP BY coalesce(*)')
    add('asterisk-operand', 'SELECT sum(*) FROM #t')
    add('asterisk-operand', 'SELECT length(*) FROM #t')
    add('unhashable-key', 'SELECT count(*) FROM #t GROUP BY s')
    add('unhashable-key', 'SELECT s, count(*) FROM #t GROUP BY 1')
    add('unhashable-key', 'SELECT m AS k, count(*) FROM #t GROUP BY k')
    add('unhashable-key', 'SELECT count(*) FROM #t GROUP BY inv')
    add('unhashable-key', 'SELECT count(*) FROM #t GROUP BY a, (1, 2)')
    add('unhashable-key', 'SELECT tags, count(*) GROUP BY tags')
    add('unhashable-key-implicit', 'SELECT s, count(*) FROM #t', expect='any')
    add('in-subquery-columns', 'SELECT a FROM #t WHERE a IN (SELECT k, z FROM #u)')
    add('in-subquery-columns', 'SELECT a FROM #t WHERE a NOT IN (SELECT * FROM #u)')
    add('in-subquery-columns', 'SELECT a FROM #t WHERE a IN (SELECT k, count(*) FROM #u GROUP BY k)')
    add('in-subquery-ok', 'SELECT a FROM #t WHERE a IN (SELECT k FROM #u GROUP BY k, z)', expect='accept')
    add('scalar-subquery', 'SELECT a, (SELECT k FROM #u) FROM #t', expect='any')
    add('scalar-subquery', 'SELECT a + (SELECT k FROM #u) FROM #t', expect='any')
    add('scalar-subquery', 'SELECT a FROM #t WHERE (SELECT k FROM #u)', expect='any')
    add('scalar-subquery', 'SELECT a FROM #t WHERE (SELECT k FROM #u) IN (1, 2)', expect='any')
    add('scalar-subquery', 'SELECT a FROM #t WHERE NOT (SELECT k FROM #u)', expect='any')
    add('scalar-subquery', 'SELECT length((SELECT z FROM #u)) FROM #t', expect='any')
    add('scalar-subquery', 'SELECT a FROM #t ORDER BY (SELECT k FROM #u)', expect='any')
    add('scalar-subquery', 'SELECT coalesce((SELECT k FROM #u)) FROM #t', expect='any')
    add('scalar-subquery', 'SELECT (SELECT k FROM #u).x FROM #t', expect='any')
    add('scalar-subquery', 'SELECT a FROM #t WHERE a BETWEEN 1 AND (SELECT k FROM #u)', expect='any')
    add('open-after-close', 'SELECT date FROM OPEN ON 2020-06-01 CLOSE ON 2020-01-01')
    add('open-after-close', 'SELECT date FROM year = 2020 OPEN ON 2021-01-01 CLOSE ON 2020-12-31 CLEAR')
    add('open-after-close', 'PRINT FROM OPEN ON 2020-06-01 CLOSE ON 2020-01-01')
    add('open-after-close', 'BALANCES FROM OPEN ON 2020-06-01 CLOSE ON 2020-01-01')
    add('open-close-ok', 'SELECT date FROM OPEN ON 2020-01-01 CLOSE ON 2020-01-01', expect='accept')
    add('open-close-ok', 'SELECT date FROM OPEN ON 2020-01-01 CLOSE', expect='accept')
    add('from-qualifiers-on-other-table', 'SELECT a FROM #t WHERE a IN (SELECT a FROM a = 1)', expect='any')
    add('from-qualifiers-on-other-table', 'SELECT date FROM #prices WHERE date IN (SELECT date FROM CLOSE)', expect='any')
    # parameters
    add('param-count', 'SELECT a FROM #t WHERE a = %s', ['pos', []])
    add('param-count', 'SELECT a FROM #t WHERE a = %s AND b = %s', ['pos', [['int', 1]]])
    add('param-count', 'SELECT a FROM #t WHERE a = %s', ['pos', [['int', 1], ['int', 2]]])
    add('param-missing', 'SELECT a FROM #t WHERE a = %(foo)s', ['named', [['bar', 'int', 1]]])
    add('param-missing', 'SELECT a FROM #t WHERE a = %(foo)s AND b = %(bar)s', ['named', [['bar', 'str', 'x']]])
    add('param-mixed', 'SELECT a FROM #t WHERE a = %(foo)s AND b = %s', ['named', [['foo', 'int', 1]]])
    add('param-mixed', 'SELECT a FROM #t WHERE a = %s AND b = %(foo)s', ['pos', [['int', 1]]])
    add('param-extra-named-ok', 'SELECT a FROM #t WHERE a = %(foo)s', ['named', [['foo', 'int', 1], ['bar', 'int', 2]]],
        expect='accept')
    add('param-ok', 'SELECT %s, a FROM #t WHERE a = %s AND b = %s ORDER BY %s',
        ['pos', [['str', 'h'], ['int', 1], ['str', 'x'], ['int', 0]]], expect='accept')
    add('param-type', 'SELECT a FROM #t WHERE a = %s', ['pos', [['str', 'x']]])
    add('param-type', 'SELECT a FROM #t WHERE b ~ %(p)s', ['named', [['p', 'int', 1]]])
    add('param-no-placeholder-ok', 'SELECT a FROM #t', ['pos', [['int', 1]]], expect='accept')
    add('param-container', 'SELECT a FROM #t WHERE a = %s', None, expect='any')
    add('param-container', 'SELECT a FROM #t WHERE a = %(x)s', ['pos', [['int', 1]]], expect='any')
    add('param-container', 'SELECT a FROM #t WHERE a = %s', ['pos', [['int', 1]]], expect='any', container='swap')
    add('param-container', 'SELECT a FROM #t WHERE a = %(x)s', ['named', [['x', 'int', 1]]], expect='any', container='swap')
    add('duplicate-grouped-target', 'SELECT a, a, count(*) FROM #t GROUP BY a', expect='accept')
    add('duplicate-grouped-target', 'SELECT a, a AS c, count(*) FROM #t GROUP BY 1', expect='accept')
    # literals
    for d in ('2020-13-01', '2021-02-29', '2020-00-10', '2020-01-32', '0000-01-01'):
        add('invalid-date-as-arithmetic', f'SELECT {d} FROM #t', expect='any')   # not a date: reads as 2020 - 13 - 1
        add('invalid-date', f'SELECT a FROM #t WHERE d < {d}')
    add('invalid-date', 'SELECT date FROM OPEN ON 2020-02-30')
    add('invalid-date', 'PRINT FROM CLOSE ON 2020-02-30')
    add('big-number-ok', 'SELECT ' + '1234567890' * 4 + ' FROM #t', expect='accept')
    add('big-number-ok', 'SELECT a + ' + '1234567890' * 4 + ' FROM #t', expect='accept')
    add('big-number-ok', 'SELECT ' + '1234567890' * 4 + '.' + '12345' * 8 + ' FROM #t', expect='accept')
    add('big-limit', 'SELECT a FROM #t LIMIT ' + '9' * 40, expect='any')
    add('big-limit', 'SELECT a FROM #t LIMIT 9223372036854775808', expect='any')
    add('big-limit', 'SELECT a, count(*) FROM #t GROUP BY a ORDER BY 1 LIMIT 18446744073709551616', expect='any')
    add('limit-ok', 'SELECT a FROM #t LIMIT 9223372036854775807', expect='accept')
    add('limit-ok', 'SELECT a FROM #t LIMIT 0', expect='accept')
    # typing of the untyped IN
    add('in-untyped', 'SELECT 1 IN 2 FROM #t')
    add('in-untyped', 'SELECT a IN b FROM #t')
    add('in-untyped', 'SELECT a NOT IN d FROM #t')
    return M


PROBES = [('1', 'int'), ('1.5', 'Decimal'), ("'s'", 'str'), ('2020-01-01', 'date'), ('TRUE', 'bool'), ('NULL', 'NoneType'),
          ('(1, 2)', 'list'), ('s', 'set'), ('m', 'dict'), ('o', 'object'), ('p', 'beancount.core.position.Position'),
          ('am', 'beancount.core.amount.Amount'), ('inv', 'beancount.core.inventory.Inventory'),
          ("interval('1 day')", 'dateutil.relativedelta.relativedelta'), ('a', 'int'), ('b', 'str'), ('f', 'bool')]


def overload_sweep(reg, rng, tier):
    """Every operator and function of the live registry x operand type combinations (well- and ill-typed).
    Expected validity from the generator's own lookup; yields mutant records."""
    out = []

    def add(name, text, valid):
        out.append(dict(rule=('overload-ok:' if valid else 'overload-ill-typed:') + name, text=f'SELECT {text} FROM #t',
                        params=None, expect='accept' if valid else 'reject'))
    import itertools
    for name, ovs in reg.operators.items():
        ar = len(ovs[0][1])
        if name in ('In', 'NotIn'):
            continue
        combos = list(itertools.product(PROBES, repeat=ar))
        if ar == 3:
            combos = rng.sample(combos, 200 if tier == 'quick' else 1500)
        if ar == 2 and tier == 'quick':
            combos = rng.sample(combos, 120)
        for c in combos:
            tys = [t for _, t in c]
            if ar == 1:
                valid = reg.flookup(reg.operators, name, tys) is not None
                sym = {'Not': 'NOT {}', 'Neg': '-{}', 'IsNull': '{} IS NULL', 'IsNotNull': '{} IS NOT NULL'}[name]
                txt = sym.format(c[0][0])
            elif ar == 2:
                valid = reg.binop(name, *tys) is not None
                txt = f'{c[0][0]} {c05gen.BINSYM[name]} {c[1][0]}'
            else:
                valid = reg.exact(name, tys) is not None
                txt = f'{c[0][0]} BETWEEN {c[1][0]} AND {c[2][0]}'
            add(name, txt, valid)
    for name, ovs in reg.functions.items():
        arities = sorted({len(ov[1]) for ov in ovs} | {0, 1, 2})
        for ar in arities:
            combos = list(itertools.product(PROBES, repeat=ar))
            cap = {0: 1, 1: 17, 2: 16 if tier == 'quick' else 120, 3: 8 if tier == 'quick' else 100}.get(ar, 6)
            if len(combos) > cap:
                # always keep the declared signatures (by a probe of that exact type) and sample the rest
                combos = rng.sample(combos, cap)
            for c in combos:
                tys = [t for _, t in c]
                if name in c05gen.META_FUNCS:
                    continue
                if all(t[0] not in 'abfsmop' and not t[0].startswith(('am', 'inv')) for t, _ in [(x[0], 0) for x in c]) \
                        and name in c05gen.PARTIAL_FUNCS:
                    continue   # constant-only call of a partial function: folded at compile time
                valid = reg.flookup(reg.functions, name, tys) is not None
                add(name, f'{name}({", ".join(x[0] for x in c)})', valid)
    return out


# ------------------------------------------------------------------------------------------------
# Stream "arity": EVERY registered function name (the specially compiled ones included: coalesce, getitem, meta,
# entry_meta, any_meta) called with every argument count from none to one more than its longest signature, on the tables
# where the call is legal.  The argument lists are prefixes / extensions of the DECLARED signatures (well typed as far
# as they go), so what decides validity is the number of arguments.  Expected validity from the generator's own lookup.

ARITY_CONTEXTS = ['SELECT {call}{frm}', 'SELECT {call}{frm}', 'SELECT 1{frm} WHERE {call} IS NULL', 'SELECT count({call}){frm}',
                  'SELECT 1, count(*){frm} GROUP BY 1 HAVING count({call}) > 0', 'SELECT coalesce({call}){frm}',
                  'SELECT 1{frm} ORDER BY {call}']


def _meta_legal(reg, name, cols):
    """Is the one-argument call of a metadata access function legal on a table with these columns?
    meta(k) = getitem(meta, k); entry_meta(k) = getitem(entry.meta, k); any_meta(k) needs both."""
    cols = dict(cols)

    def own():
        return 'meta' in cols and reg.flookup(reg.functions, 'getitem', [cols['meta'], 'str']) is not None

    def entry():
        attrs = dict(reg.attrs(cols['entry']) or []) if 'entry' in cols else {}
        return 'meta' in attrs and reg.flookup(reg.functions, 'getitem', [attrs['meta'], 'str']) is not None
    return {'meta': own, 'entry_meta': entry, 'any_meta': lambda: own() and entry()}[name]()


def arity_sweep(reg, rng, tier):
    out = []
    ptype = {}
    for text, ty in PROBES:
        ptype.setdefault(text, ty)
    ptype.update({'x': 'Decimal', 'd': 'date', '*': '*', "'k'": 'str'})
    probe = {}
    for text, ty in PROBES:
        probe.setdefault(ty, text)
    # prefer columns to literals: a call over columns is not folded at compile time
    probe.update({'int': 'a', 'str': 'b', 'bool': 'f', 'date': 'd', 'Decimal': 'x', 'any': 'a', '*': '*'})
    columns = ('a', 'b', 'f', 'd', 'x', 's', 'm', 'o', 'p', 'am', 'inv')

    def add(name, call, frm, valid, nargs, ctx=None):
        ctx = ctx or (ARITY_CONTEXTS[0] if rng.random() < 0.6 else rng.choice(ARITY_CONTEXTS))
        out.append(dict(rule=f'arity:{name}:{nargs}', text=ctx.format(call=call, frm=frm), params=None,
                        expect='accept' if valid else 'reject', arity=nargs, fname=name))

    surplus = ['1', "'k'", 'a', 'b', 'NULL']
    for name, ovs in reg.functions.items():
        if name in c05gen.META_FUNCS:
            continue
        longest = max(len(ov[1]) for ov in ovs)
        seen = set()
        for ov in ovs:
            base = [probe[t] for t in ov[1]]
            for n in range(0, longest + 2):
                extra = ['*', '1'] if base[:1] == ['*'] else surplus
                args = base[:n] + [rng.choice(extra) for _ in range(n - len(base))]
                if tuple(args) in seen:
                    continue
                seen.add(tuple(args))
                if name in c05gen.PARTIAL_FUNCS and args and not any(a in columns for a in args):
                    continue     # constant-only call of a partial function: folded at compile time
                got = reg.flookup(reg.functions, name, [ptype[a] for a in args])
                # an aggregate is legal in a target only: the other contexts are for row-level calls
                add(name, f'{name}({", ".join(args)})', ' FROM #t', got is not None, n,
                    ARITY_CONTEXTS[0] if any(o[4] for o in ovs) else None)
    # coalesce: any positive number of arguments of one type
    for text, ty in PROBES:
        if ty == 'NoneType':
            continue
        for n in range(0, 4):
            add('coalesce', f'coalesce({", ".join([text] * n)})', ' FROM #t', n > 0, n)
    # the metadata access functions on every table on which the one-argument call is legal (and on tables where it is not)
    postings = reg.tables['postings'][0]
    tabs = [('', postings), (' FROM year = 2020', postings)]
    tabs += [(f' FROM #{n}', cols) for n, (cols, _) in reg.tables.items() if n]
    tabs += [(f' FROM #{n}', cols) for n, cols in USER_TABLES]
    keys = ["'kk'", '"note"', '1', 'NULL', 'date']
    for name in c05gen.META_FUNCS:
        for frm, cols in tabs:
            legal = _meta_legal(reg, name, cols)
            if not legal and rng.random() < 0.5:
                continue
            for n in range(0, 4):
                args = ([keys[0]] + [rng.choice(keys) for _ in range(n - 1)]) if n else []
                every = legal and n != 1 and (tier != 'quick' or frm in ('', ' FROM #entries'))
                for ctx in (ARITY_CONTEXTS[1:] if every else [ARITY_CONTEXTS[0]]):
                    add(name, f'{name}({", ".join(args)})', frm, legal and n == 1, n, ctx)
            if legal:           # nested in other calls and operators
                for n in (0, 2):
                    args = ', '.join([keys[0]] * n)
                    add(name, f'str({name}({args}))', frm, False, n, ARITY_CONTEXTS[0])
                    add(name, f'{name}({args}) = 1', frm, False, n, ARITY_CONTEXTS[0])
    return out


# ------------------------------------------------------------------------------------------------
# Stream "sibling": a table (or FROM-subquery) with SEVERAL columns of one datatype; one of them is a target, another
# one is a GROUP BY / ORDER BY key that is not a target.  The key is a different column than the target whatever their
# datatypes: a statement grouped by the sibling leaves the target uncovered (ill-formed), a statement grouped by both
# has a hidden key (well-formed; the model says which target index the key resolves to).

SIBLING_SUBQUERIES = [
    # (FROM text, [(column, type)])
    ('(SELECT a, a2, b, b2, x, d, f FROM #t)',
     [('a', 'int'), ('a2', 'int'), ('b', 'str'), ('b2', 'str'), ('x', 'Decimal'), ('d', 'date'), ('f', 'bool')]),
    ('(SELECT a AS c0, a2 AS c1, b AS c2, b2 AS c3, x AS c4, a + 1 AS c5, length(b) AS c6, upper(b2) AS c7, x * 2 AS c8 FROM #t WHERE a > 0)',
     [('c0', 'int'), ('c1', 'int'), ('c2', 'str'), ('c3', 'str'), ('c4', 'Decimal'), ('c5', 'int'), ('c6', 'int'), ('c7', 'str'),
      ('c8', 'Decimal')]),
    ('(SELECT b, b2, sum(a) AS s, count(*) AS n, max(a2) AS m, min(x) AS lo, max(x) AS hi FROM #t GROUP BY b, b2)',
     [('b', 'str'), ('b2', 'str'), ('s', 'int'), ('n', 'int'), ('m', 'int'), ('lo', 'Decimal'), ('hi', 'Decimal')]),
    ('(SELECT c0, c1, c2, c3 FROM (SELECT a AS c0, a2 AS c1, b AS c2, b2 AS c3 FROM #t) ORDER BY c1)',
     [('c0', 'int'), ('c1', 'int'), ('c2', 'str'), ('c3', 'str')]),
    ('(SELECT * FROM #u)', [('k', 'int'), ('z', 'str'), ('a', 'str'), ('w', 'Decimal'), ('d', 'date')]),
    ('(SELECT DISTINCT z, a, k FROM #u ORDER BY k DESC)', [('z', 'str'), ('a', 'str'), ('k', 'int')]),
    ('(SELECT account, payee, narration, currency, number, cost_number, date, cost_date, year, month FROM #postings)',
     [('account', 'str'), ('payee', 'str'), ('narration', 'str'), ('currency', 'str'), ('number', 'Decimal'),
      ('cost_number', 'Decimal'), ('date', 'date'), ('cost_date', 'date'), ('year', 'int'), ('month', 'int')]),
    ('(SELECT account, comment, date FROM #notes)', [('account', 'str'), ('comment', 'str'), ('date', 'date')]),
]
SIBLING_TYPES = ('int', 'str', 'date', 'Decimal', 'bool')
_NOT_A_NAME = c05gen.KEYWORDS | {'OPEN', 'CLOSE', 'CLEAR', 'ON', 'AT'}


def sibling_column_cases(g, rng, n):
    tabs = [('table', t.frm, t.cols) for t in g.tables()]
    tabs += [('subquery', frm, cols) for frm, cols in SIBLING_SUBQUERIES]
    # a subquery over every table that has siblings: its first columns of simple type, bare
    for t in g.tables():
        simple = [c for c, ty in t.cols if ty in SIBLING_TYPES and c.upper() not in _NOT_A_NAME]
        if len(simple) >= 2:
            tabs.append(('subquery', f'(SELECT {", ".join(simple[:12])} FROM {t.frm})', [(c, dict(t.cols)[c]) for c in simple[:12]]))
    usable = []
    for kind, frm, cols in tabs:
        simple = [(c, ty) for c, ty in cols if ty in SIBLING_TYPES and c.upper() not in _NOT_A_NAME]
        pairs = [(c1, c2, t1) for c1, t1 in simple for c2, t2 in simple if c1 != c2 and t1 == t2]
        if pairs:
            usable.append((kind, frm, simple, pairs))
    out = []
    families = ['hidden-key-ok', 'uncovered-target', 'uncovered-target', 'uncovered-order', 'uncovered-order', 'order-key-ok',
                'plain-order-ok', 'uncovered-target-2', 'pivot-second-not-grouped']
    while len(out) < n:
        # subqueries and tables alternate; the first rounds walk through every usable table once
        kind, frm, simple, pairs = usable[len(out) % len(usable)] if len(out) < 2 * len(usable) else rng.choice(usable)
        if rng.random() < 0.8:
            k1, k2, ty = rng.choice(pairs)
        else:                                   # control: the key has another datatype than the target
            k1, ty = rng.choice(simple)
            k2 = rng.choice([c for c, _ in simple if c != k1])
        others = [c for c, t in simple if c not in (k1, k2)]
        v = rng.choice(others) if others else k2
        vt = dict(simple)[v]
        aggs = ['count(*)', f'count({v})', f'max({v})', f'first({v})'] + ([f'sum({v})'] if vt in ('int', 'Decimal') else [])
        agg = rng.choice(aggs)
        desc = rng.choice(['', ' DESC'])
        fam = rng.choice(families)
        if fam == 'hidden-key-ok':
            text, expect = f'SELECT {k1}, {agg} FROM {frm} GROUP BY {rng.choice([k1 + ", " + k2, k2 + ", " + k1, "1, " + k2])}', 'accept'
        elif fam == 'uncovered-target':
            text, expect = f'SELECT {k1}, {agg} FROM {frm} GROUP BY {k2}', 'reject'
        elif fam == 'uncovered-target-2':
            k3 = rng.choice(others) if others else None
            if k3 is None:
                continue
            text, expect = f'SELECT {k3}, {k1}, {agg} FROM {frm} GROUP BY {k3}, {k2}', 'reject'
        elif fam == 'uncovered-order':
            text, expect = f'SELECT {k2}, {agg} FROM {frm} GROUP BY {k2} ORDER BY {k1}{desc}', 'reject'
        elif fam == 'order-key-ok':
            text, expect = f'SELECT {k1}, {agg} FROM {frm} GROUP BY {k1}, {k2} ORDER BY {k2}{desc}', 'accept'
        elif fam == 'plain-order-ok':
            text, expect = f'SELECT {k1} FROM {frm} ORDER BY {k2}{desc}, {k1}', 'accept'
        else:       # the second PIVOT BY column is the aggregate; the hidden sibling key does not make it a grouped one
            text, expect = f'SELECT {k1}, {agg}, count(*) FROM {frm} GROUP BY {k1}, {k2} PIVOT BY {k1}, 2', 'reject'
        wrap = 'plain'
        if expect == 'reject' and 'PIVOT' not in text and rng.random() < 0.25:
            wrap = rng.choice(['from', 'in'])
            if wrap == 'from':
                text = 'SELECT * FROM (' + text.replace(f', {agg} FROM', f', {agg} AS w1 FROM', 1) + ')'
            else:
                text = f'SELECT k FROM #u WHERE z IN (SELECT first({k1}) FROM {frm} GROUP BY {k2} ORDER BY {k1})'
        out.append(dict(stream='mutant', rule=f'sibling-{fam}:{kind}:{wrap}', text=text, params=None, expect=expect,
                        sibling={'kind': kind, 'dtype': ty, 'same_dtype': dict(simple)[k1] == dict(simple)[k2]}))
    return out


# ------------------------------------------------------------------------------------------------
# Stream 3: corruptions

TOKEN_RE = re.compile(r"\s+|'[^']*'|\"[^\"]*\"|\d{4}-\d{2}-\d{2}|\d+\.\d*|\.\d+|\d+|[A-Za-z_][A-Za-z0-9_]*|#\w*|!=|<=|>=|!~|%\(\w+\)s|%s|.", re.S)
VOCAB = ['SELECT', 'FROM', 'WHERE', 'GROUP', 'BY', 'ORDER', 'HAVING', 'PIVOT', 'LIMIT', 'DISTINCT', 'AS', 'AND', 'OR', 'NOT',
         'IN', 'IS', 'NULL', 'TRUE', 'FALSE', 'BETWEEN', 'ASC', 'DESC', 'OPEN', 'ON', 'CLOSE', 'CLEAR', 'BALANCES', 'JOURNAL',
         'PRINT', 'AT', '(', ')', ',', '*', '+', '-', '/', '%', '=', '!=', '<', '<=', '>', '>=', '~', '!~', '.', '[', ']', ';',
         '1', '0', '2.5', "'x'", '"y"', '2020-01-01', '2020-13-45', 'a', 'b', 'date', 'account', 'position', 'count', 'sum',
         '#t', '#u', '#', '%s', '%(n)s', 'coalesce', 'meta', '99999999999999999999', "'", '"', '/*', '*/', '\n', '\t', 'é', '\x00']


def corrupt(rng, text):
    r = rng.random()
    if r < 0.6:
        toks = [t for t in TOKEN_RE.findall(text)]
        idx = [i for i, t in enumerate(toks) if not t.isspace()] or [0]
        for _ in range(rng.choice([1, 1, 1, 2, 3])):
            if not toks:
                break
            i = rng.choice(idx) if idx else 0
            i = min(i, len(toks) - 1)
            op = rng.choice(['del', 'dup', 'swap', 'repl', 'ins'])
            if op == 'del':
                toks.pop(i)
            elif op == 'dup':
                toks.insert(i, toks[i])
            elif op == 'swap' and len(toks) > 1:
                j = rng.randrange(len(toks))
                toks[i], toks[j] = toks[j], toks[i]
            elif op == 'repl':
                toks[i] = rng.choice(VOCAB)
            else:
                toks.insert(i, ' ' + rng.choice(VOCAB) + ' ')
        return ''.join(toks), 'token'
    if r < 0.85:
        s = list(text)
        for _ in range(rng.choice([1, 1, 2, 4])):
            op = rng.choice(['del', 'ins', 'repl', 'trunc'])
            i = rng.randrange(len(s)) if s else 0
            if op == 'del' and s:
                s.pop(i)
            elif op == 'ins':
                s.insert(i, rng.choice('\'"()[]%,.*;#0123456789abcXYZ \n\t\\\x00é€-+=<>!~'))
            elif op == 'repl' and s:
                s[i] = rng.choice('\'"()[]%,.*;#0123456789abcXYZ \n\t\\\x00é€-+=<>!~')
            elif s:
                s = s[:i]
        return ''.join(s), 'byte'
    n = rng.randint(0, 12)
    return ' '.join(rng.choice(VOCAB) for _ in range(n)), 'arbitrary'


# ------------------------------------------------------------------------------------------------
# Model side

def model_many(cases, tag='c05'):
    sc = schema_coq()
    exprs = [f'(compile_out_with {sc} {c["coq"]})' for c in cases]
    return core.coq_eval(tag, ['Base.PyValue', 'Model.Compile'], exprs, shard=150)


def model_locations(recs, tag='c05l'):
    """Model/Locate.v on rejected SELECTs: the path of the node the CompilationError is about."""
    sc = schema_coq()
    exprs = [f'(locate_out {sc} {r["coq"]})' for r in recs]
    return core.coq_eval(tag, ['Base.PyValue', 'Model.Compile', 'Model.Locate'], exprs, shard=150)


def location_mismatch(rec, mloc):
    """None when the location the implementation attached is the span of the node the model names."""
    if mloc[0] == 3 or rec.get('spans') is None:
        return None
    if rec['cls'] == 'other:TypeError':
        return None
    if mloc[0] == 0:
        return 'model accepts'
    if mloc[0] == 1:
        return None if rec['loc'] is None else f'implementation location {rec["loc"]}, model: no location'
    key = ','.join(map(str, mloc[1]))
    want = rec['spans'].get(key, 'no such node')
    return None if want == rec['loc'] else f'implementation location {rec["loc"]}, model: node at path [{key}] = {want}'


def model_expected(rec):
    """What the model output must look like for this observation (None = not comparable)."""
    if rec['phase'] in ('parse', 'fold-error') or rec['coq'] is None:
        return None
    if rec['phase'] == 'compile':
        if rec['cls'] == 'other:TypeError' and rec['msg'].startswith('query parameters should be a'):
            return [1, 1]
        return [1, rec['kind']]
    return [0, rec['summary']]


def agg_dtype_rule_check():
    """The model's rule 'first/last/min/max take the dtype of their operand, every other aggregate announces its
    declared type' against the live aggregator classes (instantiated on a typed dummy operand)."""
    from beanquery import types as bq_types
    bad = []
    n = 0
    for name, ovs in query_compile.FUNCTIONS.items():
        for f in ovs:
            if not (isinstance(f, type) and issubclass(f, query_compile.EvalAggregator)):
                continue
            for probe in (str, bool, D):
                ops = []
                for t in f.__intypes__:
                    if t is bq_types.Any:
                        ops.append(query_compile.EvalConstant(None, probe))
                    elif isinstance(t, type) and issubclass(probe, t):
                        ops.append(query_compile.EvalConstant(None, probe))
                    else:
                        ops.append(query_compile.EvalConstant(None, t))
                got = f(None, ops).dtype
                declared = f(None, [query_compile.EvalConstant(None, object if t is bq_types.Any else t) for t in f.__intypes__]).dtype
                expect = ops[0].dtype if name in ('first', 'last', 'min', 'max') else declared
                n += 1
                if got is not expect:
                    bad.append(f'{name}{[tname(t) for t in f.__intypes__]} on {tname(ops[0].dtype)}: dtype {tname(got)}, model {tname(expect)}')
    return n, bad


def schema_tie_check():
    """Facts about the live tables the model hard-wires: which tables have update(), and how their columns compare."""
    bad = []
    conn = env()['conn']
    for name, t in conn.tables.items():
        bean = name in ('entries', 'postings')
        user = name in [n for n, _ in USER_TABLES]
        if hasattr(t, 'update') != bean:
            bad.append(f'table {name!r}: update() present = {hasattr(t, "update")}')
        cols = list(t.columns.items())
        for i, (a, ca) in enumerate(cols):
            for b, cb in cols[i + 1:]:
                same = bool(ca == cb)
                expect = False      # every column has its own accessor identity
                if same != expect:
                    bad.append(f'table {name!r}: columns {a} == {b} is {same}, model says {expect}')
    return bad


def generate():
    info = gen_registry.generate()
    # translator tie (bld-compiler): regenerate coq/Gen/SrcLookup.v (types.function_lookup, _bases) and
    # coq/Gen/SrcCompiler.v (ORDER BY / GROUP BY / PIVOT BY resolution, the aggregate walk, operator overload selection)
    # from the source of the imported code (py2mini, src_compiler.py); a failure is raised after the other generators ran
    src_failure = None
    try:
        from . import gen_src, src_compiler
        info.update(gen_src.generate('lookup'))
        info.update(gen_src.generate('compiler'))
        info['src_compiler_outside_fragment'] = dict(src_compiler.Group.skipped)
        # bld-compiler3: Compiler._select -> coq/Gen/SrcSelect.v (state threading K12, Proofs/SrcSelect.v)
        info.update(gen_src.generate('select'))
        info['src_select_threading'] = dict(src_compiler.SelectGroup.info)
    except Exception as e:  # noqa: BLE001  (reported by run.py as translator-failed)
        src_failure = e
    n, bad = agg_dtype_rule_check()
    info['aggregate_dtype_rule_checks'] = n
    bad += schema_tie_check()
    if bad:
        raise RuntimeError('model assumptions about the live classes broken: ' + '; '.join(bad[:5]))
    if src_failure is not None:
        raise src_failure
    return info


# ------------------------------------------------------------------------------------------------
# Stream "end-to-end": statements over a table WITH DATA, in the subset Model/Link.v lowers to the executor model;
# the rows fetched from the implementation are compared with compile >>= lower >>= exec evaluated in Coq.

E2E_COLS = [('a', 'int'), ('b', 'str'), ('d', 'date'), ('x', 'Decimal'), ('f', 'bool'), ('a2', 'int'), ('x2', 'Decimal'),
            ('b2', 'str')]
E2E_PY = {'int': int, 'str': str, 'date': datetime.date, 'Decimal': D, 'bool': bool}
E2E_FUNCS = {'abs': [['Decimal']], 'neg': [['Decimal']], 'safediv': None, 'length': [['str']], 'upper': None, 'lower': None,
             'bool': None, 'int': [['Decimal'], ['int'], ['str'], ['bool'], ['object']],
             'decimal': [['int'], ['Decimal'], ['bool']], 'substr': None, 'count': None,
             'sum': [['int'], ['Decimal']], 'first': None, 'last': None, 'min': None, 'max': None,
             # bld-link: the C18 library linked into Eval.apply_func (the overloads Model/Typing.v types: the total ones)
             'year': None, 'month': None, 'day': None, 'quarter': None, 'weekday': None, 'date_diff': None,
             'date_part': None, 'date': None, 'str': None, 'root': None, 'parent': None, 'leaf': None,
             'round': [['int', 'int'], ['int']]}
# every registered function the lowering names (typed or not): statements using the untyped ones must come back
# not-lowerable from the model, never as rows
LIB_FUNCS = ['year', 'month', 'day', 'quarter', 'weekday', 'date_diff', 'date_part', 'date', 'str', 'int', 'decimal',
             'root', 'parent', 'leaf', 'round', 'yearmonth', 'date_add', 'date_trunc', 'splitcomp', 'maxwidth', 'date_bin']
LIB_UNTYPED = ['yearmonth', 'date_add', 'date_trunc', 'splitcomp', 'maxwidth', 'date_bin']


def e2e_reg():
    """The registry restricted to what Model/Link.v lowers (the generator only uses what it sees here)."""
    d = dict(env()['regdata'])
    funcs = []
    for name, ovs in d['functions']:
        if name in E2E_FUNCS:
            keep = [ov for ov in ovs if E2E_FUNCS[name] is None or ov[1] in E2E_FUNCS[name]]
            funcs.append((name, keep))
    d['functions'] = funcs
    d['operators'] = [(n, [ov for ov in ovs if not any('relativedelta' in t for t in ov[1])]) for n, ovs in d['operators']]
    return Reg(d)


def enc_cell(v):
    return str(v) if isinstance(v, (D, datetime.date)) else v


def dec_row(r):
    out = []
    for v, (_, t) in zip(r, E2E_COLS):
        if v is None:
            out.append(None)
        elif t == 'Decimal':
            out.append(D(v))
        elif t == 'date':
            out.append(datetime.date.fromisoformat(v))
        else:
            out.append(v)
    return tuple(out)


def e2e_cases(tier, rng):
    from . import values
    n = 400 if tier == 'quick' else 5000
    g = Gen(rng, e2e_reg())
    g.scalar_only = True
    g.where_p = 0.3
    g.in_subqueries = ['SELECT a FROM #v', 'SELECT a2 FROM #v WHERE a > 1', 'SELECT b FROM #v', 'SELECT DISTINCT a + 1 FROM #v',
                       'SELECT max(a2) FROM #v', 'SELECT d FROM #v WHERE f', 'SELECT x FROM #v WHERE a > 100',
                       'SELECT b2 FROM #v GROUP BY b2, f ORDER BY f', 'SELECT s FROM (SELECT sum(a) AS s, b FROM #v GROUP BY b)']
    g.fixed_tables = [c05gen.Tbl('v', E2E_COLS, [c for c, _ in E2E_COLS], '#v')]
    cases = []
    for _ in range(n):
        nrows = rng.choice([0, 1, 3, 4, 6, 8, 10, 12])
        null_p = rng.choice([0.0, 0.15, 0.3])
        rows = [[enc_cell(values.gen_value(rng, E2E_PY[t], null_p)) for _, t in E2E_COLS] for _ in range(nrows)]
        g.use_params = rng.choice([None, None, None, 'pos', 'named'])
        g.params = []
        g.alias_base = 0
        st = g.select(rng.choice([1, 1, 2, 2, 3]))
        if st['limit'] is not None and rng.random() < 0.7:
            st['limit'] = rng.choice([0, 1, 2, 3, 5])
        text, params = g.finish_params(c05gen.render(st))
        cases.append(dict(stream='e2e', rule='e2e:' + st['shape'].split(':')[0], text=text, params=params, rows=rows))
    # the rejecting path of run_stmt (compile error = the implementation's) and fixed shapes worth pinning
    rows = [[1, 'x', '2020-01-01', '1.5', True, 2, '0.25', 'y'], [2, 'x', '2020-01-02', '2.5', False, None, '1', None],
            [None, 'z', None, None, None, 3, None, 'y'], [2, None, '2020-01-02', '0', True, 3, '1.0', 'x']]
    for text in ['SELECT nosuch FROM #v', 'SELECT a FROM #v WHERE a + b > 1', 'SELECT a, b FROM #v GROUP BY a',
                 'SELECT a FROM #v ORDER BY 2', 'SELECT b, count(*) FROM #v GROUP BY b PIVOT BY 1, 1',
                 'SELECT sum(b) FROM #v', 'SELECT a FROM #v WHERE sum(a) > 1', 'SELECT coalesce(a, b) FROM #v',
                 'SELECT b, a2, sum(a) AS s FROM #v GROUP BY b, a2 PIVOT BY b, a2',
                 'SELECT b, a2, sum(a) AS s, count(*) AS n FROM #v GROUP BY 1, 2 ORDER BY 2 DESC PIVOT BY 2, 1',
                 'SELECT DISTINCT b, f FROM #v ORDER BY f DESC, b LIMIT 3',
                 'SELECT s, n FROM (SELECT b, sum(a) AS s, count(x) AS n FROM #v GROUP BY b HAVING count(*) > 0) WHERE s > 1 ORDER BY 1 DESC',
                 'SELECT c FROM (SELECT a AS c, a2 AS c FROM #v) ORDER BY 1',
                 'SELECT b, a, x / a2, a / a2, a % a2, d + a, d - d, -x FROM #v ORDER BY b, 2',
                 'SELECT b, first(a), last(a), min(x), max(d), count(a2), sum(x2) FROM #v GROUP BY b ORDER BY sum(x2), b',
                 'SELECT count(*), sum(a) FROM #v WHERE a > 100',
                 'SELECT a, a IN (SELECT a2 FROM #v) AS i, a NOT IN (SELECT a2 FROM #v WHERE a2 > 100) AS e FROM #v ORDER BY 1',
                 'SELECT b, count(*) FROM #v WHERE a IN (SELECT max(a) FROM #v) OR b IN (SELECT b2 FROM #v) GROUP BY b ORDER BY b', 'SELECT a FROM #v WHERE b ~ "X" OR a2 IN (3, NULL) ORDER BY a DESC']:
        cases.append(dict(stream='e2e', rule='e2e:fixed', text=text, params=None, rows=rows))
    return cases + e2e_lib_cases(tier, rng)


LIB_B_POOL = ['Assets:Cash', 'Assets:Bank:Checking', 'Expenses:Food:Out', 'Income', 'Liabilities:Card', 'Assets', '', '12',
              ' -7 ', '1_000', '+3', '1.5', '2020-01-15', '2020-02-30', '2021-1-5', '1999-12-31', 'x', 'year', 'Assets:']
LIB_FIELDS = ['weekday', 'dow', 'isoweekday', 'isodow', 'week', 'month', 'quarter', 'year', 'isoyear', 'decade', 'century',
              'millennium', 'epoch', 'bogus', 'Year']


def lib_rows(rng):
    """rows for the library stream: dates spread over weekdays / quarters / ISO-week edge cases, account-like and
    number-like strings"""
    nrows = rng.choice([0, 1, 3, 5, 7, 9, 12])
    null_p = rng.choice([0.0, 0.1, 0.25])
    edge = ['2020-12-31', '2021-01-01', '2021-01-03', '2021-01-04', '2019-12-30', '2024-02-29', '2000-01-01', '1999-12-31',
            '2016-01-03', '2026-06-30', '2026-07-01', '0001-01-01', '9999-12-31', '1970-01-01']

    def cell(t):
        if rng.random() < null_p:
            return None
        if t == 'int':
            return rng.choice([0, 1, 2, 3, 4, 5, 7, 11, 12, 13, 28, 29, 30, 31, 45, 155, -1, -15, 2020])
        if t == 'str':
            return rng.choice(LIB_B_POOL)
        if t == 'date':
            if rng.random() < 0.35:
                return rng.choice(edge)
            return datetime.date.fromordinal(rng.randint(728000, 743000)).isoformat()      # 1994 .. 2035
        if t == 'Decimal':
            return rng.choice(['0', '1.5', '-2.50', '100', '0.001', '-0.0', '12345.678', '1E+3', '7'])
        return rng.random() < 0.5
    return [[cell(t) for _, t in E2E_COLS] for _ in range(nrows)]


def lib_expr(rng, ty, depth=1):
    """a scalar expression of dtype ty over #v built from the library functions Model/Link.v lowers"""
    ch = rng.choice
    i = lambda: lib_expr(rng, 'int', depth - 1) if depth > 0 and rng.random() < 0.4 else ch(['a', 'a2', 'a', '3', '(a + 1)'])
    st = lambda: lib_expr(rng, 'str', depth - 1) if depth > 0 and rng.random() < 0.4 else ch(['b', 'b2', 'b', "'Assets:Cash:Sub'", "'12'"])
    dt = lambda: lib_expr(rng, 'date', depth - 1) if depth > 0 and rng.random() < 0.3 else ch(['d', 'd', 'd', '2020-02-29'])
    if ty == 'int':
        return ch([lambda: f'year({dt()})', lambda: f'month({dt()})', lambda: f'day({dt()})',
                   lambda: f'date_diff({dt()}, {ch(["2020-06-15", "d", dt()])})',
                   lambda: f'date_part({q_lit(ch(LIB_FIELDS))}, {dt()})', lambda: f'date_part({q_lit(ch(LIB_FIELDS))}, d)',
                   lambda: f'int({st()})', lambda: f'int(str({i()}))', lambda: 'int(f)', lambda: f'int({i()})',
                   lambda: f'round({i()})', lambda: f'round({i()} * 17, {ch(["-1", "-2", "0", "1", "a2 - 3", "-a2"])})',
                   lambda: f'length(str({ch(["x", "x2", "d", "a", "f"])}))', lambda: f'length({st()})'])()
    if ty == 'str':
        return ch([lambda: f'quarter({dt()})', lambda: f'weekday({dt()})', lambda: f'str({i()})', lambda: 'str(x)', lambda: 'str(x2)',
                   lambda: f'str({dt()})', lambda: 'str(f)', lambda: f'str({st()})', lambda: f'root({st()}, {i()})',
                   lambda: f'root({st()})', lambda: f'root(b, {ch(["0", "1", "2", "3", "-1"])})', lambda: f'parent({st()})',
                   lambda: f'leaf({st()})', lambda: f'upper(weekday({dt()}))', lambda: f'substr(str({dt()}), 0, {ch(["4", "7", "-3"])})'])()
    if ty == 'date':
        return ch([lambda: f'date({i()} + 2018, {i()}, {i()})', lambda: f'date(2020, {i()}, {i()})', lambda: f'date({st()})',
                   lambda: f'date(str({dt()}))', lambda: f'date({dt()})', lambda: "date('2020-02-29')",
                   lambda: f'date(year({dt()}), month({dt()}), 1)', lambda: f'date(year(d), {i()}, day(d))'])()
    if ty == 'Decimal':
        return ch([lambda: 'decimal(f)', lambda: 'decimal(x)', lambda: f'decimal({i()})', lambda: 'decimal(x2) + x'])()
    if ty == 'bool':
        return ch([lambda: f'year({dt()}) = {ch(["2020", "2021", "1999"])}', lambda: f'date_part({q_lit(ch(LIB_FIELDS))}, d) > {ch(["1", "6", "20"])}',
                   lambda: 'length(str(x)) > 3', lambda: f"parent({st()}) = 'Assets'", lambda: f'int({st()}) > 0',
                   lambda: f'date({st()}) IS NOT NULL', lambda: f'weekday({dt()}) = {q_lit(ch(["Mon", "Sun", "Fri"]))}',
                   lambda: f"quarter({dt()}) >= '2020-Q3'", lambda: "root(b, 1) IN ('Assets', 'Income')",
                   lambda: f"str({i()}) ~ '1'", lambda: f'month({dt()}) BETWEEN 3 AND 9', lambda: f'round({i()}, -1) = 10',
                   lambda: f'bool(int({st()}))', lambda: f'{i()} > 1'])()
    raise KeyError(ty)


def q_lit(sv):
    return "'" + sv + "'"


def lib_statement(rng):
    ch = rng.choice
    tys = ['int', 'int', 'str', 'str', 'date', 'Decimal', 'bool']
    shape = ch(['plain', 'plain', 'plain', 'group', 'group', 'distinct', 'aggonly', 'sub', 'untyped'])
    where = f' WHERE {lib_expr(rng, "bool")}' if rng.random() < 0.45 else ''
    if shape == 'plain':
        ts = [lib_expr(rng, ch(tys), ch([0, 1, 1, 2])) for _ in range(ch([1, 2, 3]))]
        ts = [t + (f' AS c{k}' if rng.random() < 0.3 else '') for k, t in enumerate(ts)]
        order = ''
        if rng.random() < 0.6:
            keys = [ch([str(rng.randint(1, len(ts))), lib_expr(rng, ch(['int', 'str', 'date'])), 'a', 'b'])
                    + ch(['', '', ' DESC']) for _ in range(ch([1, 2]))]
            order = ' ORDER BY ' + ', '.join(keys)
        limit = f' LIMIT {ch([0, 1, 2, 4])}' if order and rng.random() < 0.25 else ''
        return shape, f'SELECT {", ".join(ts)} FROM #v{where}{order}{limit}'
    aggs = ['count(*)', 'sum(a)', f'max({lib_expr(rng, "int")})', f'min({lib_expr(rng, "str")})', f'count({lib_expr(rng, "int")})',
            'sum(round(a, -1))', f'first({lib_expr(rng, "str")})', f'last({lib_expr(rng, "date")})', f'max({lib_expr(rng, "date")})',
            'sum(decimal(f))', 'sum(int(b))', 'count(date(b))']
    if shape == 'group':
        keys = [lib_expr(rng, ch(['int', 'str', 'date', 'bool']), ch([0, 1])) for _ in range(ch([1, 1, 2]))]
        ags = [ch(aggs) for _ in range(ch([1, 2]))]
        by = ', '.join(str(k + 1) for k in range(len(keys))) if rng.random() < 0.6 else ', '.join(keys)
        having = f' HAVING {ch(["count(*) > 1", "max(year(d)) > 2000", "min(length(str(a))) < 2"])}' if rng.random() < 0.2 else ''
        order = ' ORDER BY ' + ', '.join(str(k + 1) + ch(['', ' DESC']) for k in range(len(keys))) if rng.random() < 0.6 else ''
        return shape, f'SELECT {", ".join(keys + ags)} FROM #v{where} GROUP BY {by}{having}{order}'
    if shape == 'distinct':
        e = lib_expr(rng, ch(['int', 'str', 'date']))
        return shape, f'SELECT DISTINCT {e} FROM #v{where} ORDER BY 1{ch(["", " DESC"])}'
    if shape == 'aggonly':
        return shape, f'SELECT {", ".join(ch(aggs) for _ in range(ch([1, 2, 3])))} FROM #v{where}'
    if shape == 'sub':
        k = lib_expr(rng, ch(['int', 'str']), 0)
        return shape, (f'SELECT k, n FROM (SELECT {k} AS k, count(*) AS n, max(d) AS m FROM #v{where} GROUP BY 1) '
                       f'WHERE {ch(["n > 0", "year(m) > 2000", "k IS NOT NULL"])} ORDER BY k')
    # the functions the typed model leaves out (they can raise): the model must answer not-lowerable
    e = ch(['yearmonth(d)', 'date_add(d, a)', "date_trunc('month', d)", "splitcomp(b, ':', 0)", 'maxwidth(b, 10)',
            "date_bin('1 month', d, 2020-01-01)", 'round(x, 1)', 'round(x)', 'decimal(b)', 'year(yearmonth(d))'])
    return shape, f'SELECT {e}, a FROM #v{where}'


def e2e_lib_cases(tier, rng):
    n = 170 if tier == 'quick' else 2500
    cases = []
    for _ in range(n):
        shape, text = lib_statement(rng)
        cases.append(dict(stream='e2e', rule='e2e:lib:' + shape, text=text, params=None, rows=lib_rows(rng)))
    return cases


LIB_CALL_RE = re.compile(r'\b(' + '|'.join(LIB_FUNCS) + r')\(')


def lib_function_counts(cases, models):
    """per library function: statements using it that were compared (model gave rows / rejection / raise), of which
    statements whose rows were compared, and statements the model refused (not-lowerable)"""
    out = {}
    for c, m in zip(cases, models):
        for fn in sorted(set(LIB_CALL_RE.findall(c['text']))):
            d = out.setdefault(fn, {'compared': 0, 'rows': 0, 'not_lowerable': 0})
            if m[0] == 3:
                d['not_lowerable'] += 1
            else:
                d['compared'] += 1
                d['rows'] += int(m[0] == 0)
    return out


def observe_e2e(case):
    from . import values
    e_ = env()
    conn = e_['conn']
    rows = [dec_row(r) for r in case['rows']]
    conn.tables['v'] = impl.make_table('v', [(c, E2E_PY[t]) for c, t in E2E_COLS], rows)
    rec = {'phase': None, 'coq': None, 'result': None, 'msg': None}
    try:
        node = bq_parser.parse(case['text'])
        rec['coq'] = f'{c_params(case.get("params"))} {c_stmt(node)}'
    except Exception as e:  # noqa: BLE001
        rec.update(phase='parse', msg=repr(e)[:200])
        return rec
    try:
        curs = conn.execute(node, py_params(case.get('params')))
        types = [[ord(c) for c in tname(col.datatype)] for col in curs.description]
        rec.update(phase='ok', result=[0, types, values.canon_rows(curs.fetchall())])
    except beanquery.ProgrammingError as e:
        rec.update(phase='compile', result=[1, kind_of(e)], msg=str(e)[:200])
    except Exception as e:  # noqa: BLE001
        rec.update(phase='raise', result=[2], msg=repr(e)[:200])
    return rec


def equal_nonaggregate_targets(case):
    """do two non-aggregate targets of the statement compile to EQUAL nodes (EvalNode.__eq__)? Each target is compiled
    alone (SELECT <target> FROM #v), so this does not depend on how the compiler reconciles them."""
    e_ = env()
    conn = e_['conn']
    conn.tables['v'] = impl.make_table('v', [(c, E2E_PY[t]) for c, t in E2E_COLS], [dec_row(r) for r in case['rows']])
    try:
        node = bq_parser.parse(case['text'])
        targets = getattr(node, 'targets', None)
        if not isinstance(targets, (list, tuple)):
            return False
        compiled = []
        for t in targets:
            text = t.expression.text
            try:
                q = bq_compiler.compile(conn, bq_parser.parse(f'SELECT {text} FROM #v'), py_params(case.get('params')))
            except Exception:  # noqa: BLE001  (an aggregate / a target that does not compile alone)
                continue
            tg = q.c_targets[0]
            if not tg.is_aggregate:
                compiled.append(tg.c_expr)
        return any(a == b for i, a in enumerate(compiled) for b in compiled[i + 1:])
    except Exception:  # noqa: BLE001
        return False


def e2e_schema_coq():
    return (f'(mk_table "v" {clist([f"({q(c)}, {q(t)})" for c, t in E2E_COLS])} '
            f'{clist([q(c) for c, _ in E2E_COLS])} false)')


def model_e2e(cases, recs, tag='c05e'):
    from . import values
    sc = '(' + e2e_schema_coq() + ' :: ' + schema_coq() + ')'
    exprs = []
    for c, r in zip(cases, recs):
        rows = values.rows_to_coq([dec_row(x) for x in c['rows']])
        exprs.append(f'(run_out {sc} [("v", {rows})] {r["coq"]})')
    return core.coq_eval(tag, ['Base.PyValue', 'Model.Compile', 'Model.Link'], exprs, shard=60)


def run_e2e(tier, rng):
    cases = e2e_cases(tier, rng)
    recs = core.pmap(observe_e2e, cases)
    idx = [i for i, r in enumerate(recs) if r['coq'] is not None]
    models = model_e2e([cases[i] for i in idx], [recs[i] for i in idx])
    hist = {'phase': {}, 'shape': {}, 'model': {}, 'not_lowerable_stage': {}, 'rows': {}}
    violations = {}
    compared = rows_compared = 0
    for i, m in zip(idx, models):
        c, r = cases[i], recs[i]
        hist['phase'][r['phase']] = hist['phase'].get(r['phase'], 0) + 1
        hist['shape'][c['rule']] = hist['shape'].get(c['rule'], 0) + 1
        mk = {0: 'rows', 1: 'rejected', 2: 'raises', 3: 'not-lowerable'}[m[0]]
        hist['model'][mk] = hist['model'].get(mk, 0) + 1
        if m[0] == 3:
            hist['not_lowerable_stage'][str(m[1])] = hist['not_lowerable_stage'].get(str(m[1]), 0) + 1
            hist.setdefault('not_lowerable_samples', [])
            if len(hist['not_lowerable_samples']) < 8:
                hist['not_lowerable_samples'].append(c['text'][:300])
            continue
        compared += 1
        if m[0] == 0 and r['phase'] == 'ok':
            rows_compared += 1
            nr = len(r['result'][2])
            hist['rows'][str(min(nr, 5))] = hist['rows'].get(str(min(nr, 5)), 0) + 1
        if r['phase'] == 'raise' and 'OverflowError' in str(r['msg']) and 'date value out of range' in str(r['msg']):
            # datetime.date arithmetic leaving year 1..9999 raises in Python; the model's dates are unbounded (ASSUMPTIONS):
            # counted, not compared
            hist['date_overflow_counted_not_compared'] = hist.get('date_overflow_counted_not_compared', 0) + 1
            continue
        if norm(m) != norm(r['result']):
            short = c['text'] if len(c['text']) < 200 else c['text'][:197] + '...'
            sig = 'e2e:' + short
            if (r['phase'] == 'compile' and 'must be covered by GROUP-BY' in str(r['msg']) and m[0] == 0
                    and equal_nonaggregate_targets(c)):
                # the listed finding of this check (a GROUP BY key is reconciled with the FIRST equal target only): here two
                # different-looking constant targets fold to equal compiled nodes; the model keeps their provenance apart
                sig = 'rejected:duplicate-grouped-target'
            if sig not in violations and len(violations) < 3:
                violations[sig] = core.Violation(
                    'end-to-end', f'{short!r} params={c.get("params")} over rows {c["rows"]}: implementation '
                    f'{describe_e2e(r["result"], r["msg"])} but compile+lower+exec of the model gives {describe_e2e(m, None)}',
                    {'case': c, 'impl': r['result'], 'model': m, 'e2e': True}, signature=sig)
    for r in recs:
        if r['coq'] is None:
            hist['phase']['parse'] = hist['phase'].get('parse', 0) + 1
    hist['library_functions'] = lib_function_counts([cases[i] for i in idx], models)
    # the untyped library functions must never come back as rows from the model
    for i, m in zip(idx, models):
        used = set(LIB_CALL_RE.findall(cases[i]['text'])) & set(LIB_UNTYPED)
        if used and m[0] != 3 and recs[i]['phase'] == 'ok' and len(violations) < 3:
            sig = 'e2e-untyped:' + cases[i]['text'][:150]
            violations[sig] = core.Violation('end-to-end', f'{cases[i]["text"]!r}: the model lowered a statement using '
                                             f'{sorted(used)}, which Model/Typing.v leaves untyped', {'case': cases[i], 'model': m},
                                             signature=sig)
    cov = {'e2e_statements': len(cases), 'e2e_compared': compared, 'e2e_rows_compared': rows_compared,
           'e2e_library_statements': sum(1 for c in cases if c['rule'].startswith('e2e:lib')),
           'e2e_not_lowerable': sum(hist['not_lowerable_stage'].values()), 'e2e_histograms': hist,
           'e2e_samples': [c['text'] for c in cases[:4]]}
    return cov, list(violations.values())


def describe_e2e(res, msg):
    if res[0] == 0:
        return f'returns {len(res[2])} rows {json.dumps(res[2])[:400]} of types {["".join(map(chr, t)) for t in res[1]]}'
    if res[0] == 1:
        return f'rejects (kind {res[1]}; {msg})'
    return f'raises at execution ({msg})'


# ------------------------------------------------------------------------------------------------

def uncovered_order_mutants(g, rng, n):
    """Random aggregate queries (all-aggregate targets, implicit or explicit grouping) whose ORDER BY gets one extra
    non-aggregate key that is neither a grouping key nor a target: an uncovered hidden target, by construction.
    One third of them wrapped as FROM subquery, one third as IN subquery."""
    out = []
    tries = 0
    while len(out) < n and tries < n * 20:
        tries += 1
        g.use_params = None
        g.params = []
        st = g.select(rng.choice([1, 2]), tbl=g.tables()[0])
        shape = st['shape']
        if shape not in ('allagg', 'implicit', 'group') or st['pivot'] or st['distinct']:
            continue
        if shape != 'allagg' and rng.random() < 0.7:        # half of the family: aggregate-only targets, no GROUP BY
            continue
        taken = {x.text for x, _ in st['targets']} | {a for _, a in st['targets'] if a} | set(st['group'] or [])
        cols = [c for c, t in st['tbl'].cols if c not in taken and t in ('int', 'str', 'date', 'Decimal', 'bool')
                and not any(c in k for k in (st['group'] or [])) and not any(x.text == c for x, _ in st['targets'])]
        if shape != 'allagg':
            cols = [c for c in cols if not any(c in x.text for x, _ in st['targets'] if not x.agg)]
        if not cols:
            continue
        c = rng.choice(cols)
        key = rng.choice([c, c, f'({c} IS NULL)', f'coalesce({c})'])
        st['order'] = st['order'] + [key + rng.choice(['', ' DESC'])]
        rng.shuffle(st['order'])
        st['limit'] = None
        text = c05gen.render(st)
        wrap = rng.choice(['plain', 'from', 'in', 'in'])
        if wrap == 'from':
            st['targets'] = [(x, a or f'w{i}') for i, (x, a) in enumerate(st['targets'])]
            text = f'SELECT * FROM ({c05gen.render(st)})'
        elif wrap == 'in':
            if len(st['targets']) != 1:
                wrap = 'plain'
            else:
                text = f'SELECT k FROM #u WHERE k IN ({text})'
        out.append(dict(stream='mutant', rule=f'uncovered-order-random:{shape}:{wrap}', text=text, params=None, expect='reject'))
    return out


def having_copy_mutants(g, rng, n):
    """fix-G.  Random valid GROUP BY statements whose HAVING is replaced by a NON-aggregate expression the statement already
    evaluates: a copy of a selected non-aggregate target, of a grouping key (spelled out / referenced by position / by
    name / hidden), a bool-valued expression over such a copy, or such an expression that is first ADDED as a named target
    and grouping key.  Ill-formed by construction ("HAVING aggregate"): the copied expressions come from the row-mode
    productions of the generator and contain no aggregate of this statement."""
    out = []
    tries = 0
    while len(out) < n and tries < n * 30:
        tries += 1
        g.use_params = None
        g.params = []
        st = g.select(rng.choice([1, 2]), tbl=(g.tables()[0] if rng.random() < 0.6 else None))
        if st['shape'] != 'group' or not st['group']:
            continue
        st['pivot'] = None
        shown = [(i, x, a) for i, (x, a) in enumerate(st['targets']) if not x.agg]
        cands = []
        for i, x, a in shown:
            cands.append(('target', x.text, x.ty))
        for e in st['group']:
            if e.isdigit():
                x = st['targets'][int(e) - 1][0]
                cands.append(('positional-key', x.text, x.ty))
            else:
                named = [x for x, a in st['targets'] if a == e]
                if named:
                    cands.append(('named-key', named[0].text, named[0].ty))
                elif any(c05gen.keytext(x.text) == e for _, x, _ in shown):
                    cands.append(('shown-key', e, None))
                else:
                    cands.append(('hidden-key', e, None))
        if not cands:
            continue
        how, text, ty = rng.choice(cands)
        r = rng.random()
        if r < 0.5:
            having, form = text, 'copy'
        elif r < 0.75:
            having = rng.choice([f'({text}) IS NULL', f'({text}) IS NOT NULL', f'NOT ({text}) IS NULL', f'coalesce({text}) IS NULL'])
            form = 'bool-over'
        else:
            # the bool-valued expression itself becomes a target and a grouping key; HAVING repeats it
            having, form = f'({text}) IS NULL', 'added-as-key'
            alias = f'hv{len(out)}'
            st['targets'] = st['targets'] + [(c05gen.X(having, 'bool'), alias)]
            st['group'] = st['group'] + [rng.choice([alias, str(len(st['targets'])), having])]
        st['having'] = c05gen.X(having, 'bool')
        st['limit'] = None
        out.append(dict(stream='mutant', rule=f'having-copy:{how}:{form}', text=c05gen.render(st), params=None, expect='reject',
                        having_copy={'of': how, 'form': form}))
    return out


# ------------------------------------------------------------------------------------------------
# fix-G.  Stream "registry histories": acceptance is a function of the statement and of what is registered NOW, not of
# what an earlier statement of the process found.  Every history runs in a FRESH Python process (the registries are
# process-wide and cannot be emptied): statements calling a function are interleaved with registrations (importing
# beanquery.query_env, attaching a Beancount ledger, query_env.function(..) for brand-new names).  Oracle, from the
# property text: the call is accepted exactly when an overload for the operand types is registered at that moment
# (simulated registry, most specific operand type first), and then yields the row the resolved overload computes.

HISTORY_CHILD = r"""
import sys, os, json, decimal, datetime
REPO = os.environ.get('VERIF_REPO', '/repo')
sys.path.insert(0, REPO)
import beanquery
assert os.path.realpath(beanquery.__file__).startswith(os.path.realpath(REPO)), beanquery.__file__
hist = json.load(sys.stdin)
TYPES = {'int': int, 'str': str, 'bool': bool, 'Decimal': decimal.Decimal, 'date': datetime.date}
conns = {'c': beanquery.Connection()}
out = []

def cell(v):
    if v is None or isinstance(v, (bool, int, str)):
        return v
    if isinstance(v, decimal.Decimal):
        return 'D:' + str(v)
    return 'R:' + repr(v)

def cls(e):
    for n in ('ParseError', 'CompilationError', 'ProgrammingError'):
        if isinstance(e, getattr(beanquery, n)):
            return n
    return 'other:' + type(e).__name__

for step in hist['steps']:
    op = step[0]
    pre = ['beanquery.query_env' in sys.modules]
    try:
        if op in ('exec', 'compile'):
            c = conns[step[2] if len(step) > 2 else 'c']
            try:
                if op == 'exec':
                    out.append(['rows', [[cell(v) for v in r] for r in c.execute(step[1]).fetchall()]] + pre)
                else:
                    c.compile(c.parse(step[1]))
                    out.append(['compiled'] + pre)
            except Exception as e:
                out.append(['raised', cls(e), str(e)[:200]] + pre)
            continue
        if op == 'import_env':
            import beanquery.query_env
        elif op == 'attach':
            conns[step[2] if len(step) > 2 else 'c'].attach('beancount:' + step[1])
        elif op == 'connection':
            conns[step[1]] = beanquery.Connection()
        elif op == 'register':
            from beanquery import query_env, query_compile
            name, intypes, tag = step[1], step[2], step[3]
            before = len(query_compile.FUNCTIONS[name])
            query_env.function([TYPES[t] for t in intypes], str, name=name)(lambda *a, tag=tag: tag)
            for f in query_compile.FUNCTIONS[name][before:]:
                f.__verif_harness__ = True
        else:
            raise ValueError(op)
        out.append(['done'] + pre)
    except Exception as e:
        out.append(['step-failed', type(e).__name__, str(e)[:200]] + pre)
json.dump(out, sys.stdout)
"""

HIST_LEDGER = ('option "operating_currency" "USD"\n2020-01-01 open Assets:Cash\n2020-01-01 open Expenses:Food\n'
               '2020-01-02 * "lunch"\n  Expenses:Food   3.00 USD\n  Assets:Cash\n')
HIST_MRO = {'int': ['int'], 'str': ['str'], 'bool': ['bool', 'int'], 'Decimal': ['Decimal']}
HIST_LIT = {'int': '2', 'str': "'ab'", 'bool': 'TRUE', 'Decimal': '1.5'}
HIST_OVERLOADS = [['int'], ['str'], ['bool'], ['Decimal'], ['int', 'str'], ['str', 'int'], ['int', 'int'], []]
HIST_CONTEXTS = [('SELECT {call} AS r FROM #', 'value'), ('SELECT {call} AS r FROM #', 'value'),
                 ('SELECT r FROM (SELECT {call} AS r FROM #)', 'value'), ('SELECT 1 AS one FROM # WHERE {call} IS NOT NULL', 'one'),
                 ('SELECT length({call}) >= 0 AS r FROM #', 'builtin-true')]


def hist_ledger():
    import os
    d = os.path.join(core.BUILD, 'c05')
    os.makedirs(d, exist_ok=True)
    path = os.path.join(d, 'history.beancount')
    core.write_if_changed(path, HIST_LEDGER)
    return path


def hist_resolve(registered, name, argtypes):
    """The overload a call resolves to, given the registrations so far (in order): operand types most specific first."""
    import itertools
    for sig in itertools.product(*(HIST_MRO[t] for t in argtypes)):
        for n, intypes, tag in registered:
            if n == name and list(intypes) == list(sig):
                return tag
    return None


def hist_expect(history):
    """Per step: None (not a statement) | ['reject'] | ['rows', rows] | ['compiled'], from the property text alone."""
    registered, env_loaded, out = [], False, []
    for step in history['steps']:
        op = step[0]
        if op in ('import_env', 'attach', 'register'):
            env_loaded = True
            if op == 'register':
                registered.append((step[1], step[2], step[3]))
            out.append(None)
        elif op in ('exec', 'compile'):
            meta = history['calls'].get(step[1])
            if meta is None:
                out.append(None)
                continue
            if meta['kind'] == 'builtin':
                ok = env_loaded
                rows = meta['rows']
            else:
                tag = hist_resolve(registered, meta['name'], meta['argtypes'])
                ok = tag is not None and (meta['context'] != 'builtin-true' or env_loaded)
                rows = [[tag]] if meta['context'] == 'value' else [[1]] if meta['context'] == 'one' else [[True]]
            out.append(['reject'] if not ok else ['compiled'] if op == 'compile' else ['rows', rows])
        else:
            out.append(None)
    return out


BUILTIN_CALLS = [("SELECT length('abc') AS r FROM #", [[3]]), ("SELECT upper('ab') AS r FROM #", [['AB']]),
                 ("SELECT 1 AS one FROM # WHERE length('abc') = 3", [[1]]), ("SELECT abs(-2.5) AS r FROM #", [['D:2.5']]),
                 ("SELECT year(2020-03-04) AS r FROM #", [[2020]]), ("SELECT r FROM (SELECT lower('AB') AS r FROM #)", [['ab']]),
                 ("SELECT coalesce(substr('hello', 1, 3), 'x') AS r FROM #", [['el']])]


def builtin_histories():
    """A bare Connection() has no function registered: the built-ins arrive with beanquery.query_env, imported explicitly,
    by attaching a Beancount source (on this or on ANOTHER connection), or by registering a plugin function."""
    path = hist_ledger()
    out = []
    loads = [['import_env'], ['attach', path], ['register', 'vh_other', ['int'], 'vh_other/int'], ['connection', 'd']]
    for k, load in enumerate(loads):
        for order in ('before', 'after'):
            texts = [BUILTIN_CALLS[(2 * k + j) % len(BUILTIN_CALLS)] for j in range(3)]
            calls = {t: {'kind': 'builtin', 'rows': rows} for t, rows in texts}
            first = [['exec' if j != 1 else 'compile', t] for j, (t, _) in enumerate(texts)]
            second = [['exec', t] for t, _ in texts]
            ld = [load] if load[0] != 'connection' else [['connection', 'd'], ['attach', path, 'd']]
            steps = (first if order == 'after' else []) + ld + second
            if load[0] == 'connection':      # and a connection created after the load
                steps += [['connection', 'e'], ['exec', texts[0][0], 'e']]
            out.append({'family': f'builtin:{load[0]}:{order}', 'steps': steps, 'calls': calls})
    return out


def gen_history(rng):
    names = ['vh_f', 'vh_g']
    calls = {}
    pool = []
    for _ in range(rng.randint(2, 4)):
        name = rng.choice(names)
        sig = rng.choice(HIST_OVERLOADS)
        argtypes = [t if rng.random() < 0.8 else rng.choice(list(HIST_LIT)) for t in sig]
        if 'int' in argtypes and rng.random() < 0.3:
            argtypes[argtypes.index('int')] = 'bool'         # bool operand: served by an int overload until a bool one exists
        tmpl, ctx = rng.choice(HIST_CONTEXTS)
        text = tmpl.format(call=f'{name}({", ".join(HIST_LIT[t] for t in argtypes)})')
        calls[text] = {'kind': 'plugin', 'name': name, 'argtypes': argtypes, 'context': ctx}
        pool.append((text, name, argtypes))
    steps = []
    if rng.random() < 0.5:
        steps.append(rng.choice([['import_env'], ['attach', hist_ledger()]]))
    todo = []
    for text, name, argtypes in pool:               # the overloads that would serve the calls, plus decoys
        todo.append(['register', name, [rng.choice(HIST_MRO[t]) for t in argtypes], None])
    for _ in range(rng.randint(0, 2)):
        todo.append(['register', rng.choice(names), rng.choice(HIST_OVERLOADS), None])
    rng.shuffle(todo)
    n_exec = 0
    while todo or n_exec < 3:
        if todo and rng.random() < 0.4:
            r = todo.pop()
            r[3] = f'{r[1]}/{"+".join(r[2])}#{len(steps)}'
            steps.append(r)
        else:
            text = rng.choice(pool)[0]
            steps.append([rng.choice(['exec', 'exec', 'exec', 'compile']), text])
            n_exec += 1
        if len(steps) > 14:
            break
    for text, _, _ in pool:                          # every call once more at the end, whatever happened before
        steps.append(['exec', text])
    steps = [s for s in steps if s[0] != 'register' or s[3] is not None]
    return {'family': 'plugin:random', 'steps': steps, 'calls': calls}


def run_history(history):
    import os
    import subprocess
    import sys
    p = subprocess.run([sys.executable, '-c', HISTORY_CHILD], input=json.dumps(history), text=True,
                       stdout=subprocess.PIPE, stderr=subprocess.PIPE, timeout=120,
                       env=dict(os.environ, VERIF_REPO=core.REPO, PYTHONDONTWRITEBYTECODE='1'))
    if p.returncode != 0:
        return ['child-failed', p.stderr[-600:]]
    return json.loads(p.stdout)


def judge_history(history, observed):
    """-> None | (step index, what was expected, what happened)"""
    if observed and observed[0] == 'child-failed':
        return (0, 'the history to run', observed)
    expected = hist_expect(history)
    for i, (e, o) in enumerate(zip(expected, observed)):
        o = o[:-1]                                   # (the last item says whether query_env was imported before the step)
        if o[0] == 'step-failed':
            return (i, 'the step to run', o)
        if e is None:
            continue
        if e[0] == 'reject':
            if not (o[0] == 'raised' and o[1] == 'CompilationError'):
                return (i, 'rejected with CompilationError (no overload registered for the operand types)', o)
        elif e[0] == 'compiled':
            if o[0] != 'compiled':
                return (i, 'accepted (an overload for the operand types is registered)', o)
        elif o[0] != 'rows' or o[1] != e[1]:
            return (i, f'accepted, rows {e[1]} (an overload for the operand types is registered)', o)
    if len(expected) != len(observed):
        return (len(observed), 'one observation per step', observed[-1:])
    return None


def show_history(history, upto=None):
    def one(s):
        if s[0] == 'register':
            return f'register {s[1]}({", ".join(s[2])})'
        if s[0] == 'attach':
            return 'attach ledger' + (f' on {s[2]}' if len(s) > 2 else '')
        if s[0] in ('exec', 'compile'):
            return f'{s[0]} {s[1]!r}' + (f' on {s[2]}' if len(s) > 2 else '')
        return ' '.join(map(str, s))
    steps = history['steps'] if upto is None else history['steps'][:upto + 1]
    return 'fresh process: ' + ' ; '.join(one(s) for s in steps)


def shrink_history(history, bad):
    """Drop steps (never the failing one) while the last step keeps failing."""
    cur = dict(history, steps=history['steps'][:bad[0] + 1])
    i = 0
    budget = 14
    while i < len(cur['steps']) - 1 and budget > 0:
        cand = dict(cur, steps=cur['steps'][:i] + cur['steps'][i + 1:])
        budget -= 1
        b = judge_history(cand, run_history(cand))
        if b is not None and b[0] == len(cand['steps']) - 1:
            cur = cand
        else:
            i += 1
    return cur


def run_histories(tier, rng):
    from concurrent.futures import ThreadPoolExecutor
    hs = builtin_histories() + [gen_history(rng) for _ in range(16 if tier == 'quick' else 150)]
    with ThreadPoolExecutor(max_workers=min(8, core.NCPU)) as ex:
        obs = list(ex.map(run_history, hs))
    violations, seen = [], set()
    hist = {'family': {}, 'statement_outcome': {}, 'rejected_then_accepted_calls': 0, 'steps': 0,
            'statements_before_query_env_is_imported': 0}
    for h, o in zip(hs, obs):
        fam = h['family'].rsplit(':', 1)[0]
        hist['family'][fam] = hist['family'].get(fam, 0) + 1
        hist['steps'] += len(h['steps'])
        exp = hist_expect(h)
        rejected = set()
        for s, e, r in zip(h['steps'], exp, o if o and o[0] != 'child-failed' else []):
            if e is None:
                continue
            hist['statement_outcome'][e[0]] = hist['statement_outcome'].get(e[0], 0) + 1
            if r[-1] is False:
                hist['statements_before_query_env_is_imported'] += 1
            if e[0] == 'reject':
                rejected.add(s[1])
            elif s[1] in rejected:
                rejected.discard(s[1])
                hist['rejected_then_accepted_calls'] += 1
        bad = judge_history(h, o)
        if bad is None:
            continue
        step = h['steps'][min(bad[0], len(h['steps']) - 1)]
        earlier = step[0] in ('exec', 'compile') and any(
            s[0] in ('exec', 'compile') and s[1] == step[1] for s in h['steps'][:bad[0]])
        sig = (f'registry-history:{fam}:{"same-call-seen-before" if earlier else "first-use"}:'
               f'{"reject" if "rejected" in bad[1] else "accept"}-expected')
        if sig in seen:
            continue
        seen.add(sig)
        if len(seen) <= 2 and o[0] != 'child-failed':
            small = shrink_history(h, bad)
            b2 = judge_history(small, run_history(small))
            if b2 is not None:
                h, bad = small, b2
        violations.append(core.Violation(
            'registry-history', f'{show_history(h, bad[0])}: the last statement should be {bad[1]}, observed {bad[2]}',
            {'history': h, 'step': bad[0], 'expected': bad[1], 'observed': bad[2]}, signature=sig))
    cov = {'registry_history_stream': dict(hist, histories=len(hs), samples=[show_history(h) for h in hs[:1] + hs[8:10]])}
    return cov, violations


# ------------------------------------------------------------------------------------------------
# Concurrent stream (fix-K): the outcome of parse + compile of a statement is a function of the statement (text,
# parameters, tables), whatever other threads of the process parse or compile at the same moment (the DB-API module
# declares threadsafety = 2).  N threads run Connection.parse + compile over DIFFERENT valid and invalid statements at the
# same time; every outcome must be the one the same call gives alone: same accept / reject, a ParseError /
# CompilationError and never another exception, a location within ITS OWN text.

def observe_pc(case):
    """parse + compile (no execution) -> a small comparable outcome:
    ['ok', summary] | ['parse' | 'compile' | 'fold-error', class, message, [pos, endpos] | None, problems]"""
    e_ = env()
    text = case['text']
    try:
        node = e_['conn'].parse(text)
    except Exception as e:  # noqa: BLE001
        cls, problems = check_exception(e, text)
        pi = getattr(e, 'parseinfo', None)
        try:
            if pi is not None and pi.tokenizer.text != text:
                problems.append('span-of-other-text')
        except Exception:  # noqa: BLE001
            problems.append('parseinfo-unreadable')
        return ['parse', cls, str(e)[:200], [pi.pos, pi.endpos] if pi is not None else None, problems]
    params = case.get('params')
    if case.get('container') == 'swap' and params is not None:
        pv = py_params(params)
        pv = {str(i): v for i, v in enumerate(pv)} if isinstance(pv, list) else list(pv.values())
    else:
        pv = py_params(params)
    try:
        cq = bq_compiler.compile(e_['conn'], node, pv)
    except Exception as e:  # noqa: BLE001
        cls, problems = check_exception(e, text)
        if is_fold_error(e):
            return ['fold-error', cls, '', None, []]
        pi = getattr(e, 'parseinfo', None)
        return ['compile', cls, str(e)[:200], [pi.pos, pi.endpos] if pi is not None else None, problems]
    try:
        return ['ok', summarize(cq)]
    except Exception as e:  # noqa: BLE001
        return ['ok', ['summary-failed', type(e).__name__]]


def concurrent_pc_round(lists, reps=1, switch=1e-6):
    """One barrier-synchronised burst per repetition: thread k runs observe_pc over lists[k], one statement after the other.
    -> out[r][k] = [outcome ...].  The interpreter's switch interval is lowered for the burst and restored."""
    import sys
    import threading
    n = len(lists)
    out = [[None] * n for _ in range(reps)]
    barrier = threading.Barrier(n)

    def work(k):
        for r in range(reps):
            try:
                barrier.wait(timeout=120)
            except threading.BrokenBarrierError:
                out[r][k] = [['broken-barrier']] * len(lists[k])
                return
            res = []
            for c in lists[k]:
                try:
                    res.append(observe_pc(c))
                except Exception as e:  # noqa: BLE001
                    res.append(['harness', type(e).__name__, str(e)[:100]])
            out[r][k] = res
    old = sys.getswitchinterval()
    sys.setswitchinterval(switch)
    try:
        ths = [threading.Thread(target=work, args=(k,), daemon=True) for k in range(n)]
        for t in ths:
            t.start()
        for t in ths:
            t.join(600)
    finally:
        sys.setswitchinterval(old)
    return out


def concurrent_difference(got, alone):
    """None, or (category, text) of how the outcome under concurrency departs from the outcome of the same call alone."""
    if got is None:
        return 'no-outcome', 'the call did not return'
    if norm(got) == norm(alone):
        return None
    if got[0] != 'ok' and any(p.startswith('class:') for p in got[4]):
        cls = [p for p in got[4] if p.startswith('class:')][0][6:]
        return 'escape:' + cls, f'raised {cls} ({got[2]}) instead of a ProgrammingError'
    if got[0] != 'ok' and got[4] and got[4] != (alone[4] if alone[0] != 'ok' else []):
        return 'location:' + got[4][0], f'the {got[1]} carries an invalid location ({", ".join(got[4])}; span {got[3]})'
    if alone[0] == 'ok' and got[0] != 'ok':
        return 'rejected-well-formed', f'rejected ({got[0]}: {got[1]}: {got[2]}) although the same call alone is accepted'
    if alone[0] != 'ok' and got[0] == 'ok':
        return 'accepted-ill-formed', f'accepted although the same call alone is rejected ({alone[1]}: {alone[2]})'
    if alone[0] == 'ok':
        return 'another-compilation', 'compiled to another query than the same call alone'
    return 'another-rejection', f'rejected with {got[:4]} but the same call alone gives {alone[:4]}'


def run_concurrent(tier, rng, cases, recs):
    """-> (coverage, violations)"""
    import time as _time
    t0 = _time.time()
    nthreads, per_thread = 4, 4
    rounds = 8 if tier == 'quick' else 120
    groups = {'accepted': [], 'parse-rejected': [], 'compile-rejected': []}
    for c, r in zip(cases, recs):
        if len(c['text']) > 220 or c['stream'] not in ('valid', 'mutant', 'corrupt', 'overload'):
            continue
        g = {'ok': 'accepted', 'execute': 'accepted', 'execute-eval': 'accepted', 'parse': 'parse-rejected',
             'compile': 'compile-rejected'}.get(r['phase'])
        if g and not r['problems']:
            groups[g].append((c, r))
    alone, violations, seen = {}, [], set()
    hist = {'alone': {}, 'differences': {}, 'text_length': {}}
    calls = wrong = 0

    def key(c):
        return json.dumps([c['text'], c.get('params'), c.get('container')], sort_keys=True, default=str)
    for rd in range(rounds):
        picked, keys = [], set()
        while len(picked) < nthreads * per_thread:
            gname = rng.choice(['accepted', 'accepted', 'parse-rejected', 'compile-rejected'])
            if not groups[gname]:
                gname = 'accepted'
            c, r = rng.choice(groups[gname])
            if key(c) in keys:
                continue
            keys.add(key(c))
            picked.append((c, r))
        for c, r in picked:
            k = key(c)
            if k not in alone:
                # the call alone, in this process, before any thread exists; it has to agree with the worker process' observation
                alone[k] = observe_pc(c)
                again = observe_pc(c)
                wphase = {'execute': 'ok', 'execute-eval': 'ok'}.get(r['phase'], r['phase'])
                if (norm(again) != norm(alone[k]) or alone[k][0] != wphase) and len(seen) < 3:
                    sig = 'serial-repeat:' + c['text']
                    seen.add(sig)
                    violations.append(core.Violation(
                        'outcome-not-a-function-of-statement', f'{c["text"]!r}: two calls alone give {alone[k][:3]} / {again[:3]}; '
                        f'a fresh process gave phase {r["phase"]}', {'concurrent': True, 'lists': [[c]], 'reps': 2}, signature=sig))
                hist['alone'][alone[k][0]] = hist['alone'].get(alone[k][0], 0) + 1
                lb = f'{len(c["text"]) // 50 * 50}+'
                hist['text_length'][lb] = hist['text_length'].get(lb, 0) + 1
        lists = [[c for c, _ in picked[k::nthreads]] for k in range(nthreads)]
        got = concurrent_pc_round(lists)[0]
        for lst, res in zip(lists, got):
            for i, c in enumerate(lst):
                calls += 1
                g = res[i] if res is not None and i < len(res) else None
                d = concurrent_difference(g, alone[key(c)])
                if d is None:
                    continue
                wrong += 1
                hist['differences'][d[0]] = hist['differences'].get(d[0], 0) + 1
                sig = 'concurrent:' + d[0]
                if sig in seen or len(seen) >= 3:
                    continue
                seen.add(sig)
                violations.append(core.Violation(
                    'concurrent-' + d[0].split(':')[0], f'parse + compile of {c["text"]!r} params={c.get("params")} while {nthreads - 1} other '
                    f'threads parse and compile other statements: {d[1]}',
                    {'concurrent': True, 'lists': lists, 'statement': c, 'got': g, 'alone': alone[key(c)], 'reps': 12}, signature=sig))
    cov = {'concurrent_stream': {
        'rounds': rounds, 'threads': nthreads, 'statements_per_thread_and_round': per_thread, 'calls': calls,
        'distinct_statements': len(alone), 'outcomes_differing_from_the_call_alone': wrong, 'switch_interval': 1e-6,
        'pool': {k: len(v) for k, v in groups.items()}, 'histograms': hist, 'seconds': round(_time.time() - t0, 1),
        'samples': [json.loads(k)[0] for k in list(alone)[:4]]}}
    core.log(f'[C05] concurrent stream: {calls} calls in {cov["concurrent_stream"]["seconds"]}s')
    return cov, violations


def build_cases(tier, rng):
    e = env()
    g = Gen(rng, e['reg'])
    n_valid = 700 if tier == 'quick' else 6000
    n_corrupt = 1500 if tier == 'quick' else 15000
    cases = []
    valid_texts = []
    for i in range(n_valid):
        depth = rng.choice([1, 1, 2, 2] if tier == 'quick' else [1, 2, 2, 3])
        text, params, shape = g.statement(depth)
        cases.append(dict(stream='valid', rule='valid:' + shape.split(':')[0], text=text, params=params, expect='accept'))
        valid_texts.append((text, params))
    cases.extend(uncovered_order_mutants(g, rng, 60 if tier == 'quick' else 600))
    for m in mutants():
        m['stream'] = 'mutant'
        cases.append(m)
    for m in overload_sweep(e['reg'], rng, tier):
        m['stream'] = 'overload'
        cases.append(m)
    for m in arity_sweep(e['reg'], rng, tier):
        m['stream'] = 'overload'
        cases.append(m)
    cases.extend(sibling_column_cases(g, rng, 220 if tier == 'quick' else 2500))
    base = [(m['text'], m['params']) for m in mutants()] + valid_texts
    for i in range(n_corrupt):
        text, params = rng.choice(base)
        t2, how = corrupt(rng, text)
        cases.append(dict(stream='corrupt', rule='corrupt:' + how, text=t2, params=params, expect='any'))
    # fix-G: drawn from the same PRNG without moving the draws of the streams that follow (end-to-end)
    saved_state = rng.getstate()
    cases.extend(having_copy_mutants(g, rng, 120 if tier == 'quick' else 1500))
    rng.setstate(saved_state)
    return cases


def judge(case, rec, model):
    """-> list of (kind, signature, summary)"""
    out = []
    short = case['text'] if len(case['text']) < 160 else case['text'][:157] + '...'
    for p in rec['problems']:
        if p.startswith('class:'):
            if p == 'class:TypeError' and rec['phase'] == 'compile' and rec['msg'].startswith('query parameters should be a'):
                continue
            out.append(('escape', f'escape:{rec["phase"]}:{p[6:]}:{rec["where"][1]}',
                        f'{short!r} params={case.get("params")}: {rec["phase"]} raised {p[6:]} ({rec["msg"]}) instead of a ProgrammingError'))
        else:
            out.append(('location', f'location:{rec["phase"]}:{p}', f'{short!r}: the {rec["cls"]} carries an invalid location ({p})'))
    accepted = rec['phase'] in ('ok', 'execute', 'execute-eval')
    if case['expect'] == 'reject' and accepted:
        out.append(('accepted-ill-formed', 'accepted:' + case['rule'].split(':')[0] + (':' + case['rule'].split(':')[1] if case['stream'] == 'overload' else ''),
                    f'{short!r} is ill-formed ({case["rule"]}) but was accepted'))
    if case['expect'] == 'accept' and rec['phase'] in ('parse', 'compile') and not rec['problems']:
        out.append(('rejected-well-formed', 'rejected:' + case['rule'], f'{short!r} is well-formed ({case["rule"]}) but was rejected: {rec["cls"]}: {rec["msg"]}'))
    if model is not None:
        exp = model_expected(rec)
        if exp is not None and norm(exp) != norm(model) and rec.get('fold_sensitive'):
            out.append(('fold-undetermined', 'fold-undetermined', 'not a violation'))
        elif exp is not None and norm(exp) != norm(model):
            out.append(('model-mismatch', 'model:' + case['rule'] + ':' + short,
                        f'{short!r} params={case.get("params")}: implementation {brief(exp)} but the model of compiler.py gives {brief(model)}'))
    return out


def norm(x):
    return json.loads(json.dumps(x))


def brief(o):
    if o[0] == 1:
        return f'rejects with kind {o[1]}'
    return 'accepts ' + json.dumps(o[1])[:300]


def run(tier, rng, use_model=True):
    cases = build_cases(tier, rng)
    recs = core.pmap(observe, cases)
    models = [None] * len(cases)
    if use_model:
        idx = [i for i, r in enumerate(recs) if r['coq'] is not None and r['phase'] not in ('parse', 'fold-error')]
        res = model_many([recs[i] for i in idx])
        for i, m in zip(idx, res):
            models[i] = m
    locs = [None] * len(cases)
    if use_model:
        lidx = [i for i, r in enumerate(recs) if r['phase'] == 'compile' and r['coq'] is not None and r.get('spans') is not None]
        for i, m in zip(lidx, model_locations([recs[i] for i in lidx])):
            locs[i] = m
    violations, seen = [], {}
    hist = {'stream': {}, 'rule': {}, 'phase': {}, 'class': {}, 'kind': {}, 'tags': {}, 'location': {}}
    compared = 0
    for i_case, (c, r, m) in enumerate(zip(cases, recs, models)):
        hist['stream'][c['stream']] = hist['stream'].get(c['stream'], 0) + 1
        rk = c['rule'].split(':')[0] if c['stream'] == 'overload' else c['rule']
        hist['rule'][rk] = hist['rule'].get(rk, 0) + 1
        pk = f'{c["stream"]}:{r["phase"]}'
        hist['phase'][pk] = hist['phase'].get(pk, 0) + 1
        if r['cls']:
            hist['class'][r['cls']] = hist['class'].get(r['cls'], 0) + 1
        if r['kind'] is not None:
            hist['kind'][str(r['kind'])] = hist['kind'].get(str(r['kind']), 0) + 1
        if m is not None:
            compared += 1
        extra = []
        if locs[i_case] is not None:
            lk = {0: 'accepted', 1: 'none', 2: 'node', 3: 'cooked'}[locs[i_case][0]]
            hist['location'][lk] = hist['location'].get(lk, 0) + 1
            mm = location_mismatch(r, locs[i_case])
            if mm is not None and not (m is not None and model_expected(r) is not None and norm(model_expected(r)) != norm(m)):
                short = c['text'] if len(c['text']) < 160 else c['text'][:157] + '...'
                extra.append(('location-mismatch', 'location:' + c['rule'] + ':' + short,
                              f'{short!r}: {r["cls"]} ({r["msg"]}): {mm}'))
        for kind, sig, summary in judge(c, r, m) + extra:
            if kind == 'fold-undetermined':
                hist.setdefault('fold_undetermined', 0)
                hist['fold_undetermined'] += 1
                continue
            if sig in seen:
                seen[sig][1] += 1
                continue
            seen[sig] = [core.Violation(kind, summary, {'case': c, 'observed': {k: v for k, v in r.items() if k != 'coq'},
                                                       'model': m}, signature=sig), 1]
    violations = [v for v, _ in seen.values()]
    untrans = sum(1 for r in recs if r['untranslatable'])
    cov = {
        'evaluations': len(cases), 'distinct_nontrivial': len({c['text'] for c, r in zip(cases, recs) if r['phase'] != 'parse'}),
        'compared_with_model': compared, 'traces_validated_against_impl': compared,
        'rule': 'stream valid: typed random statements over the live registry (all tables, FROM forms, GROUP/ORDER/PIVOT/HAVING, '
                'subqueries, BALANCES/JOURNAL/PRINT, placeholders); stream mutant: one or more statements per rule of the property '
                'text, ill-formed by construction; stream overload: every operator and function of the live registry x operand '
                'type tuples from 17 probes (unary/binary exhaustive, others sampled); stream corrupt: token/byte corruptions of the '
                'former and arbitrary token strings. distinct_nontrivial = distinct texts that parse. fix-G: stream having-copy '
                '(valid GROUP BY statements whose HAVING repeats a non-aggregate expression the statement already evaluates: target, '
                'grouping key by text/position/name/hidden, a bool expression over it, or one added as target+key), ill-formed by '
                'construction; stream registry histories (fresh process per history: statements calling a function interleaved with '
                'registrations, oracle = simulated registry)',
        'samples': [c['text'] for c in cases[:5]] + [c['text'] for c in cases if c['stream'] == 'corrupt'][:5],
        'histograms': hist, 'untranslatable_asts': untrans,
        'violation_counts': {sig: n for sig, (v, n) in seen.items()},
        'exhaustive': False,
    }
    ar = [c for c in cases if c.get('fname')]
    sib = [c for c in cases if c.get('sibling')]

    def count(items):
        h = {}
        for k in items:
            h[k] = h.get(k, 0) + 1
        return dict(sorted(h.items()))
    cov['arity_stream'] = {
        'statements': len(ar), 'function_names': len({c['fname'] for c in ar}),
        'registered_function_names': len(env()['reg'].functions) + 1,
        'by_argument_count': count(str(c['arity']) for c in ar), 'expected': count(c['expect'] for c in ar),
        'special_names': count(c['fname'] + '/' + str(c['arity']) for c in ar
                               if c['fname'] in c05gen.META_FUNCS + ('coalesce', 'getitem')),
        'samples': [c['text'] for c in ar if c['fname'] in c05gen.META_FUNCS][:4]}
    cov['sibling_column_stream'] = {
        'statements': len(sib), 'family': count(c['rule'].split(':')[0] for c in sib),
        'table_kind': count(c['sibling']['kind'] for c in sib), 'wrap': count(c['rule'].split(':')[2] for c in sib),
        'key_dtype_equals_target_dtype': count(str(c['sibling']['same_dtype']) for c in sib),
        'dtype': count(c['sibling']['dtype'] for c in sib), 'expected': count(c['expect'] for c in sib),
        'samples': [c['text'] for c in sib[:2]] + [c['text'] for c in sib if c['sibling']['kind'] == 'subquery'][:3]}
    hc = [c for c in cases if c.get('having_copy')]
    cov['having_copy_stream'] = {
        'statements': len(hc), 'copy_of': count(c['having_copy']['of'] for c in hc), 'form': count(c['having_copy']['form'] for c in hc),
        'rejected_by_implementation': sum(1 for c, r in zip(cases, recs) if c.get('having_copy') and r['phase'] == 'compile'),
        'error_kind': count(str(r['kind']) for c, r in zip(cases, recs) if c.get('having_copy')),
        'compared_with_model': sum(1 for c, m in zip(cases, models) if c.get('having_copy') and m is not None),
        'samples': [c['text'] for c in hc[:4]]}
    ecov, eviol = run_e2e(tier, rng)
    cov.update(ecov)
    hcov, hviol = run_histories(tier, rng)
    cov.update(hcov)
    cov['evaluations'] += hcov['registry_history_stream']['steps']
    violations.extend(hviol)
    cov['evaluations'] += ecov['e2e_statements']
    cov['traces_validated_against_impl'] += ecov['e2e_compared']
    violations.extend(eviol)
    ccov, cviol = run_concurrent(tier, rng, cases, recs)
    cov.update(ccov)
    cov['evaluations'] += ccov['concurrent_stream']['calls']
    violations.extend(cviol)
    return {'coverage': cov, 'violations': violations}


def replay(rec):
    if 'history' in rec:
        return judge_history(rec['history'], run_history(rec['history'])) is None
    if rec.get('concurrent'):
        # the schedule is the interpreter's: the burst is repeated; every repetition has to agree with the calls alone
        lists = rec['lists']
        alone = [[observe_pc(c) for c in lst] for lst in lists]
        if sum(len(x) for x in lists) == 1:
            return all(norm(observe_pc(lists[0][0])) == norm(alone[0][0]) for _ in range(rec.get('reps', 2)))
        for got in concurrent_pc_round(lists, reps=rec.get('reps', 12)):
            for gl, al in zip(got, alone):
                if gl is None or any(concurrent_difference(g, a) is not None for g, a in zip(gl, al)):
                    return False
        return True
    case = rec['case']
    if rec.get('e2e'):
        r = observe_e2e(case)
        if r['coq'] is None:
            return True
        m = model_e2e([case], [r], tag='c05er')[0]
        return m[0] == 3 or norm(m) == norm(r['result'])
    r = observe(case)
    m = None
    if r['coq'] is not None and r['phase'] not in ('parse', 'fold-error'):
        try:
            m = model_many([r], tag='c05r')[0]
        except Exception:  # noqa: BLE001
            m = None
    return not [j for j in judge(case, r, m) if j[0] != 'fold-undetermined']
