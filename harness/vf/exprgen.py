"""Type-directed generator of BQL expressions over a harness table, producing both the
BQL text and the Gallina [enode] (Model/Eval.v) with the overloads resolved by the
generator itself (independently of the implementation's compiler)."""
import datetime
import decimal

from . import values
from .core import cZ, clist, cbool, copt

D = decimal.Decimal
T_INT, T_DEC, T_STR, T_DATE, T_BOOL = 'int', 'decimal', 'str', 'date', 'bool'
PY = {T_INT: int, T_DEC: D, T_STR: str, T_DATE: datetime.date, T_BOOL: bool}
ALL_TYPES = [T_INT, T_DEC, T_STR, T_DATE, T_BOOL]


class E:
    __slots__ = ('text', 'coq', 'type', 'ops', 'depth', 'cols')

    def __init__(self, text, coq, type_, ops=(), depth=0, cols=()):
        self.text, self.coq, self.type, self.ops, self.depth, self.cols = text, coq, type_, tuple(ops), depth, frozenset(cols)


def mk(text, coq, t, op, *kids):
    ops = [op] if op else []
    cols = set()
    for k in kids:
        ops.extend(k.ops)
        cols |= k.cols
    return E(text, coq, t, ops, 1 + max([k.depth for k in kids] or [0]), cols)


class Gen:
    def __init__(self, rng, cols, max_depth=3, allow_div=True, obj=None, lib=False, unary_chains=0.0):
        self.rng = rng
        self.lib = lib              # opt-in (bld-link): also the C18 library functions Eval.apply_func carries (typed ones)
        # opt-in (fix-E): probability that a bool node is a run of 2-4 directly nested NULL-aware unary operators
        # (NOT / IS NULL / IS NOT NULL, mostly NOT) over a NON-CONSTANT bool operand (bool column, comparison, AND/OR, ...);
        # no extra rng draw when 0, so the streams of the other users of this generator do not move
        self.unary_chains = unary_chains
        self.cols = cols            # [(name, type)]
        self.max_depth = max_depth
        self.bytype = {}
        # untyped (object) columns: name -> (index of the model's shadow column holding decimal(x), index holding date(x));
        # the compiler inserts these casts when the OTHER operand of a binary operator is typed (compiler.py _binaryop)
        self.obj = obj or {}
        for i, (n, t) in enumerate(cols):
            if t != 'object':
                self.bytype.setdefault(t, []).append((i, n))

    def objcol(self, as_type):
        n = self.rng.choice(sorted(self.obj))
        di, ti = self.obj[n]
        return E(n, f'(ECol {di if as_type == T_DEC else ti}%nat)', as_type, ['objcast:' + as_type], 0, [n])

    # -- leaves
    def const(self, t):
        v = self.rng.choice(values.POOLS[PY[t]])
        if t == T_DEC and (v.is_signed() or v < 0):
            v = abs(v)            # literals are non-negative; '-' is an operator
        if t == T_INT and v < 0:
            v = -v
        if t == T_DEC:
            v = D(values.lit(v))   # the value the parser will build from the literal text
        return E(values.lit(v), f'(EConst {values.to_coq(v)})', t, ['const:' + t])

    def col(self, t):
        i, n = self.rng.choice(self.bytype[t])
        return E(n, f'(ECol {i}%nat)', t, ['col:' + t], 0, [n])

    def leaf(self, t):
        if t in self.bytype and self.rng.random() < 0.75:
            return self.col(t)
        return self.const(t)

    def expr(self, t, depth=None):
        depth = self.max_depth if depth is None else depth
        if depth <= 0 or self.rng.random() < 0.25:
            return self.leaf(t)
        return getattr(self, 'gen_' + t)(depth - 1)

    def num(self, depth):
        return self.expr(self.rng.choice([T_INT, T_DEC]), depth)

    def binop(self, sym, tag, a, b, t):
        return mk(f'({a.text} {sym} {b.text})', f'(EBinary {tag} {a.coq} {b.coq})', t, f'{tag}[{a.type},{b.type}]', a, b)

    def func(self, name, tag, args, t):
        return mk(f'{name}({", ".join(a.text for a in args)})', f'(EFunc {tag} {clist([a.coq for a in args])})', t,
                  f'{tag}', *args)

    # -- the C18 library behind Eval.apply_func (only when self.lib): the overloads Model/Typing.v types
    def strconst(self, pool):
        v = self.rng.choice(pool)
        return E(values.lit(v), f'(EConst {values.to_coq(v)})', T_STR, ['const:str'])

    LIB_FIELDS = ['weekday', 'dow', 'isoweekday', 'isodow', 'week', 'month', 'quarter', 'year', 'isoyear', 'decade',
                  'century', 'millennium', 'epoch', 'nope']
    LIB_NUMSTR = ['12', ' -7 ', '1_000', '+3', '1.5', 'x', '', '2020-01-15', '2020-02-30', '2021-1-5', '0012']
    LIB_ACCTS = ['Assets:Cash', 'Assets:Bank:Checking', 'Expenses:Food:Out', 'Income', 'Assets:', '']

    def lib_int(self, d):
        k = self.rng.choice(['year', 'month', 'day', 'date_diff', 'date_part', 'int_str', 'int_bool', 'int_int', 'round1', 'round2'])
        if k in ('year', 'month', 'day'):
            return self.func(k, 'F' + k.capitalize(), [self.expr(T_DATE, d)], T_INT)
        if k == 'date_diff':
            return self.func('date_diff', 'FDateDiff', [self.expr(T_DATE, d), self.expr(T_DATE, d)], T_INT)
        if k == 'date_part':
            return self.func('date_part', 'FDatePart', [self.strconst(self.LIB_FIELDS), self.expr(T_DATE, d)], T_INT)
        if k == 'int_str':
            a = self.strconst(self.LIB_NUMSTR) if self.rng.random() < 0.6 else self.expr(T_STR, d)
            return self.func('int', 'FInt', [a], T_INT)
        if k == 'int_bool':
            return self.func('int', 'FInt', [self.expr(T_BOOL, min(d, 1))], T_INT)
        if k == 'int_int':
            return self.func('int', 'FInt', [self.expr(T_INT, d)], T_INT)
        if k == 'round1':
            return self.func('round', 'FRoundInt1', [self.expr(T_INT, d)], T_INT)
        return self.func('round', 'FRoundInt', [self.expr(T_INT, d), self.small_int()], T_INT)

    def lib_str(self, d):
        k = self.rng.choice(['quarter', 'weekday', 'str', 'str', 'root', 'root1', 'parent', 'leaf'])
        if k in ('quarter', 'weekday'):
            return self.func(k, 'F' + k.capitalize(), [self.expr(T_DATE, d)], T_STR)
        if k == 'str':
            return self.func('str', 'FStr', [self.expr(self.rng.choice(ALL_TYPES), d)], T_STR)
        a = self.strconst(self.LIB_ACCTS) if self.rng.random() < 0.5 else self.expr(T_STR, d)
        if k == 'root':
            return self.func('root', 'FRoot', [a, self.small_int()], T_STR)
        return self.func(k.rstrip('1'), {'root1': 'FRoot1', 'parent': 'FParent', 'leaf': 'FLeaf'}[k], [a], T_STR)

    def lib_date(self, d):
        k = self.rng.choice(['ymd', 'ymd', 'of_str', 'of_date'])
        if k == 'ymd':
            y = self.rng.choice([self.expr(T_INT, d), E('2020', '(EConst (VInt 2020))', T_INT, ['const:int']),
                                 E('2024', '(EConst (VInt 2024))', T_INT, ['const:int'])])
            return self.func('date', 'FDateYmd', [y, self.small_int(), self.expr(T_INT, d)], T_DATE)
        if k == 'of_str':
            a = self.strconst(self.LIB_NUMSTR) if self.rng.random() < 0.5 else self.func('str', 'FStr', [self.expr(T_DATE, d)], T_STR)
            return self.func('date', 'FDate', [a], T_DATE)
        return self.func('date', 'FDate', [self.expr(T_DATE, d)], T_DATE)

    def lib_decimal(self, d):
        if self.rng.random() < 0.5:
            return self.func('decimal', 'FDecimal', [self.expr(T_BOOL, min(d, 1))], T_DEC)
        return self.func('decimal', 'FDecimal', [self.expr(T_DEC, d)], T_DEC)

    # -- per type
    def gen_int(self, d):
        if self.lib and self.rng.random() < 0.3:
            return self.lib_int(d)
        r = self.rng.random()
        if r < 0.45:
            sym, tag = self.rng.choice([('+', 'BAdd'), ('-', 'BSub'), ('*', 'BMul'), ('%', 'BMod')])
            return self.binop(sym, tag, self.expr(T_INT, d), self.expr(T_INT, d), T_INT)
        if r < 0.60:
            a = self.expr(T_INT, d)
            return mk(f'(-{a.text})', f'(EUnary UNeg {a.coq})', T_INT, 'UNeg[int]', a)
        if r < 0.70:
            return self.binop('-', 'BSubDateDate', self.expr(T_DATE, min(d, 1)), self.expr(T_DATE, min(d, 1)), T_INT)
        if r < 0.80:
            return self.func('length', 'FLength', [self.expr(T_STR, d)], T_INT)
        if r < 0.90:
            return self.func('int', 'FIntOfDec', [self.expr(T_DEC, d)], T_INT)
        return self.coalesce(T_INT, d)

    def gen_decimal(self, d):
        if self.lib and self.rng.random() < 0.12:
            return self.lib_decimal(d)
        r = self.rng.random()
        if self.obj and r < 0.25:
            # object OP int|decimal (either side): implicit cast of the untyped side to decimal, result decimal
            sym, tag = self.rng.choice([('+', 'BAdd'), ('-', 'BSub'), ('*', 'BMul'), ('/', 'BDiv'), ('%', 'BMod')])
            o = self.objcol(T_DEC)
            other = self.expr(self.rng.choice([T_INT, T_DEC]), d)
            a, b = (o, other) if self.rng.random() < 0.5 else (other, o)
            return mk(f'({a.text} {sym} {b.text})', f'(EBinary {tag} {a.coq} {b.coq})', T_DEC, f'{tag}[object-cast]', a, b)
        if r < 0.40:
            sym, tag = self.rng.choice([('+', 'BAdd'), ('-', 'BSub'), ('*', 'BMul'), ('%', 'BMod')])
            ta, tb = self.rng.choice([(T_DEC, T_DEC), (T_DEC, T_INT), (T_INT, T_DEC)])
            return self.binop(sym, tag, self.expr(ta, d), self.expr(tb, d), T_DEC)
        if r < 0.60:
            ta, tb = self.rng.choice([(T_DEC, T_DEC), (T_DEC, T_INT), (T_INT, T_DEC), (T_INT, T_INT)])
            tag = 'BDivInt' if (ta, tb) == (T_INT, T_INT) else 'BDiv'
            return self.binop('/', tag, self.expr(ta, d), self.expr(tb, d), T_DEC)
        if r < 0.68:
            a = self.expr(T_DEC, d)
            return mk(f'(-{a.text})', f'(EUnary UNeg {a.coq})', T_DEC, 'UNeg[decimal]', a)
        if r < 0.76:
            name, tag = self.rng.choice([('abs', 'FAbs'), ('neg', 'FNeg')])
            return self.func(name, tag, [self.expr(T_DEC, d)], T_DEC)
        if r < 0.84:
            return self.func('safediv', 'FSafediv', [self.expr(T_DEC, d), self.num(d)], T_DEC)
        if r < 0.92:
            return self.func('decimal', 'FDecOfInt', [self.expr(T_INT, d)], T_DEC)
        return self.coalesce(T_DEC, d)

    def gen_str(self, d):
        if self.lib and self.rng.random() < 0.4:
            return self.lib_str(d)
        r = self.rng.random()
        if r < 0.5:
            name, tag = self.rng.choice([('upper', 'FUpper'), ('lower', 'FLower')])
            return self.func(name, tag, [self.expr(T_STR, d)], T_STR)
        if r < 0.8:
            return self.func('substr', 'FSubstr', [self.expr(T_STR, d), self.small_int(), self.small_int()], T_STR)
        return self.coalesce(T_STR, d)

    def small_int(self):
        if T_INT in self.bytype and self.rng.random() < 0.5:
            return self.col(T_INT)
        v = self.rng.choice([0, 1, 2, 3, 5])
        if self.rng.random() < 0.3:
            return E(f'(-{v})', f'(EConst (VInt {cZ(-v)}))', T_INT, ['const:int'])
        return E(str(v), f'(EConst (VInt {v}))', T_INT, ['const:int'])

    def gen_date(self, d):
        if self.lib and self.rng.random() < 0.3:
            return self.lib_date(d)
        r = self.rng.random()
        n = self.small_int()
        if r < 0.35:
            return self.binop('+', 'BAddDateInt', self.expr(T_DATE, d), n, T_DATE)
        if r < 0.6:
            return self.binop('+', 'BAddIntDate', n, self.expr(T_DATE, d), T_DATE)
        if r < 0.85:
            return self.binop('-', 'BSubDateInt', self.expr(T_DATE, d), n, T_DATE)
        return self.coalesce(T_DATE, d)

    def coalesce(self, t, d):
        args = [self.expr(t, d) for _ in range(self.rng.randint(1, 3))]
        return mk(f'coalesce({", ".join(a.text for a in args)})', f'(ECoalesce {clist([a.coq for a in args])})', t,
                  'ECoalesce', *args)

    def cmp_pair(self, d):
        k = self.rng.random()
        if k < 0.5:
            return self.num(d), self.num(d)
        if k < 0.75:
            return self.expr(T_STR, d), self.expr(T_STR, d)
        return self.expr(T_DATE, d), self.expr(T_DATE, d)

    def unary_chain(self, d, length=None, base=None):
        """A run of directly nested NULL-aware unary operators over a non-constant bool-typed operand: NOT NOT x, NOT (NOT (NOT x)),
        NOT ((NOT x) IS NULL), ... - every operator of the run maps NULL to a non-NULL value, so no two of them cancel."""
        if base is None:
            k = self.rng.random()
            if T_BOOL in self.bytype and k < 0.4:
                base = self.col(T_BOOL)
            else:
                p, self.unary_chains = self.unary_chains, 0.0     # no run inside the operand of a run: the nesting stays bounded
                try:
                    for _ in range(6):
                        base = self.gen_bool(max(d, 1) - 1)
                        if base.cols:
                            break
                finally:
                    self.unary_chains = p
        e = base
        n = length or self.rng.choice([2, 2, 2, 3, 3, 4])
        for i in range(n):
            k = self.rng.random()
            if k < 0.8:
                # `NOT NOT x` (no parentheses between the operators) and `NOT (NOT x)` are both spelled
                txt = f'NOT {e.text[1:-1]}' if (e.text.startswith('(NOT ') and self.rng.random() < 0.5) else f'NOT {e.text}'
                e = mk(f'({txt})', f'(EUnary UNot {e.coq})', T_BOOL, f'UNot[{e.type}]', e)
            else:
                kind, tag = ('IS NULL', 'UIsNull') if k < 0.9 else ('IS NOT NULL', 'UIsNotNull')
                e = mk(f'({e.text} {kind})', f'(EUnary {tag} {e.coq})', T_BOOL, tag, e)
        return E(e.text, e.coq, e.type, list(e.ops) + [f'unary-chain/{n}'], e.depth, e.cols)

    def gen_bool(self, d):
        if self.unary_chains and self.rng.random() < self.unary_chains:
            return self.unary_chain(d)
        r = self.rng.random()
        if self.obj and r < 0.12:
            sym, tag = self.rng.choice([('=', 'BEq'), ('!=', 'BNe'), ('<', 'BLt'), ('<=', 'BLe'), ('>', 'BGt'), ('>=', 'BGe')])
            if self.rng.random() < 0.75:
                o, other = self.objcol(T_DEC), self.expr(self.rng.choice([T_INT, T_DEC]), d)
            else:
                o, other = self.objcol(T_DATE), self.expr(T_DATE, d)
            a, b = (o, other) if self.rng.random() < 0.5 else (other, o)
            return mk(f'({a.text} {sym} {b.text})', f'(EBinary {tag} {a.coq} {b.coq})', T_BOOL, f'{tag}[object-cast]', a, b)
        if r < 0.30:
            sym, tag = self.rng.choice([('=', 'BEq'), ('!=', 'BNe'), ('<', 'BLt'), ('<=', 'BLe'), ('>', 'BGt'), ('>=', 'BGe')])
            a, b = self.cmp_pair(d)
            return self.binop(sym, tag, a, b, T_BOOL)
        if r < 0.38:
            sym, tag = self.rng.choice([('~', 'BMatch'), ('!~', 'BNotMatch')])
            a = self.expr(T_STR, d)
            p = self.rng.choice(['a', 'A', 'b', 'ab', 'Cash', 'z', 'ASSETS'])
            pe = E(f"'{p}'", f'(EConst {values.to_coq(p)})', T_STR, ['const:str'])
            return self.binop(sym, tag, a, pe, T_BOOL)
        if r < 0.48:
            a = self.expr(self.rng.choice(ALL_TYPES), d)
            kind = self.rng.choice(['IS NULL', 'IS NOT NULL'])
            tag = 'UIsNull' if kind == 'IS NULL' else 'UIsNotNull'
            return mk(f'({a.text} {kind})', f'(EUnary {tag} {a.coq})', T_BOOL, tag, a)
        if r < 0.56:
            a = self.expr(self.rng.choice([T_BOOL, T_BOOL, T_INT, T_STR, T_DEC]), d)
            return mk(f'(NOT {a.text})', f'(EUnary UNot {a.coq})', T_BOOL, f'UNot[{a.type}]', a)
        if r < 0.74:
            kw, tag = self.rng.choice([('AND', 'EAnd'), ('OR', 'EOr')])
            n = self.rng.randint(2, 4)
            args = [self.expr(self.rng.choice([T_BOOL, T_BOOL, T_BOOL, T_INT, T_STR]), d) for _ in range(n)]
            return mk('(' + f' {kw} '.join(a.text for a in args) + ')', f'({tag} {clist([a.coq for a in args])})', T_BOOL,
                      f'{tag}/{n}', *args)
        if r < 0.82:
            k = self.rng.choice(['num', 'str', 'date'])
            if k == 'num':
                a, lo, hi = self.num(d), self.num(d), self.num(d)
            else:
                t = T_STR if k == 'str' else T_DATE
                a, lo, hi = self.expr(t, d), self.expr(t, d), self.expr(t, d)
            return mk(f'({a.text} BETWEEN {lo.text} AND {hi.text})', f'(EBetween {a.coq} {lo.coq} {hi.coq})', T_BOOL,
                      f'EBetween[{a.type},{lo.type},{hi.type}]', a, lo, hi)
        if r < 0.92:
            t = self.rng.choice([T_INT, T_DEC, T_STR, T_DATE])
            a = self.expr(t, d)
            items = [self.rng.choice(values.POOLS[PY[t]]) for _ in range(self.rng.randint(2, 4))]
            items = [abs(v) if t in (T_INT, T_DEC) else v for v in items]
            items = [D(values.lit(v)) if t == T_DEC else v for v in items]
            neg = self.rng.random() < 0.4
            txt = f'({a.text} {"NOT IN" if neg else "IN"} ({", ".join(values.lit(v) for v in items)}))'
            return mk(txt, f'(EIn {cbool(neg)} {a.coq} (Some {clist([values.to_coq(v) for v in items])}))', T_BOOL,
                      'EIn' + ('/not' if neg else ''), a)
        if r < 0.96:
            a = self.expr(self.rng.choice(ALL_TYPES), d)
            return self.func('bool', 'FBool', [a], T_BOOL)
        return self.coalesce(T_BOOL, d)
