#!/usr/bin/env python3
"""Regenerates MANIFEST.json from the table below (kept in one place so it is always valid)."""
import json
import os

HERE = os.path.dirname(os.path.dirname(os.path.abspath(__file__)))

def load_checks():
    d = os.path.join(HERE, 'harness', 'meta')
    out = {}
    for f in sorted(os.listdir(d)):
        if f.endswith('.json'):
            with open(os.path.join(d, f)) as fh:
                out[f[:-5]] = json.load(fh)
    return out


CHECKS = load_checks()

NOT_YET = {}


def main():
    ids = [f'C{i:02d}' for i in range(1, 21)]
    checks = []
    for pid in ids:
        if pid not in CHECKS:
            continue
        c = CHECKS[pid]
        checks.append({
            'property_id': pid,
            'quick_cmd': f'./check {pid} quick',
            'thorough_cmd': f'./check {pid} thorough',
            'evidence_file': f'/verif/evidence/{pid}.json',
            'replay_cmd_template': f'./check {pid} --replay {{path}}',
            'engine': 'rocq-model',
            'level_claimed': {'category': 'proof', 'text': c['text'], 'design_ref': c['ref']},
            'level_note': c['note'],
            'technique': c['technique'],
        })
    man = {
        'version': 1,
        'setup_cmd': 'cd /verif && ./setup.sh',
        'hooks': {
            'guard': 'BEANQUERY_VERIF',
            'enable': 'no hooks are compiled into /repo: the harness imports beanquery from the working tree and uses public '
                      'extension points only (Connection.tables, query_env.function)',
            'baseline_off_cmd': 'cd /repo && /venv/bin/python -m pytest -ra -q -p no:cacheprovider --timeout=900 '
                                '--continue-on-collection-errors',
            'source_commits': [],
            'add_only': True,
        },
        'engines': [{
            'name': 'rocq-model', 'path': '/verif/coq',
            'serves_properties': [c['property_id'] for c in checks],
            'kind_free_text': 'Coq 8.16.1 development (hand-written executable Gallina model, theorems per property, '
                              'generated data files re-derived from the imported code) + Python correspondence harness '
                              '(/verif/harness) evaluating the model with vm_compute',
        }],
        'checks': checks,
        'not_applicable': [{'property_id': pid, 'reason': NOT_YET.get(pid, 'check not built yet (work in progress; see DESIGN.md section 8)')}
                           for pid in ids if pid not in CHECKS],
        'notes': 'Every check: regenerates coq/Gen/*.v from the imported code, runs a full make of /verif/coq, re-checks '
                 'Properties/<id>.v with Print Assumptions, then runs the model/implementation correspondence. '
                 'known-findings.txt lists recorded genuine defects.',
    }
    with open(os.path.join(HERE, 'MANIFEST.json'), 'w') as f:
        json.dump(man, f, indent=1)
        f.write('\n')


if __name__ == '__main__':
    main()
