(* C02 Aggregation: groups partition rows, aggregates fold each group, HAVING filters.
   Statements only; proofs in Proofs/AggProofs.v. *)
From Coq Require Import ZArith List Bool.
Import ListNotations.
From Verif Require Import Base.PyValue Base.Decimal Model.Eval Model.Order Model.Exec Proofs.AggProofs.
Open Scope Z_scope.

(* The executor's insertion-ordered aggregate store (find-or-create the key's
   slots, update every aggregate in place) equals: the distinct keys of the
   selected rows in order of first appearance (under Python ==, NULL an ordinary
   key), each with the fold of every aggregate over the rows of its class in
   source order. *)
Theorem C02_store_is_partition_fold : forall (q : query) (g : list nat) (table : list row),
  scan_agg q g [] table = spec_store q g (filter (Exec.passes q) table).
Proof. exact scan_agg_spec. Qed.
Print Assumptions C02_store_is_partition_fold.

(* Exactly one output row per group that passes HAVING, in order of first
   appearance; grouped cells come from the key, aggregate cells from the folds. *)
Theorem C02_partition_fold : forall (q : query) (g : list nat) (table : list row),
  q_group q = Some g ->
  let sel := filter (Exec.passes q) table in
  let ctx := last table [] in
  let vals k := out_values g ctx (slots_of q g sel k) 0 (q_targets q) k in
  exec_rows q table = map vals (filter (fun k => having_ok q (vals k)) (group_keys q g sel)).
Proof. exact exec_rows_agg. Qed.
Print Assumptions C02_partition_fold.

Theorem C02_keys_distinct : forall q g sel,
  ForallOrdPairs (fun a b => row_eq a b = false) (group_keys q g sel).
Proof. exact group_keys_distinct. Qed.
Print Assumptions C02_keys_distinct.

Theorem C02_keys_first_appearance : forall q g sel r,
  group_keys q g (sel ++ [r]) =
  group_keys q g sel ++ (if existsb (row_eq (group_key q g r)) (map (group_key q g) sel) then [] else [group_key q g r]).
Proof. exact group_keys_first_appearance. Qed.
Print Assumptions C02_keys_first_appearance.

(* the classes partition the selected rows: every row is in exactly one group ... *)
Theorem C02_exactly_one_group : forall q g sel r, In r sel ->
  length (filter (fun k => row_eq k (group_key q g r)) (group_keys q g sel)) = 1%nat.
Proof. exact exactly_one_group. Qed.
Print Assumptions C02_exactly_one_group.

(* ... hence group-wise counts add up to the ungrouped total *)
Theorem C02_count_additive : forall q g sel,
  list_sum (map (fun k => length (members q g sel k)) (group_keys q g sel)) = length sel.
Proof. exact group_sizes_add_up. Qed.
Print Assumptions C02_count_additive.

(* ... and so do group-wise integer sums (any integer weight of the rows, in fact) *)
Theorem C02_weights_additive : forall q g (w : row -> Z) sel,
  zsum (map (fun k => wsum w (members q g sel k)) (group_keys q g sel)) = wsum w sel.
Proof. exact weights_add_up. Qed.
Print Assumptions C02_weights_additive.
Theorem C02_sum_int : forall e rows, int_or_null e rows ->
  fold_agg {| afun := ASum (VInt 0); aarg := e |} rows = VInt (wsum (int_weight e) rows).
Proof. exact sum_int_spec. Qed.
Print Assumptions C02_sum_int.
Theorem C02_sum_int_additive : forall q g e sel,
  zsum (map (fun k => wsum (int_weight e) (members q g sel k)) (group_keys q g sel)) = wsum (int_weight e) sel.
Proof. exact sum_int_additive. Qed.
Print Assumptions C02_sum_int_additive.

(* what each aggregate function folds to *)
Theorem C02_count_star : forall e rows, fold_agg {| afun := ACountStar; aarg := e |} rows = VInt (Z.of_nat (length rows)).
Proof. exact count_star_spec. Qed.
Print Assumptions C02_count_star.
Theorem C02_count : forall e rows,
  fold_agg {| afun := ACount; aarg := e |} rows
  = VInt (Z.of_nat (length (non_null (arg_values {| afun := ACount; aarg := e |} rows)))).
Proof. exact count_spec. Qed.
Print Assumptions C02_count.
Theorem C02_sum : forall z e rows,
  fold_agg {| afun := ASum z; aarg := e |} rows
  = fold_left (bin BAdd) (non_null (arg_values {| afun := ASum z; aarg := e |} rows)) z.
Proof. exact sum_spec. Qed.
Print Assumptions C02_sum.
Theorem C02_first : forall e rows,
  fold_agg {| afun := AFirst; aarg := e |} rows
  = match non_null (arg_values {| afun := AFirst; aarg := e |} rows) with [] => VNull | v :: _ => v end.
Proof. exact first_spec. Qed.
Print Assumptions C02_first.
Theorem C02_last : forall e rows,
  fold_agg {| afun := ALast; aarg := e |} rows = last (arg_values {| afun := ALast; aarg := e |} rows) VNull.
Proof. exact last_spec. Qed.
Print Assumptions C02_last.
Theorem C02_min : forall e rows,
  let vs := non_null (arg_values (amin e) rows) in
  (vs = [] -> fold_agg (amin e) rows = VNull) /\
  (vs <> [] -> In (fold_agg (amin e) rows) vs /\ Forall (fun v => val_le (fold_agg (amin e) rows) v = true) vs).
Proof. exact min_spec. Qed.
Print Assumptions C02_min.
Theorem C02_max : forall e rows,
  let vs := non_null (arg_values (amax e) rows) in
  (vs = [] -> fold_agg (amax e) rows = VNull) /\
  (vs <> [] -> In (fold_agg (amax e) rows) vs /\ Forall (fun v => val_le v (fold_agg (amax e) rows) = true) vs).
Proof. exact max_spec. Qed.
Print Assumptions C02_max.

Theorem C02_having_filters : forall q g ctx s,
  finalize q g ctx s =
  map (fun ks => out_values g ctx (snd ks) 0 (q_targets q) (fst ks))
      (filter (fun ks => having_ok q (out_values g ctx (snd ks) 0 (q_targets q) (fst ks))) s).
Proof. exact finalize_spec. Qed.
Print Assumptions C02_having_filters.

Theorem C02_empty_selection : forall q g table,
  filter (Exec.passes q) table = [] -> scan_agg q g [] table = [].
Proof. exact empty_selection. Qed.
Print Assumptions C02_empty_selection.

(* non-vacuity: SELECT a, count( * ), sum(b) GROUP BY a HAVING count( * ) > 1 over interleaved keys incl. NULL and 1 == 1.0 *)
Example C02_example :
  exec_rows {| q_where := None;
               q_targets := [ECol 0; EAgg 0; EAgg 1; EBinary BGt (EAgg 0) (EConst (VInt 1))];
               q_group := Some [0%nat];
               q_aggs := [{| afun := ACountStar; aarg := EConst VNull |}; {| afun := ASum (VInt 0); aarg := ECol 1 |}];
               q_having := Some 3%nat; q_order := None; q_vis := [0%nat; 1%nat; 2%nat];
               q_distinct := false; q_limit := None |}
            [[VInt 1; VInt 10]; [VNull; VInt 1]; [VInt 2; VInt 5]; [VDec (mkdec false 10 (-1)); VNull]; [VNull; VInt 2]]
  = [[VInt 1; VInt 2; VInt 10; VBool true]; [VNull; VInt 2; VInt 3; VBool true]].
Proof. reflexivity. Qed.
