(* C02 Aggregation: groups partition rows, aggregates fold each group, HAVING filters.
   Statements only; proofs in Proofs/AggProofs.v. *)
From Coq Require Import ZArith List Bool.
Import ListNotations.
From Verif Require Import Base.PyValue Base.Decimal Model.Eval Model.Order Model.Exec Proofs.AggProofs.
Open Scope Z_scope.

(* The executor's insertion-ordered aggregate store (find-or-create the key's
   slots, update every aggregate in place) equals: the distinct keys of the
   selected rows in order of first appearance (under Python ==, NULL an ordinary
   key), each with the fold of every aggregate over the rows of its class in
   source order. *)
Theorem C02_store_is_partition_fold : forall (q : query) (g : list nat) (table : list row),
  scan_agg q g [] table = spec_store q g (filter (Exec.passes q) table).
Proof. exact scan_agg_spec. Qed.
Print Assumptions C02_store_is_partition_fold.

(* Exactly one output row per group that passes HAVING, in order of first
   appearance; grouped cells come from the key, aggregate cells from the folds. *)
Theorem C02_partition_fold : forall (q : query) (g : list nat) (table : list row),
  q_group q = Some g ->
  let sel := filter (Exec.passes q) table in
  let ctx := last table [] in
  let vals k := out_values g ctx (slots_of q g sel k) 0 (q_targets q) k in
  exec_rows q table = map vals (filter (fun k => having_ok q (vals k)) (group_keys q g sel)).
Proof. exact exec_rows_agg. Qed.
Print Assumptions C02_partition_fold.

Theorem C02_keys_distinct : forall q g sel,
  ForallOrdPairs (fun a b => row_eq a b = false) (group_keys q g sel).
Proof. exact group_keys_distinct. Qed.
Print Assumptions C02_keys_distinct.

Theorem C02_keys_first_appearance : forall q g sel r,
  group_keys q g (sel ++ [r]) =
  group_keys q g sel ++ (if existsb (row_eq (group_key q g r)) (map (group_key q g) sel) then [] else [group_key q g r]).
Proof. exact group_keys_first_appearance. Qed.
Print Assumptions C02_keys_first_appearance.

(* the classes partition the selected rows: every row is in exactly one group ... *)
Theorem C02_exactly_one_group : forall q g sel r, In r sel ->
  length (filter (fun k => row_eq k (group_key q g r)) (group_keys q g sel)) = 1%nat.
Proof. exact exactly_one_group. Qed.
Print Assumptions C02_exactly_one_group.

(* ... hence group-wise counts add up to the ungrouped total *)
Theorem C02_count_additive : forall q g sel,
  list_sum (map (fun k => length (members q g sel k)) (group_keys q g sel)) = length sel.
Proof. exact group_sizes_add_up. Qed.
Print Assumptions C02_count_additive.

(* ... and so do group-wise integer sums (any integer weight of the rows, in fact) *)
Theorem C02_weights_additive : forall q g (w : row -> Z) sel,
  zsum (map (fun k => wsum w (members q g sel k)) (group_keys q g sel)) = wsum w sel.
Proof. exact weights_add_up. Qed.
Print Assumptions C02_weights_additive.
Theorem C02_sum_int : forall e rows, int_or_null e rows ->
  fold_agg {| afun := ASum (VInt 0); aarg := e |} rows = VInt (wsum (int_weight e) rows).
Proof. exact sum_int_spec. Qed.
Print Assumptions C02_sum_int.
Theorem C02_sum_int_additive : forall q g e sel,
  zsum (map (fun k => wsum (int_weight e) (members q g sel k)) (group_keys q g sel)) = wsum (int_weight e) sel.
Proof. exact sum_int_additive. Qed.
Print Assumptions C02_sum_int_additive.

(* what each aggregate function folds to *)
Theorem C02_count_star : forall e rows, fold_agg {| afun := ACountStar; aarg := e |} rows = VInt (Z.of_nat (length rows)).
Proof. exact count_star_spec. Qed.
Print Assumptions C02_count_star.
Theorem C02_count : forall e rows,
  fold_agg {| afun := ACount; aarg := e |} rows
  = VInt (Z.of_nat (length (non_null (arg_values {| afun := ACount; aarg := e |} rows)))).
Proof. exact count_spec. Qed.
Print Assumptions C02_count.
Theorem C02_sum : forall z e rows,
  fold_agg {| afun := ASum z; aarg := e |} rows
  = fold_left (bin BAdd) (non_null (arg_values {| afun := ASum z; aarg := e |} rows)) z.
Proof. exact sum_spec. Qed.
Print Assumptions C02_sum.
Theorem C02_first : forall e rows,
  fold_agg {| afun := AFirst; aarg := e |} rows
  = match non_null (arg_values {| afun := AFirst; aarg := e |} rows) with [] => VNull | v :: _ => v end.
Proof. exact first_spec. Qed.
Print Assumptions C02_first.
Theorem C02_last : forall e rows,
  fold_agg {| afun := ALast; aarg := e |} rows = last (arg_values {| afun := ALast; aarg := e |} rows) VNull.
Proof. exact last_spec. Qed.
Print Assumptions C02_last.
Theorem C02_min : forall e rows,
  let vs := non_null (arg_values (amin e) rows) in
  (vs = [] -> fold_agg (amin e) rows = VNull) /\
  (vs <> [] -> In (fold_agg (amin e) rows) vs /\ Forall (fun v => val_le (fold_agg (amin e) rows) v = true) vs).
Proof. exact min_spec. Qed.
Print Assumptions C02_min.
Theorem C02_max : forall e rows,
  let vs := non_null (arg_values (amax e) rows) in
  (vs = [] -> fold_agg (amax e) rows = VNull) /\
  (vs <> [] -> In (fold_agg (amax e) rows) vs /\ Forall (fun v => val_le v (fold_agg (amax e) rows) = true) vs).
Proof. exact max_spec. Qed.
Print Assumptions C02_max.

Theorem C02_having_filters : forall q g ctx s,
  finalize q g ctx s =
  map (fun ks => out_values g ctx (snd ks) 0 (q_targets q) (fst ks))
      (filter (fun ks => having_ok q (out_values g ctx (snd ks) 0 (q_targets q) (fst ks))) s).
Proof. exact finalize_spec. Qed.
Print Assumptions C02_having_filters.

Theorem C02_empty_selection : forall q g table,
  filter (Exec.passes q) table = [] -> scan_agg q g [] table = [].
Proof. exact empty_selection. Qed.
Print Assumptions C02_empty_selection.

(* non-vacuity: SELECT a, count( * ), sum(b) GROUP BY a HAVING count( * ) > 1 over interleaved keys incl. NULL and 1 == 1.0 *)
Example C02_example :
  exec_rows {| q_where := None;
               q_targets := [ECol 0; EAgg 0; EAgg 1; EBinary BGt (EAgg 0) (EConst (VInt 1))];
               q_group := Some [0%nat];
               q_aggs := [{| afun := ACountStar; aarg := EConst VNull |}; {| afun := ASum (VInt 0); aarg := ECol 1 |}];
               q_having := Some 3%nat; q_order := None; q_vis := [0%nat; 1%nat; 2%nat];
               q_distinct := false; q_limit := None |}
            [[VInt 1; VInt 10]; [VNull; VInt 1]; [VInt 2; VInt 5]; [VDec (mkdec false 10 (-1)); VNull]; [VNull; VInt 2]]
  = [[VInt 1; VInt 2; VInt 10; VBool true]; [VNull; VInt 2; VInt 3; VBool true]].
Proof. reflexivity. Qed.

(* ------------------------------------------------------------------ tie by translation (group `agg`)
   Gen/SrcAgg.v is regenerated on every run from the SOURCE of query_execute.Allocator, of the aggregator classes of
   query_env.py (allocate / initialize / update / finalize, resolved through the MRO of the live classes) and of the
   aggregated branch of query_execute.execute_select (harness/vf/src_agg.py: selection by structure, desugaring rules
   A1-A9); the theorems below are about those generated terms.  Objects and library calls are given meaning in
   Model/PrimsAgg.v; compiled expressions (operands, WHERE, grouping targets) are opaque callables whose value is not
   an exception, as in C01_source_*. *)
From Coq Require Import String.
From Verif Require Import Model.PyMini Model.PrimsAgg Gen.SrcAgg Proofs.PyMiniLemmas Proofs.SrcAgg.
Open Scope string_scope.
Import ListNotations.

Definition c02_p1 call_ref := prims1 call_ref alloc_init alloc_allocate alloc_create_store.
Definition c02_p2 call_ref := prims2 call_ref alloc_init alloc_allocate alloc_create_store classes.

(* the class table the other theorems index into is the one generated from query_compile.FUNCTIONS *)
Theorem C02_source_classes :
  map (fun x => fst (fst (fst x))) agg_classes =
  ["beanquery.query_env.Count"; "beanquery.query_env.CountArg"; "beanquery.query_env.SumInt";
   "beanquery.query_env.SumDecimal"; "beanquery.query_env.First"; "beanquery.query_env.Last";
   "beanquery.query_env.Min"; "beanquery.query_env.Max"].
Proof. exact agg_class_names. Qed.
Print Assumptions C02_source_classes.

(* Allocator: handles are 0, 1, 2, ..; a new store has one None slot per allocated handle *)
Theorem C02_source_allocator : forall call_ref (k : Z) (m : nat),
  c02_p2 call_ref "new:beanquery.query_execute.Allocator" [] = Ok (alloc_pv (PInt 0)) /\
  c02_p2 call_ref "method:allocate" [alloc_pv (PInt k)] = Ok (PTuple [alloc_pv (PInt (k + 1)); PInt k]) /\
  c02_p2 call_ref "call:create_store" [alloc_pv (PInt (Z.of_nat m))] = Ok (PList (map PV (repeat VNull m))).
Proof.
  intros call_ref k m. exact (conj (new_allocator call_ref) (conj (alloc_allocate_src call_ref k) (alloc_create_store_src call_ref m))).
Qed.
Print Assumptions C02_source_allocator.

(* (1) initialize: EvalAggregator.initialize (count, sum) stores self.dtype() in the node's slot and clears the parked
   value; First/Last/Min/Max.initialize store None *)
Theorem C02_source_initialize_default : forall call_ref (i kd : nat) (o v : pv) (slots : list value) (z : value),
  (i < List.length slots)%nat -> call_ref kd [] = PV z -> is_err z = false ->
  call_method call_ref (c02_p1 call_ref) aggm_EvalAggregator_initialize (aflds i kd o v) [PList (map PV slots)] =
  Ok (aflds i kd o PNone, PList (map PV (set_nth i z slots))).
Proof. exact initialize_default_src. Qed.
Print Assumptions C02_source_initialize_default.

Theorem C02_source_initialize_none : forall call_ref (f : fdef) (i kd : nat) (o v : pv) (slots : list value),
  f = aggm_First_initialize \/ f = aggm_Last_initialize \/ f = aggm_Min_initialize \/ f = aggm_Max_initialize ->
  (i < List.length slots)%nat ->
  call_method call_ref (c02_p1 call_ref) f (aflds i kd o v) [PList (map PV slots)] =
  Ok (aflds i kd o v, PList (map PV (set_nth i VNull slots))).
Proof. exact initialize_none_src. Qed.
Print Assumptions C02_source_initialize_none.

(* (1) update: the translated update method of each class replaces the node's slot by Exec.agg_update *)
Theorem C02_source_update_count : forall call_ref ctx_of (i kd : nat) (o v : pv) (slots : list value) (r : row) (e : enode),
  (i < List.length slots)%nat ->
  call_method call_ref (c02_p1 call_ref) aggm_Count_update (aflds i kd o v) [PList (map PV slots); ctx_of r] =
  upd_result i kd o v slots (agg_update {| afun := ACountStar; aarg := e |} r (nth i slots VNull)).
Proof. exact update_count_src. Qed.
Print Assumptions C02_source_update_count.

Theorem C02_source_update_countarg : forall call_ref ctx_of (i kd : nat) (o v : pv) (slots : list value) (r : row) (e : enode),
  (i < List.length slots)%nat -> operand_on call_ref ctx_of r o e ->
  call_method call_ref (c02_p1 call_ref) aggm_CountArg_update (aflds i kd o v) [PList (map PV slots); ctx_of r] =
  upd_result i kd o v slots (agg_update {| afun := ACount; aarg := e |} r (nth i slots VNull)).
Proof. exact update_countarg_src. Qed.
Print Assumptions C02_source_update_countarg.

Theorem C02_source_update_sum : forall call_ref ctx_of (f : fdef) (i kd : nat) (o v : pv) (slots : list value) (r : row)
    (e : enode) (z : value),
  f = aggm_SumInt_update \/ f = aggm_SumDecimal_update ->
  (i < List.length slots)%nat -> operand_on call_ref ctx_of r o e ->
  call_method call_ref (c02_p1 call_ref) f (aflds i kd o v) [PList (map PV slots); ctx_of r] =
  upd_result i kd o v slots (agg_update {| afun := ASum z; aarg := e |} r (nth i slots VNull)).
Proof. exact update_sum_src. Qed.
Print Assumptions C02_source_update_sum.

Theorem C02_source_update_first : forall call_ref ctx_of (i kd : nat) (o v : pv) (slots : list value) (r : row) (e : enode),
  (i < List.length slots)%nat -> operand_on call_ref ctx_of r o e ->
  call_method call_ref (c02_p1 call_ref) aggm_First_update (aflds i kd o v) [PList (map PV slots); ctx_of r] =
  upd_result i kd o v slots (agg_update {| afun := AFirst; aarg := e |} r (nth i slots VNull)).
Proof. exact update_first_src. Qed.
Print Assumptions C02_source_update_first.

Theorem C02_source_update_last : forall call_ref ctx_of (i kd : nat) (o v : pv) (slots : list value) (r : row) (e : enode),
  (i < List.length slots)%nat -> operand_on call_ref ctx_of r o e ->
  call_method call_ref (c02_p1 call_ref) aggm_Last_update (aflds i kd o v) [PList (map PV slots); ctx_of r] =
  upd_result i kd o v slots (agg_update {| afun := ALast; aarg := e |} r (nth i slots VNull)).
Proof. exact update_last_src. Qed.
Print Assumptions C02_source_update_last.

Theorem C02_source_update_min : forall call_ref ctx_of (i kd : nat) (o v : pv) (slots : list value) (r : row) (e : enode),
  (i < List.length slots)%nat -> operand_on call_ref ctx_of r o e ->
  comparable (Eval.eval r [] e) (nth i slots VNull) ->
  call_method call_ref (c02_p1 call_ref) aggm_Min_update (aflds i kd o v) [PList (map PV slots); ctx_of r] =
  upd_result i kd o v slots (agg_update {| afun := AMin; aarg := e |} r (nth i slots VNull)).
Proof. exact update_min_src. Qed.
Print Assumptions C02_source_update_min.

Theorem C02_source_update_max : forall call_ref ctx_of (i kd : nat) (o v : pv) (slots : list value) (r : row) (e : enode),
  (i < List.length slots)%nat -> operand_on call_ref ctx_of r o e ->
  comparable (Eval.eval r [] e) (nth i slots VNull) ->
  call_method call_ref (c02_p1 call_ref) aggm_Max_update (aflds i kd o v) [PList (map PV slots); ctx_of r] =
  upd_result i kd o v slots (agg_update {| afun := AMax; aarg := e |} r (nth i slots VNull)).
Proof. exact update_max_src. Qed.
Print Assumptions C02_source_update_max.

(* (1) finalize parks store[handle] on the node; __call__ returns what is parked (Eval's EAgg h = nth h slots) *)
Theorem C02_source_finalize_call : forall call_ref (i kd : nat) (o v ctx : pv) (slots : list value),
  (i < List.length slots)%nat ->
  call_method call_ref (c02_p1 call_ref) aggm_EvalAggregator_finalize (aflds i kd o v) [PList (map PV slots)] =
    Ok (aflds i kd o (PV (nth i slots VNull)), PList (map PV slots)) /\
  call_method call_ref (c02_p1 call_ref) aggm_EvalAggregator_call (aflds i kd o (PV (nth i slots VNull))) [ctx] =
    Ok (aflds i kd o (PV (nth i slots VNull)), PV (Eval.eval [] slots (EAgg i))).
Proof. exact finalize_call_src. Qed.
Print Assumptions C02_source_finalize_call.

(* (3) the scan loop of the aggregated branch (`context = None; aggregates = defaultdict(create);
   for context in query.table: if c_where ..: key = ..; store = aggregates[key]; update every aggregate`), run with the
   TRANSLATED protocol methods of the generated class table, builds exactly Exec.scan_agg - the insertion-ordered
   store C02_store_is_partition_fold is about - and leaves the last scanned row in `context`.
   ds describes the aggregate node objects (class index, dtype, operands; handle = position, as allocate assigns it). *)
Theorem C02_source_scan_loop : forall call_ref ctx_of (q : query) (table : list row) (g : list nat)
    (ds : list (nat * nat * pv)) (cw qobj : pv) (gks : list nat) (vals : list pv),
  Forall2 (node_ok call_ref ctx_of table) (q_aggs q) ds -> homogeneous q table ->
  qobj <> PSelf -> c02_p2 call_ref "attr:table" [qobj] = Ok (PList (map ctx_of table)) ->
  where_ok call_ref ctx_of q table (mk_nodes_from 0 ds) cw ->
  keys_ok call_ref ctx_of q g table (mk_nodes_from 0 ds) gks ->
  List.length vals = List.length (q_aggs q) ->
  exists s' vals',
    exec_block call_ref (c02_p2 call_ref)
      {| locals := [("query", qobj); ("c_where", cw); ("c_nonaggregate_exprs", PList (map PRef gks));
                    ("allocator", alloc_pv (PInt (Z.of_nat (List.length (q_aggs q)))));
                    ("c_aggregate_exprs", PList (mk_nodes_from 0 ds vals))]; fields := [] |}
      (f_body agg_scan) = Ok (Next s') /\
    lookup "aggregates" (locals s') = Some (dict_pv (scan_agg q g [] table)) /\
    lookup "context" (locals s') = Some (last (map ctx_of table) PNone) /\
    List.length vals' = List.length (q_aggs q) /\
    lookup "c_aggregate_exprs" (locals s') = Some (PList (mk_nodes_from 0 ds vals')).
Proof. exact agg_scan_linked. Qed.
Print Assumptions C02_source_scan_loop.

(* non-vacuity: SELECT a, count( * ), sum(b) GROUP BY a over three rows; the opaque callables are two column
   accessors and int(); the hypotheses of C02_source_scan_loop hold and the translated scan part RUNS to the model's store *)
Definition c02_demo_ref : nat -> list pv -> pv :=
  fun k args =>
    match k, args with
    | 10%nat, PTuple l :: _ => nth 0 l PNone
    | 11%nat, PTuple l :: _ => nth 1 l PNone
    | 20%nat, [] => PInt 0
    | _, _ => PNone
    end.
Definition c02_demo_q : query :=
  {| q_where := None; q_targets := [ECol 0; EAgg 0; EAgg 1]; q_group := Some [0%nat];
     q_aggs := [{| afun := ACountStar; aarg := EConst VNull |}; {| afun := ASum (VInt 0); aarg := ECol 1 |}];
     q_having := None; q_order := None; q_vis := [0%nat; 1%nat; 2%nat]; q_distinct := false; q_limit := None |}.
Definition c02_demo_table : list row := [[VInt 1; VInt 10]; [VNull; VInt 1]; [VInt 1; VInt 5]].
Definition c02_demo_ds : list (nat * nat * pv) := [(0%nat, 20%nat, PList []); (2%nat, 20%nat, PList [PRef 11])].

Example C02_source_example_hyps :
  Forall2 (node_ok c02_demo_ref key_pv c02_demo_table) (q_aggs c02_demo_q) c02_demo_ds /\
  homogeneous c02_demo_q c02_demo_table /\
  where_ok c02_demo_ref key_pv c02_demo_q c02_demo_table (mk_nodes_from 0 c02_demo_ds) PNone /\
  keys_ok c02_demo_ref key_pv c02_demo_q [0%nat] c02_demo_table (mk_nodes_from 0 c02_demo_ds) [10%nat].
Proof.
  split; [|split; [|split]].
  - repeat constructor; cbn; try tauto; try discriminate.
    intros _ r [<-|[<-|[<-|[]]]]; exists 11%nat; repeat split.
  - intros a [<-|[<-|[]]]; discriminate.
  - reflexivity.
  - intros r [<-|[<-|[<-|[]]]]; repeat constructor.
Qed.

Example C02_source_example_run :
  match exec_block c02_demo_ref (c02_p2 c02_demo_ref)
          {| locals := [("query", aquery_obj (PList (map key_pv c02_demo_table)) PNone); ("c_where", PNone);
                        ("c_nonaggregate_exprs", PList [PRef 10]); ("allocator", alloc_pv (PInt 2));
                        ("c_aggregate_exprs", PList (mk_nodes_from 0 c02_demo_ds [PNone; PNone]))]; fields := [] |}
          (f_body agg_scan) with
  | Ok (Next s') => lookup "aggregates" (locals s')
  | _ => None
  end = Some (dict_pv [([VInt 1], [VInt 2; VInt 15]); ([VNull], [VInt 1; VInt 1])]).
Proof. vm_compute. reflexivity. Qed.

(* ------------------------------------------------------------------ the rest of the aggregated branch and its composition *)
(* (2) the translated split of the targets: grouping expressions = the targets at the positions of group_indexes, in
   target order; aggregate nodes = what compiler.get_columns_and_aggregates (opaque callable 0, behaviour stated by
   gca_ok) finds below the other targets, concatenated in target order *)
Theorem C02_source_split : forall call_ref (g : list nat) (aggs_of : nat -> list pv) (tks : list nat),
  Forall (gca_ok call_ref aggs_of) tks ->
  exists s',
    exec_block call_ref (c02_p2 call_ref)
      {| locals := [("c_target_exprs", PList (map PRef tks)); ("group_indexes", PList (map idx g))]; fields := [] |}
      (f_body agg_split) = Ok (Next s') /\
    lookup "c_nonaggregate_exprs" (locals s') = Some (PList (map PRef (fst (split_from g aggs_of 0 tks)))) /\
    lookup "c_aggregate_exprs" (locals s') = Some (PList (snd (split_from g aggs_of 0 tks))).
Proof. exact agg_split_linked. Qed.
Print Assumptions C02_source_split.

(* (2) the translated allocate loop (Allocator() and EvalAggregator.allocate interpreted from their translations) gives
   node i the handle i: the premise `handle = position` of C02_source_scan_loop *)
Theorem C02_source_allocate_loop : forall call_ref (ds : list (nat * nat * pv)) (vals : list pv),
  Forall (fun d => (fst (fst d) < 8)%nat) ds -> List.length vals = List.length ds ->
  exists s',
    exec_block call_ref (c02_p2 call_ref) {| locals := [("c_aggregate_exprs", PList (raw_nodes ds vals))]; fields := [] |}
      (f_body agg_alloc) = Ok (Next s') /\
    lookup "allocator" (locals s') = Some (alloc_pv (PInt (Z.of_nat (List.length ds)))) /\
    lookup "c_aggregate_exprs" (locals s') = Some (PList (mk_nodes_from 0 ds vals)).
Proof. exact agg_alloc_linked. Qed.
Print Assumptions C02_source_allocate_loop.

(* (4) the translated output part: for every entry of the store, in insertion order: finalize every aggregate, grouped
   positions take next(key_iter), the others c_expr(context) (context = the last scanned row; with the finalised value
   slots[h] parked on node h the target evaluates to Eval.eval ctx slots e), skip the row when values[having_index] is
   falsy: Exec.finalize (out_values, having_ok), for every store and every target list *)
Theorem C02_source_output_loop : forall call_ref (q : query) (g : list nat) (ctx : row) (cv : pv)
    (ds : list (nat * nat * pv)) (tks : list nat) (qobj : pv) (s : store) (acc : list row) (vals : list pv),
  Forall (fun d => (fst (fst d) < 8)%nat) ds -> List.length ds = List.length (q_aggs q) ->
  Forall (entry_ok q g ctx) s ->
  (s <> [] -> targets_ok_from call_ref q g ctx cv (mk_nodes_from 0 ds) 0 tks (q_targets q)) ->
  qobj <> PSelf -> c02_p2 call_ref "attr:having_index" [qobj] = Ok (having_pv q) ->
  List.length vals = List.length (q_aggs q) ->
  exists s',
    exec_block call_ref (c02_p2 call_ref)
      {| locals := [("aggregates", dict_pv s); ("c_aggregate_exprs", PList (mk_nodes_from 0 ds vals));
                    ("c_target_exprs", PList (map PRef tks)); ("group_indexes", PList (map idx g)); ("context", cv);
                    ("query", qobj); ("rows", PList (map slots_pv acc))]; fields := [] |}
      (f_body agg_output) = Ok (Next s') /\
    lookup "rows" (locals s') = Some (PList (map slots_pv (acc ++ finalize q g ctx s))).
Proof. exact agg_output_linked. Qed.
Print Assumptions C02_source_output_loop.

(* (5) the WHOLE translated aggregated branch (split, allocate, scan, output: Gen/SrcAgg.agg_branch is their
   concatenation, checked by the generator and by agg_branch_shape), run with the translated Allocator and protocol
   methods, leaves in `rows` exactly Exec.exec_rows q table - the function C02_partition_fold is about - for ALL tables
   and all queries with: aggregate nodes of the generated classes matching q_aggs (node_ok) in hunting order, comparable
   min/max columns, grouped targets / WHERE independent of the node state, the other targets = Eval.eval on the last row
   with the finalised slots (where that is not an exception), no output cell an exception value (C04), having_index inside
   the target list. *)
Theorem C02_source_agg_branch : forall call_ref ctx_of (q : query) (table : list row) (g : list nat)
    (ds : list (nat * nat * pv)) (aggs_of : nat -> list pv) (tks : list nat) (cw qobj : pv) (vals0 : list pv),
  q_group q = Some g ->
  Forall2 (node_ok call_ref ctx_of table) (q_aggs q) ds -> homogeneous q table -> List.length vals0 = List.length ds ->
  Forall (gca_ok call_ref aggs_of) tks -> snd (split_from g aggs_of 0 tks) = raw_nodes ds vals0 ->
  qobj <> PSelf -> c02_p2 call_ref "attr:table" [qobj] = Ok (PList (map ctx_of table)) ->
  c02_p2 call_ref "attr:having_index" [qobj] = Ok (having_pv q) ->
  where_ok call_ref ctx_of q table (mk_nodes_from 0 ds) cw ->
  gtargets_ok_from call_ref ctx_of g table (mk_nodes_from 0 ds) 0 tks (q_targets q) ->
  (table <> [] ->
   targets_ok_from call_ref q g (last table []) (ctx_of (last table [])) (mk_nodes_from 0 ds) 0 tks (q_targets q)) ->
  (forall ks, In ks (scan_agg q g [] table) ->
     no_err (out_values g (last table []) (snd ks) 0 (q_targets q) (fst ks))) ->
  having_bound q ->
  exists s',
    exec_block call_ref (c02_p2 call_ref)
      {| locals := [("c_target_exprs", PList (map PRef tks)); ("group_indexes", PList (map idx g)); ("query", qobj);
                    ("c_where", cw); ("rows", PList [])]; fields := [] |}
      (f_body agg_branch) = Ok (Next s') /\
    lookup "rows" (locals s') = Some (PList (map slots_pv (exec_rows q table))).
Proof. exact agg_branch_exec_rows. Qed.
Print Assumptions C02_source_agg_branch.

(* non-vacuity: the whole translated branch RUNS on the demo query (targets: column a, count( * ), sum(b); the two
   aggregate targets read the value parked on their node) and yields the model's rows *)
Definition c02_demo_ref2 : nat -> list pv -> pv :=
  fun k args =>
    match k, args with
    | 0%nat, [PRef 10] => PTuple [PList [PRef 10]; PList []]
    | 0%nat, [PRef 30] => PTuple [PList []; PList [node_pv 0 PNone (PRef 20) (PList []) PNone]]
    | 0%nat, [PRef 31] => PTuple [PList []; PList [node_pv 2 PNone (PRef 20) (PList [PRef 11]) PNone]]
    | 30%nat, [_; PList [PTuple [_; _; _; _; v]; _]] => v
    | 31%nat, [_; PList [_; PTuple [_; _; _; _; v]]] => v
    | _, _ => c02_demo_ref k args
    end.

Example C02_source_example_branch :
  match exec_block c02_demo_ref2 (c02_p2 c02_demo_ref2)
          {| locals := [("c_target_exprs", PList [PRef 10; PRef 30; PRef 31]); ("group_indexes", PList [idx 0]);
                        ("query", aquery_obj (PList (map key_pv c02_demo_table)) PNone); ("c_where", PNone);
                        ("rows", PList [])]; fields := [] |}
          (f_body agg_branch) with
  | Ok (Next s') => lookup "rows" (locals s')
  | _ => None
  end = Some (PList (map slots_pv (exec_rows c02_demo_q c02_demo_table))).
Proof. vm_compute. reflexivity. Qed.

(* ... and the hypotheses of C02_source_agg_branch hold for it *)
Definition c02_demo_aggs_of (k : nat) : list pv :=
  match k with
  | 30%nat => [node_pv 0 PNone (PRef 20) (PList []) PNone]
  | 31%nat => [node_pv 2 PNone (PRef 20) (PList [PRef 11]) PNone]
  | _ => []
  end.

Example C02_source_example_branch_hyps :
  Forall2 (node_ok c02_demo_ref2 key_pv c02_demo_table) (q_aggs c02_demo_q) c02_demo_ds /\
  Forall (gca_ok c02_demo_ref2 c02_demo_aggs_of) [10%nat; 30%nat; 31%nat] /\
  snd (split_from [0%nat] c02_demo_aggs_of 0 [10%nat; 30%nat; 31%nat]) = raw_nodes c02_demo_ds [PNone; PNone] /\
  gtargets_ok_from c02_demo_ref2 key_pv [0%nat] c02_demo_table (mk_nodes_from 0 c02_demo_ds) 0 [10%nat; 30%nat; 31%nat]
    (q_targets c02_demo_q) /\
  targets_ok_from c02_demo_ref2 c02_demo_q [0%nat] (last c02_demo_table []) (key_pv (last c02_demo_table []))
    (mk_nodes_from 0 c02_demo_ds) 0 [10%nat; 30%nat; 31%nat] (q_targets c02_demo_q) /\
  (forall ks, In ks (scan_agg c02_demo_q [0%nat] [] c02_demo_table) ->
     no_err (out_values [0%nat] (last c02_demo_table []) (snd ks) 0 (q_targets c02_demo_q) (fst ks))) /\
  having_bound c02_demo_q.
Proof.
  split; [|split; [|split; [|split; [|split; [|split]]]]].
  - repeat constructor; cbn; try tauto; try discriminate.
    intros _ r [<-|[<-|[<-|[]]]]; exists 11%nat; repeat split.
  - repeat constructor; eexists; reflexivity.
  - reflexivity.
  - cbn. repeat split; try discriminate;
      match goal with H : _ \/ _ |- _ => destruct H as [<-|[<-|[<-|[]]]] end; reflexivity.
  - cbn. repeat split; try discriminate; intros _ sl Hl He;
      destruct sl as [|a [|b [|? ?]]]; try discriminate; reflexivity.
  - intros ks [<-|[<-|[]]]; repeat constructor.
  - exact I.
Qed.

(* ---- the aggregators Gen/SrcAgg.v leaves out (agg_left_out): sum() over Amount / Position / Inventory, whose
   accumulator is a Beancount Inventory.  They are translated on every run into Gen/SrcAggInv.v (group `agginv`,
   harness/vf/src_agginv.py; owned by C12, regenerated by this check's hook too) and Proofs/SrcAggInv.v proves the same
   shape of statement as for the scalar sums: "sum adds the non-NULL values from the type's zero" - run on one group the
   way the scan / output loops above drive a node (initialize, update per row in source order, finalize, __call__), the
   cell is the fold of Model/Inventory.v's addition over the group's non-NULL values starting from the EMPTY inventory,
   in the node's own slot, every other slot of the store unchanged.  The zero is a fresh value per group (an aggregator
   that adopts its first input as the accumulator has a different source term). ---- *)
From Verif Require Model.PrimsLedger Model.PrimsAggInv Model.Inventory Gen.SrcAggInv Proofs.SrcAggInv.

Theorem C02_source_sum_over_inventories : forall (call_ref : nat -> list pv -> pv) (k : PrimsAggInv.kind) (i kd ko : nat)
    (value : pv) (slots : list pv) (ctxs : list pv) (ctx : pv) (vals : list (option PrimsAggInv.operand)),
  (i < List.length slots)%nat -> call_ref kd [] = PrimsLedger.Inv.enc_inv [] ->
  SrcAggInv.operands_on call_ref ko ctxs vals -> PrimsAggInv.of_kind k vals ->
  SrcAggInv.run_group call_ref (SrcAggInv.kind_class k) (PrimsAggInv.inv_node i kd ko value) (PList slots) ctxs ctx =
  Ok (PrimsAggInv.inv_node i kd ko (PrimsLedger.Inv.enc_inv (PrimsAggInv.sum_operands vals)),
      PList (set_nth i (PrimsLedger.Inv.enc_inv (PrimsAggInv.sum_operands vals)) slots),
      PrimsLedger.Inv.enc_inv (PrimsAggInv.sum_operands vals)).
Proof. exact SrcAggInv.sum_fold_src. Qed.
Print Assumptions C02_source_sum_over_inventories.

(* the classes left out of agg_classes are exactly the three translated there *)
Theorem C02_source_left_out_covered :
  map (fun q => String.append "beanquery.query_env." q) agg_left_out = map (fun x => fst (fst (fst x))) Gen.SrcAggInv.agginv_classes.
Proof. reflexivity. Qed.
Print Assumptions C02_source_left_out_covered.

(* Non-vacuity: sum(position) over a group with a NULL and a lot bought and sold *)
Example C02_source_sum_over_inventories_example :
  let lot := Some (Inventory.mkcost 1000 1 737000 None) in
  let vals := [Some (PrimsAggInv.OPosition (Inventory.mkpos 5 2 lot)); None;
               Some (PrimsAggInv.OPosition (Inventory.mkpos (-5) 2 lot)); Some (PrimsAggInv.OPosition (Inventory.mkpos 7 3 None))] in
  let call_ref := fun (k : nat) (args : list pv) =>
    match k, args with
    | O, [PV (VInt n)] => PrimsAggInv.enc_operand (nth (Z.to_nat n) vals None)
    | _, _ => PrimsLedger.Inv.enc_inv []
    end in
  SrcAggInv.operands_on call_ref 0 [PInt 0; PInt 1; PInt 2; PInt 3] vals /\
  PrimsAggInv.of_kind PrimsAggInv.KPosition vals /\
  PrimsAggInv.sum_operands vals = [((3, None), 7)].
Proof. vm_compute. repeat split; repeat constructor. Qed.

