(* C17 numberify decomposes amounts per currency without losing or inventing quantities.
   Statements only; proofs in Proofs/NumberifyProofs.v, model in Model/Numberify.v.
   Everywhere: f is the formatter (None, or any function quantize(number, currency));
   cols = pre ++ (name, dt) :: post singles out one input column (index = length pre);
   width pre rows = number of output columns produced by the columns before it. *)
From Coq Require Import ZArith QArith List Bool Sorted Permutation.
Import ListNotations.
From Verif Require Import Base.StableSort Base.PyValue Model.Numberify Proofs.NumberifyProofs.
Open Scope Z_scope.

(* Well-typed tables (NULL allowed in every column, also Amount/Position/Inventory ones) never raise. *)
Theorem C17_total_on_well_typed : forall f cols rows,
  well_typed cols rows = true -> numberify_results f cols rows = Some (numberify_core f cols rows).
Proof. exact total_on_well_typed. Qed.
Print Assumptions C17_total_on_well_typed.

Theorem C17_null_cell_is_well_typed_and_stays_null : forall f dt cur,
  cell_ok dt cnull = true /\ conv_cell f dt cur cnull = cnull.
Proof. intros f dt cur. split; [apply null_cell_ok|apply conv_cell_null]. Qed.
Print Assumptions C17_null_cell_is_well_typed_and_stays_null.

(* Row count and row order: output row i is a function of input row i alone (and of the converters). *)
Theorem C17_rows_preserved : forall f cols rows,
  length (orows f cols rows) = length rows /\
  orows f cols rows = map (convert_row f (build_convs 0 cols rows)) rows /\
  (forall i, (i < length rows)%nat ->
     nth i (orows f cols rows) [] = convert_row f (build_convs 0 cols rows) (nth i rows [])) /\
  (forall r, In r (orows f cols rows) -> length r = length (ocols f cols rows)).
Proof.
  intros f cols rows. split; [apply row_count_preserved|]. split; [apply rows_preserved|].
  split; [apply row_order_preserved|apply row_widths].
Qed.
Print Assumptions C17_rows_preserved.

(* Every column that is not Amount/Position/Inventory keeps its name, datatype and every cell. *)
Theorem C17_other_columns_untouched : forall f pre name k post rows,
  let cols := pre ++ (name, DPlain k) :: post in
  let off := width pre rows in
  nth off (ocols f cols rows) ([], DPlain 0) = (name, DPlain k) /\
  forall r, nth off (convert_row f (build_convs 0 cols rows) r) cnull = cellat (length pre) r.
Proof. exact plain_column_untouched. Qed.
Print Assumptions C17_other_columns_untouched.

(* An amount-like column becomes one decimal column `name (CUR)` per census currency, in
   census order; the new cell is that currency's converter applied to the old cell. *)
Theorem C17_amount_column_split : forall f pre name dt post rows j,
  dt_amountlike dt = true ->
  let cols := pre ++ (name, dt) :: post in
  let curs := col_currencies dt rows (length pre) in
  let off := width pre rows in
  (j < length curs)%nat ->
  nth (off + j) (ocols f cols rows) ([], DPlain 0) = (fmt_name name (nth j curs []), DDecimal) /\
  forall r, nth (off + j) (convert_row f (build_convs 0 cols rows) r) cnull
            = conv_cell f dt (nth j curs []) (cellat (length pre) r).
Proof. exact amount_column_split. Qed.
Print Assumptions C17_amount_column_split.

(* The whole output description: concatenation, column by column, of either the column itself
   or its `name (CUR)` decimal columns. *)
Theorem C17_description : forall f cols rows, ocols f cols rows = cols_out rows 0 cols.
Proof. exact description. Qed.
Print Assumptions C17_description.

(* THE cell law, in rational numbers (dec_q = value of a Decimal): without a formatter the new
   cell has exactly the value of the units of that currency summed over all lots of the
   original cell, and is NULL only when that value is zero -- nothing lost, nothing invented. *)
Theorem C17_cell_is_units : forall dt cur c,
  dt_amountlike dt = true -> cell_ok dt c = true ->
  (conv_cell None dt cur c = cnull /\ (sum_q (units_of cur c) == 0)%Q)
  \/ exists d, conv_cell None dt cur c = CPlain (VDec d) /\ (dec_q d == sum_q (units_of cur c))%Q.
Proof. exact conv_cell_value. Qed.
Print Assumptions C17_cell_is_units.

(* With a formatter (any function): the cell is quantize(u, CUR) where u has the value of that
   sum; NULL only if the currency is absent or u is zero (a non-zero u that quantizes to 0.00
   stays 0.00, for all three datatypes). *)
Theorem C17_cell_is_quantized_units : forall f dt cur c,
  dt_amountlike dt = true -> cell_ok dt c = true ->
  exists u, (dec_q u == sum_q (units_of cur c))%Q /\
    ((conv_cell f dt cur c = cnull /\
      (units_of cur c = [] \/ dec_is_zero u = true))
     \/ conv_cell f dt cur c = CPlain (VDec (quant f u cur))).
Proof. exact conv_cell_value_fmt. Qed.
Print Assumptions C17_cell_is_quantized_units.

(* The same at integer scale 10^e (e below every exponent involved): sc e d = d / 10^e. *)
Theorem C17_cell_is_units_scaled : forall f dt cur c e,
  dt_amountlike dt = true -> cell_ok dt c = true ->
  e <= 0 -> (forall d, In d (units_of cur c) -> e <= dexp d) ->
  exists u, e <= dexp u /\ sc e u = sum_sc e (units_of cur c) /\
    ((conv_cell f dt cur c = cnull /\
      (units_of cur c = [] \/ dec_is_zero u = true))
     \/ conv_cell f dt cur c = CPlain (VDec (quant f u cur))).
Proof. exact conv_cell_units. Qed.
Print Assumptions C17_cell_is_units_scaled.

(* Decimal addition as modelled (coefficient/exponent pairs) is exact. *)
Theorem C17_decimal_add_exact : forall e a b,
  e <= dexp a -> e <= dexp b ->
  sc e (dec_add a b) = sc e a + sc e b /\ dexp (dec_add a b) = Z.min (dexp a) (dexp b).
Proof. intros e a b Ha Hb. split; [apply sc_add; assumption|apply dexp_add]. Qed.
Print Assumptions C17_decimal_add_exact.

Theorem C17_cell_shape : forall f dt cur c,
  conv_cell f dt cur c = cnull \/ exists d, conv_cell f dt cur c = CPlain (VDec d).
Proof. exact conv_cell_shape. Qed.
Print Assumptions C17_cell_shape.

(* A currency absent from the original value gives NULL. *)
Theorem C17_absent_is_null : forall f dt cur c, units_of cur c = [] -> conv_cell f dt cur c = cnull.
Proof. exact conv_cell_absent. Qed.
Print Assumptions C17_absent_is_null.

(* No currency is dropped: every unit of every cell of an amount-like column has a column
   (Amount cells: when the number is non-zero -- a zero Amount is falsy and is skipped). *)
Theorem C17_no_nonzero_currency_dropped : forall dt rows idx r a,
  dt_amountlike dt = true -> In r rows -> cell_ok dt (cellat idx r) = true ->
  In a (cell_units (cellat idx r)) -> acur a <> [] ->
  (dt = DAmount -> dec_is_zero (anum a) = false) ->
  In (acur a) (col_currencies dt rows idx).
Proof. exact no_currency_dropped. Qed.
Print Assumptions C17_no_nonzero_currency_dropped.

(* ... and none is invented. *)
Theorem C17_no_currency_invented : forall dt rows idx cur,
  In cur (col_currencies dt rows idx) ->
  exists r a, In r rows /\ In a (cell_units (cellat idx r)) /\ acur a = cur.
Proof. exact no_currency_invented. Qed.
Print Assumptions C17_no_currency_invented.

(* Column names and order: the currencies are pairwise distinct, exactly those mentioned by
   some row, and come by decreasing (number of rows mentioning it, name). *)
Theorem C17_column_names_and_order : forall dt rows idx,
  let curs := col_currencies dt rows idx in
  let rc := row_count dt rows idx in
  NoDup curs /\
  (forall c, In c curs <-> exists r, In r rows /\ In c (cell_census dt (cellat idx r))) /\
  py_sort census_le true (census dt rows idx) = map (fun c => (c, rc c)) curs /\
  StronglySorted (fun a b => rc b < rc a \/ (rc a = rc b /\ list_le b a = true)) curs /\
  (forall a b l1 l2 l3, curs = l1 ++ a :: l2 ++ b :: l3 ->
     rc b < rc a \/ (rc a = rc b /\ list_le b a = true /\ a <> b)).
Proof.
  intros dt rows idx. split; [apply currencies_nodup|]. split; [apply currencies_exact|].
  split; [apply sorted_census_counts|]. split; [apply currencies_order|apply currencies_order_strict].
Qed.
Print Assumptions C17_column_names_and_order.

(* Table level, everything together: in a well-typed table, for every row, every amount-like
   column and EVERY currency, either the currency has a column `name (CUR)` whose cell in that
   row carries exactly the units of that currency held by the original cell (NULL iff they sum
   to zero), or it has no column and the original cell holds none of it. *)
Theorem C17_table_conservation : forall pre name dt post rows r cur,
  dt_amountlike dt = true ->
  let cols := pre ++ (name, dt) :: post in
  let curs := col_currencies dt rows (length pre) in
  let off := width pre rows in
  let c := cellat (length pre) r in
  well_typed cols rows = true -> In r rows -> cur <> [] ->
  (exists j, (j < length curs)%nat /\ nth j curs [] = cur /\
     let out := nth (off + j) (convert_row None (build_convs 0 cols rows) r) cnull in
     (out = cnull /\ (sum_q (units_of cur c) == 0)%Q)
     \/ exists d, out = CPlain (VDec d) /\ (dec_q d == sum_q (units_of cur c))%Q)
  \/ (~ In cur curs /\ (sum_q (units_of cur c) == 0)%Q).
Proof. exact table_conservation. Qed.
Print Assumptions C17_table_conservation.

(* The census order (dict insertion order, hash-dependent set iteration of
   Inventory.currencies()) cannot influence the columns. *)
Theorem C17_census_order_irrelevant : forall dt rows idx (g : crow -> list currency),
  (forall r, Permutation (g r) (mentions dt idx r)) ->
  map fst (py_sort census_le true (incr_all (flat_map g rows) [])) = col_currencies dt rows idx.
Proof. exact census_order_irrelevant. Qed.
Print Assumptions C17_census_order_irrelevant.

(* The DisplayContext formatter used in the correspondence: exponent -digits, sign kept; exact
   when no digit is dropped, otherwise off by at most half a unit of the last place, ties to even;
   a currency unknown to the context is left alone. *)
Theorem C17_quantize : forall d e,
  dexp (quantize_exp d e) = e /\ dneg (quantize_exp d e) = dneg d /\
  (e <= dexp d -> sc e (quantize_exp d e) = sc e d) /\
  (dexp d < e -> 0 <= dcoef d ->
     let p := 10 ^ (e - dexp d) in
     let q := dcoef (quantize_exp d e) in
     2 * Z.abs (dcoef d - q * p) <= p /\ (2 * Z.abs (dcoef d - q * p) = p -> Z.even q = true)).
Proof.
  intros d e. split; [apply quantize_exp_exp|]. split; [apply quantize_exp_exp|].
  split; [apply quantize_exp_exact|apply quantize_exp_round].
Qed.
Print Assumptions C17_quantize.

Theorem C17_quantize_by_currency : forall t d cur,
  (lookup_digits cur t = None -> dc_quantize t d cur = d) /\
  (forall n, lookup_digits cur t = Some n -> dexp (dc_quantize t d cur) = - n).
Proof. intros t d cur. split; [apply dc_quantize_unknown|intros n; apply dc_quantize_known]. Qed.
Print Assumptions C17_quantize_by_currency.

(* The hypotheses are satisfiable, and the model computes: one Inventory column, two AAPL lots
   and one USD lot in the first row, NULL in the second, a plain column next to it. *)
Example C17_example :
  let usd := [85; 83; 68] in let aapl := [65; 65; 80; 76] in
  let lot n c := mkpos (mkamt (mkdec false n 0) c) None in
  numberify_results None [([105], DInventory); ([110], DPlain 0)]
    [[CInventory [lot 5 aapl; lot 7 usd; lot 2 aapl]; CPlain (VInt 1)]; [cnull; CPlain (VInt 2)];
     [CInventory [lot 3 usd]; cnull]]
  = Some ([([105; 32; 40; 85; 83; 68; 41], DDecimal); ([105; 32; 40; 65; 65; 80; 76; 41], DDecimal); ([110], DPlain 0)],
          [[CPlain (VDec (mkdec false 7 0)); CPlain (VDec (mkdec false 7 0)); CPlain (VInt 1)];
           [cnull; cnull; CPlain (VInt 2)];
           [CPlain (VDec (mkdec false 3 0)); cnull; cnull]]).
Proof. vm_compute. reflexivity. Qed.

(* quantize as Python does: 2.345 -> 2.34, 2.355 -> 2.36 (half even), -0.001 -> -0.00, 1E+3 -> 1000 *)
Example C17_quantize_examples :
  quantize_exp (mkdec false 2345 (-3)) (-2) = mkdec false 234 (-2) /\
  quantize_exp (mkdec false 2355 (-3)) (-2) = mkdec false 236 (-2) /\
  quantize_exp (mkdec true 1 (-3)) (-2) = mkdec true 0 (-2) /\
  quantize_exp (mkdec false 1 3) 0 = mkdec false 1000 0.
Proof. vm_compute. auto. Qed.

(* ---------------------------------------------------------------------------------------------------------------
   Tie by translation: Gen/SrcNumberify.v is regenerated on every run from the SOURCE of beanquery/numberify.py
   (harness/vf/src_numberify.py).  Interpreting the translated bodies (Model/PyMini.v) on the encoded values of
   Model/PrimsNumberify.v (which also fixes what every primitive is assumed to do) yields, for every well-typed input,
   exactly the model functions the theorems above are stated over.  call_ref: opaque callables (here: the class
   constructors); f: the formatter (None or any function). *)
From Coq Require Import String.
From Verif Require Import Model.PyMini Model.PrimsNumberify Gen.SrcNumberify Proofs.SrcNumberify.

Theorem C17_source_identity_converter : forall (call_ref : nat -> list pv -> pv) (f : option (dec -> currency -> dec))
    (name : str) (dt : dtype) (idx : nat) (r : crow) (df : pv),
  (idx < List.length r)%nat ->
  call_method call_ref (num_prims0 f) conv_identity_call (id_fields name dt idx) [enc_row r; df] =
  Ok (id_fields name dt idx, enc_cell (apply_conv f (KId name dt idx) r)).
Proof. exact identity_call_src. Qed.
Print Assumptions C17_source_identity_converter.

Theorem C17_source_amount_converter : forall (call_ref : nat -> list pv -> pv) (f : option (dec -> currency -> dec))
    (name : str) (idx : nat) (cur : currency) (r : crow),
  (idx < List.length r)%nat -> cell_ok DAmount (cellat idx r) = true ->
  call_method call_ref (num_prims0 f) conv_amount_call (cv_fields name idx cur) [enc_row r; enc_dformat f] =
  Ok (cv_fields name idx cur, enc_cell (apply_conv f (KConv name DAmount idx cur) r)).
Proof. exact amount_call_src. Qed.
Print Assumptions C17_source_amount_converter.

Theorem C17_source_position_converter : forall (call_ref : nat -> list pv -> pv) (f : option (dec -> currency -> dec))
    (name : str) (idx : nat) (cur : currency) (r : crow),
  (idx < List.length r)%nat -> cell_ok DPosition (cellat idx r) = true ->
  call_method call_ref (num_prims0 f) conv_position_call (cv_fields name idx cur) [enc_row r; enc_dformat f] =
  Ok (cv_fields name idx cur, enc_cell (apply_conv f (KConv name DPosition idx cur) r)).
Proof. exact position_call_src. Qed.
Print Assumptions C17_source_position_converter.

Theorem C17_source_inventory_converter : forall (call_ref : nat -> list pv -> pv) (f : option (dec -> currency -> dec))
    (name : str) (idx : nat) (cur : currency) (r : crow),
  (idx < List.length r)%nat -> cell_ok DInventory (cellat idx r) = true ->
  call_method call_ref (num_prims0 f) conv_inventory_call (cv_fields name idx cur) [enc_row r; enc_dformat f] =
  Ok (cv_fields name idx cur, enc_cell (apply_conv f (KConv name DInventory idx cur) r)).
Proof. exact inventory_call_src. Qed.
Print Assumptions C17_source_inventory_converter.

(* __init__: which constructor argument ends up in which field (the fields the __call__ theorems start from) *)
Theorem C17_source_converter_init : forall (call_ref : nat -> list pv -> pv) (prim : string -> list pv -> PyMini.res pv)
    (a b c : pv),
  call_method call_ref prim conv_identity_init [] [a; b; c] = Ok ([("name", a); ("dtype", b); ("index", c)]%string, PNone) /\
  call_method call_ref prim conv_amount_init [] [a; b; c] = Ok ([("name", a); ("index", b); ("currency", c)]%string, PNone) /\
  call_method call_ref prim conv_position_init [] [a; b; c] = Ok ([("name", a); ("index", b); ("currency", c)]%string, PNone) /\
  call_method call_ref prim conv_inventory_init [] [a; b; c] = Ok ([("name", a); ("index", b); ("currency", c)]%string, PNone).
Proof. exact inits_src. Qed.
Print Assumptions C17_source_converter_init.

(* the census functions: count per currency in a defaultdict, sorted by (count, name) descending, one converter each;
   ctor_conv k dt: calling class number k builds the converter object of datatype dt *)
Theorem C17_source_census_amount : forall (call_ref : nat -> list pv -> pv) (f : option (dec -> currency -> dec))
    (name : str) (rows : list crow) (idx : nat),
  ctor_conv call_ref 2 DAmount -> col_ok DAmount idx rows ->
  call_function call_ref (num_prims1 call_ref f) census_amount [enc_str name; enc_rows rows; enc_idx idx] =
  Ok (PList (map enc_conv (convert_col name DAmount rows idx))).
Proof. exact census_amount_src. Qed.
Print Assumptions C17_source_census_amount.

Theorem C17_source_census_position : forall (call_ref : nat -> list pv -> pv) (f : option (dec -> currency -> dec))
    (name : str) (rows : list crow) (idx : nat),
  ctor_conv call_ref 4 DPosition -> col_ok DPosition idx rows ->
  call_function call_ref (num_prims1 call_ref f) census_position [enc_str name; enc_rows rows; enc_idx idx] =
  Ok (PList (map enc_conv (convert_col name DPosition rows idx))).
Proof. exact census_position_src. Qed.
Print Assumptions C17_source_census_position.

Theorem C17_source_census_inventory : forall (call_ref : nat -> list pv -> pv) (f : option (dec -> currency -> dec))
    (name : str) (rows : list crow) (idx : nat),
  ctor_conv call_ref 6 DInventory -> col_ok DInventory idx rows ->
  call_function call_ref (num_prims1 call_ref f) census_inventory [enc_str name; enc_rows rows; enc_idx idx] =
  Ok (PList (map enc_conv (convert_col name DInventory rows idx))).
Proof. exact census_inventory_src. Qed.
Print Assumptions C17_source_census_inventory.

(* the driver, end to end: numberify_results on a well-typed table = Numberify.numberify_core (description and rows);
   the census functions are reached through CONVERTING_TYPES, the converters are called as objects *)
Theorem C17_source_driver : forall (call_ref : nat -> list pv -> pv) (f : option (dec -> currency -> dec))
    (cols : list column) (rows : list crow),
  ctors_ok call_ref -> well_typed cols rows = true ->
  call_function call_ref (num_prims2 call_ref f) numberify_driver [enc_columns cols; enc_rows rows; enc_dformat f] =
  Ok (PTuple [PTuple (map enc_column (fst (numberify_core f cols rows)));
              PList (map enc_row (snd (numberify_core f cols rows)))]).
Proof. exact driver_src. Qed.
Print Assumptions C17_source_driver.

(* the generated data the statements above mention by number *)
Theorem C17_source_tables :
  map snd refs = ["beanquery.numberify.IdentityConverter"; "beanquery.Column"; "beanquery.numberify.AmountConverter";
                  "lambda:census_amount_lambda0"; "beanquery.numberify.PositionConverter"; "lambda:census_position_lambda0";
                  "beanquery.numberify.InventoryConverter"; "lambda:census_inventory_lambda0";
                  "beanquery.numberify.convert_col_Amount"; "beanquery.numberify.convert_col_Position";
                  "beanquery.numberify.convert_col_Inventory"]%string /\
  map fst refs = seq 0 11 /\
  converting_types = [(enc_dtype DAmount, 8%nat); (enc_dtype DPosition, 9%nat); (enc_dtype DInventory, 10%nat)] /\
  functions = [(8%nat, census_amount); (9%nat, census_position); (10%nat, census_inventory)] /\
  lambdas = [(3%nat, census_amount_lambda0); (5%nat, census_position_lambda0); (7%nat, census_inventory_lambda0)] /\
  converter_dtypes = [("IdentityConverter", None); ("AmountConverter", Some (enc_dtype DDecimal));
                      ("PositionConverter", Some (enc_dtype DDecimal)); ("InventoryConverter", Some (enc_dtype DDecimal))]%string.
Proof. exact tables_src. Qed.
Print Assumptions C17_source_tables.

(* Non-vacuity: a constructor oracle meeting ctors_ok, and the translated driver run by the interpreter on the table of
   C17_example (one Inventory column, one plain column, three rows). *)
Example C17_source_driver_example :
  let usd := [85; 83; 68] in let aapl := [65; 65; 80; 76] in
  let lot n c := mkpos (mkamt (mkdec false n 0) c) None in
  let cols := [([105], DInventory); ([110], DPlain 0)] in
  let rows := [[CInventory [lot 5 aapl; lot 7 usd; lot 2 aapl]; CPlain (VInt 1)]; [cnull; CPlain (VInt 2)];
               [CInventory [lot 3 usd]; cnull]] in
  ctors_ok example_call_ref /\ well_typed cols rows = true /\
  call_function example_call_ref (num_prims2 example_call_ref None) numberify_driver
    [enc_columns cols; enc_rows rows; PNone] =
  Ok (PTuple [PTuple (map enc_column [([105; 32; 40; 85; 83; 68; 41], DDecimal); ([105; 32; 40; 65; 65; 80; 76; 41], DDecimal);
                                      ([110], DPlain 0)]);
              PList (map enc_row [[CPlain (VDec (mkdec false 7 0)); CPlain (VDec (mkdec false 7 0)); CPlain (VInt 1)];
                                  [cnull; cnull; CPlain (VInt 2)];
                                  [CPlain (VDec (mkdec false 3 0)); cnull; cnull]])]).
Proof. split; [exact example_ctors_ok|]. split; vm_compute; reflexivity. Qed.
