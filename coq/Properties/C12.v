(* C12 Inventory aggregation is a homomorphism; the running balance is the prefix sum.
   Statements only; proofs in Proofs/InventoryProofs.v; models in Model/Inventory.v
   (Beancount's Inventory and reducers, beanquery's sum aggregators and units/cost/
   value/convert) and Model/Balance.v (Row, the balance column with its memo, the row loop).
   Inventories are compared as finite maps ([inv_eqv]: same number under every
   (currency, cost) key); for the well-formed inventories the code builds this is the
   same as holding the same positions ([Permutation]).  Numbers are exact integers in a
   fixed-point unit (see Model/Inventory.v). *)
From Coq Require Import ZArith List Bool Permutation.
Import ListNotations.
From Verif Require Import Model.Inventory Model.Balance Proofs.InventoryProofs.
From Verif Require Model.Inventory Model.PrimsEnvLedger Gen.SrcEnvLedger Proofs.SrcEnvLedger.
From Verif Require Model.PrimsAgg Model.PrimsAggInv Gen.SrcAggInv Proofs.SrcAggInv.
From Verif Require Model.PrimsInvFuncs Proofs.SrcInvFuncs.
From Verif Require Model.FirstLast Proofs.SrcAggFirstLast.   (* bld-inv2: first / last over inventories *)
Open Scope Z_scope.

(* ---------------- the finite-map view is faithful ---------------- *)
Theorem C12_add_amount_pointwise : forall inv a c k,
  lookup (add_amount inv a c) k = lookup inv k + (if key_eqb (snd a, c) k then fst a else 0).
Proof. exact lookup_add_amount. Qed.
Print Assumptions C12_add_amount_pointwise.

Theorem C12_add_inventory_pointwise : forall a b k,
  wf b -> lookup (add_inventory a b) k = lookup a k + lookup b k.
Proof. intros a b k H. apply lookup_add_inventory. apply H. Qed.
Print Assumptions C12_add_inventory_pointwise.

(* every inventory the aggregators / reducers build keeps the dict invariant *)
Theorem C12_sums_well_formed : forall l la f inv, wf (sum_pos l) /\ wf (sum_amt la) /\ wf (reduce f inv).
Proof. intros. split; [apply wf_sum_pos|split; [apply wf_sum_amt|apply wf_reduce]]. Qed.
Print Assumptions C12_sums_well_formed.

Theorem C12_eqv_is_same_positions : forall a b, wf a -> wf b -> (inv_eqv a b <-> Permutation a b).
Proof. intros a b Ha Hb. split; [apply eqv_perm; assumption|apply perm_eqv; assumption]. Qed.
Print Assumptions C12_eqv_is_same_positions.

(* inventory addition is a commutative monoid on well-formed inventories (as maps) *)
Theorem C12_add_inventory_monoid : forall a b c, wf a -> wf b -> wf c ->
  inv_eqv (add_inventory a b) (add_inventory b a)
  /\ inv_eqv (add_inventory (add_inventory a b) c) (add_inventory a (add_inventory b c))
  /\ add_inventory [] a = a /\ add_inventory a [] = a
  /\ wf (add_inventory a b).
Proof.
  intros a b c Ha Hb Hc. split; [apply add_inventory_comm; assumption|].
  split; [apply add_inventory_assoc; assumption|].
  split; [reflexivity|]. split; [apply add_inventory_nil_r|apply wf_add_inventory; assumption].
Qed.
Print Assumptions C12_add_inventory_monoid.

(* ---------------- sum() is a homomorphism ---------------- *)
Theorem C12_sum_app : forall l1 l2,
  inv_eqv (sum_pos (l1 ++ l2)) (add_inventory (sum_pos l1) (sum_pos l2))
  /\ Permutation (sum_pos (l1 ++ l2)) (add_inventory (sum_pos l1) (sum_pos l2)).
Proof. intros. split; [apply sum_app|apply sum_app_perm]. Qed.
Print Assumptions C12_sum_app.

Theorem C12_sum_perm : forall l1 l2, Permutation l1 l2 ->
  inv_eqv (sum_pos l1) (sum_pos l2) /\ Permutation (sum_pos l1) (sum_pos l2).
Proof. intros l1 l2 P. split; [apply sum_perm|apply sum_perm_perm]; exact P. Qed.
Print Assumptions C12_sum_perm.

(* GROUP BY any key: the per-group sums added up (sum() over inventories) are the total *)
Theorem C12_partition_total : forall (X : Type) (pos_of : X -> position) (gk : X -> Z) (groups : list Z) (l : list X),
  NoDup groups -> (forall x, In x l -> In (gk x) groups) ->
  inv_eqv (sum_inv (map (fun g => sum_pos (map pos_of (filter (fun x => gk x =? g) l))) groups))
          (sum_pos (map pos_of l)).
Proof. exact @partition_total. Qed.
Print Assumptions C12_partition_total.

Theorem C12_partition_two : forall (f : position -> bool) l,
  inv_eqv (add_inventory (sum_pos (filter f l)) (sum_pos (filter (fun p => negb (f p)) l))) (sum_pos l).
Proof. exact partition_two. Qed.
Print Assumptions C12_partition_two.

(* the NULL-skipping aggregators are these sums *)
Theorem C12_aggregators_skip_null : forall vp va vi,
  sum_position vp = sum_pos (somes vp) /\ sum_amount va = sum_amt (somes va) /\ sum_inventory vi = sum_inv (somes vi).
Proof. intros. split; [apply sum_position_somes|split; [apply sum_amount_somes|apply sum_inventory_somes]]. Qed.
Print Assumptions C12_aggregators_skip_null.

(* ---------------- units / cost / value / convert commute with sum ---------------- *)
(* hypothesis on the reducer, exactly: on positions of one lot the result currency does
   not depend on the number, and the result number is additive in the number *)
Theorem C12_linear_commutes : forall f l, lot_linear f ->
  inv_eqv (reduce f (sum_pos l)) (sum_amt (map f l))
  /\ Permutation (reduce f (sum_pos l)) (sum_amt (map f l)).
Proof. intros f l H. split; [apply reduce_commutes|apply reduce_commutes_perm]; exact H. Qed.
Print Assumptions C12_linear_commutes.

Theorem C12_units_commutes : forall l,
  inv_eqv (inventory_units (sum_pos l)) (sum_amt (map get_units l)).
Proof. intro l. apply reduce_commutes. apply lot_linear_units. Qed.
Print Assumptions C12_units_commutes.

Theorem C12_cost_commutes : forall one l,
  inv_eqv (inventory_cost one (sum_pos l)) (sum_amt (map (get_cost one) l)).
Proof. intros one l. apply reduce_commutes. apply lot_linear_cost. Qed.
Print Assumptions C12_cost_commutes.

(* for EVERY price function: no hypothesis on it is needed, because a looked-up rate
   depends on currencies and date only *)
Theorem C12_value_commutes : forall (price : currency -> currency -> option Z -> option Z) one date l,
  inv_eqv (inventory_value price one date (sum_pos l)) (sum_amt (map (get_value price one date) l)).
Proof. intros. apply reduce_commutes. apply lot_linear_value. Qed.
Print Assumptions C12_value_commutes.

Theorem C12_convert_commutes : forall (price : currency -> currency -> option Z -> option Z) one target date l,
  inv_eqv (inventory_convert price one target date (sum_pos l))
          (sum_amt (map (convert_position price one target date) l)).
Proof. intros. apply reduce_commutes. apply lot_linear_convert. Qed.
Print Assumptions C12_convert_commutes.

(* ... and with sums of INVENTORIES (sum() over an Inventory column, e.g. partial sums of a subquery
   or a user table): units(sum(inv)) = sum(units(inv)), same for cost/value/convert *)
Theorem C12_linear_commutes_inventories : forall f l, lot_linear f -> Forall wf l ->
  inv_eqv (reduce f (sum_inv l)) (sum_inv (map (reduce f) l)).
Proof. exact reduce_commutes_inventories. Qed.
Print Assumptions C12_linear_commutes_inventories.

(* the hypothesis is the linear one: rate-times-number reducers satisfy it, and over the
   integers every lot-linear reducer is of that shape *)
Theorem C12_lot_linear_is_rate : forall f, lot_linear f ->
  forall cur c n, fst (f (mkpos n cur c)) = n * fst (f (mkpos 1 cur c)).
Proof. intros f H cur c n. apply lot_linear_homogeneous. exact H. Qed.
Print Assumptions C12_lot_linear_is_rate.

(* ---------------- the balance column: the memo ---------------- *)
(* once computed in a row, every further reference returns the same Inventory and
   changes nothing *)
Theorem C12_cache_same_within_row : forall (A : Type) (p : prog A) st posting v,
  memo_hit st = Some v -> run p st posting = (st, fst (pure_run p v)).
Proof. exact @run_hit. Qed.
Print Assumptions C12_cache_same_within_row.

(* in a new row the posting is added exactly once iff balance is referenced at all,
   and all references (however many) see that one value *)
Theorem C12_cache_advances_once : forall (A : Type) (p : prog A) st posting,
  memo_hit st = None ->
  let v := add_position (rbal st) posting in
  run p st posting =
  ((if snd (pure_run p v) then mkrow (rowid st) v (Some (rowid st, v)) else st), fst (pure_run p v)).
Proof. exact @run_fresh. Qed.
Print Assumptions C12_cache_advances_once.

(* after PostingsTable.__iter__ stepped to the next posting the memo is stale *)
Theorem C12_next_row_stale : forall st, good st -> memo_hit (next_row st) = None.
Proof. exact next_row_stale. Qed.
Print Assumptions C12_next_row_stale.

(* ---------------- the running balance ---------------- *)
(* general law (any WHERE, any targets, incl. short-circuit / lazy evaluation) *)
Theorem C12_balance_general : forall R posting_of T c_where c_targets rows,
  execute R posting_of T c_where c_targets rows = scan_spec R posting_of T c_where c_targets [] rows.
Proof. exact execute_correct. Qed.
Print Assumptions C12_balance_general.

(* conditions do not consult balance, targets reference it n >= 1 times: row k carries n
   copies of the k-th prefix sum of `position` over the SELECTED postings *)
Theorem C12_balance_prefix_sum : forall (R : Type) (posting_of : R -> position)
    (c_where : option (R -> prog bool)) (sel : R -> bool) (n : nat) (rows : list R),
  no_consult R c_where sel -> (1 <= n)%nat ->
  execute R posting_of (list inventory) c_where (fun _ => refs n) rows
  = map (fun v => repeat v n) (prefix_sums [] (map posting_of (filter sel rows)))
  /\ forall k, (k < length (filter sel rows))%nat ->
     nth_error (execute R posting_of (list inventory) c_where (fun _ => refs n) rows) k
     = Some (repeat (sum_pos (firstn (S k) (map posting_of (filter sel rows)))) n).
Proof.
  intros R posting_of c_where sel n rows NC Hn. split.
  - apply balance_prefix_sum; assumption.
  - intros k Hk. apply balance_kth; assumption.
Qed.
Print Assumptions C12_balance_prefix_sum.

(* any target list referencing balance at least once per row (e.g. units(balance), account, balance) *)
Theorem C12_balance_prefix_sum_targets : forall (R T : Type) (posting_of : R -> position)
    (c_where : option (R -> prog bool)) (c_targets : R -> prog T) (sel : R -> bool) (rows : list R),
  no_consult R c_where sel -> always_touch R T c_targets ->
  execute R posting_of T c_where c_targets rows
  = map (fun rv => fst (pure_run (c_targets (fst rv)) (snd rv)))
        (combine (filter sel rows) (prefix_sums [] (map posting_of (filter sel rows)))).
Proof. exact balance_prefix_sum_targets. Qed.
Print Assumptions C12_balance_prefix_sum_targets.

Theorem C12_last_balance_is_sum : forall (R : Type) (posting_of : R -> position)
    (c_where : option (R -> prog bool)) (sel : R -> bool) (n : nat) (rows : list R),
  no_consult R c_where sel -> (1 <= n)%nat ->
  last (execute R posting_of (list inventory) c_where (fun _ => refs n) rows) (repeat [] n)
  = repeat (sum_pos (map posting_of (filter sel rows))) n.
Proof. exact last_balance_is_sum. Qed.
Print Assumptions C12_last_balance_is_sum.

(* a condition consulting balance on every row: the sums run over ALL postings scanned so far *)
Theorem C12_balance_in_where : forall (R T : Type) (posting_of : R -> position)
    (w : R -> prog bool) (c_targets : R -> prog T) (rows : list R),
  (forall r v, snd (pure_run (w r) v) = true) ->
  execute R posting_of T (Some w) c_targets rows
  = map (fun rv => fst (pure_run (c_targets (fst rv)) (snd rv)))
        (filter (fun rv => fst (pure_run (w (fst rv)) (snd rv)))
                (combine rows (prefix_sums [] (map posting_of rows)))).
Proof. exact balance_in_where. Qed.
Print Assumptions C12_balance_in_where.

Theorem C12_prefix_sums_are_sums : forall l k, (k < length l)%nat ->
  nth_error (prefix_sums [] l) k = Some (sum_pos (firstn (S k) l)).
Proof. intros l k H. apply prefix_sums_nth. exact H. Qed.
Print Assumptions C12_prefix_sums_are_sums.

(* ---------------- the design before fix 960d829 (one process-wide cache entry) ---------------- *)
(* a second table scan referencing balance between two references of one row makes the
   row add its posting twice: the witness replayed on the old code is the defect *)
Theorem C12_shared_cache_refuted :
  exists (pa pb : position),
    let a := mkrow 1 [] None in
    let b := mkrow 1 [] None in
    let '(c1, a1, v1) := balance_col_shared None 1 a pa in
    let '(c2, b1, _) := balance_col_shared c1 2 b pb in
    let '(_, _, v2) := balance_col_shared c2 1 a1 pa in
    v1 <> v2.
Proof. exact shared_cache_refuted. Qed.
Print Assumptions C12_shared_cache_refuted.

(* ---------------- hypotheses are satisfiable / sample instances ---------------- *)
Example C12_ex_no_consult :
  no_consult prow (Some (fun r : prow => weval WMask (fst (snd r)))) (fun r => fst (snd r)).
Proof. exact weval_mask_no_consult. Qed.

(* SELECT units(balance), account, balance  (and any list with an unconditional reference) *)
Example C12_ex_always_touch :
  always_touch prow (list cell) (fun r => teval (snd (snd r)) [TUnitsBal; TOther; TBalance]).
Proof. intros r v. apply teval_touch. reflexivity. Qed.

Example C12_ex_where_consults : forall (r : prow) v, snd (pure_run (weval (WNot WEmptyBal) (fst (snd r))) v) = true.
Proof. intros r v. reflexivity. Qed.

Example C12_ex_sale_reduces_lot :
  let lot := Some (mkcost 1000 1 737000 None) in
  sum_pos [mkpos 10 2 lot; mkpos (-4) 2 lot; mkpos 5 2 (Some (mkcost 1200 1 737001 None)); mkpos (-6) 2 lot]
  = [((2, Some (mkcost 1200 1 737001 None)), 5)].
Proof. reflexivity. Qed.

(* lazy evaluation: a row that does not reference balance does not advance it
   (first(balance), x AND empty(balance)): here the middle row is skipped *)
Example C12_ex_lazy_skips_rows :
  execute (position * bool)%type fst (list inventory) None
          (fun r => if snd r then refs 1 else Ret [])
          [(mkpos 1 1 None, true); (mkpos 10 1 None, false); (mkpos 100 1 None, true)]
  = [[ [((1, None), 1)] ]; []; [ [((1, None), 101)] ]].
Proof. reflexivity. Qed.

(* ---------------- only() / empty() / filter_currency() on inventories ---------------- *)
(* only(c, .) commutes with sum: the total of currency c in sum(position) is the sum of the numbers of the positions
   held in c (whatever their cost), and the Amount carries c even when nothing is held *)
Theorem C12_only_commutes : forall c l,
  inventory_only c (sum_pos l) = (zsum (fun p => if pcur p =? c then pnum p else 0) l, c).
Proof. exact SrcInvFuncs.only_sum_pos. Qed.
Print Assumptions C12_only_commutes.

(* filter_currency(inv, c) keeps exactly the positions of currency c, in order (on the well-formed inventories the
   code builds); as a finite map it is inv on the keys in c and nothing elsewhere; the result is well formed *)
Theorem C12_filter_currency_spec : forall inv c, wf inv ->
  inventory_filter_currency inv c = filter (fun e : entry => fst (fst e) =? c) inv
  /\ (forall k, lookup (inventory_filter_currency inv c) k = if fst k =? c then lookup inv k else 0)
  /\ wf (inventory_filter_currency inv c).
Proof.
  intros inv c H. split; [apply SrcInvFuncs.inventory_filter_currency_wf; exact H|].
  split; [intro k; apply SrcInvFuncs.lookup_inventory_filter_currency; exact H|].
  apply SrcInvFuncs.wf_inventory_filter_currency.
Qed.
Print Assumptions C12_filter_currency_spec.

(* empty(inv): no key at all, i.e. (well-formed inventories hold no zero position) every key nets to zero *)
Theorem C12_empty_spec : forall inv, wf inv ->
  (inventory_empty inv = true <-> inv = []) /\ (inventory_empty inv = true <-> forall k, lookup inv k = 0).
Proof. intros inv H. split; [apply SrcInvFuncs.is_empty_spec|apply SrcInvFuncs.is_empty_lookup; exact H]. Qed.
Print Assumptions C12_empty_spec.

(* ---- tie by translation: the SOURCE of the `balance` column accessor (the function behind
   PostingsTable.columns['balance'], taken from the live column object) and of Row.__init__, translated into PyMini on
   every run (Gen/SrcLedgerBalance.v), computes [balance_col] / [row_init] - for every Row state (rowid, running
   inventory, memo) and posting.  The Row is the receiver; its attributes are [rowst_fields st posting entry]
   (Model/PrimsLedger.v); Inventory.add_position is Model/Inventory.add_position on the encoded values. ---- *)
From Coq Require Import String.
From Verif Require Import Base.PyValue Model.PyMini Model.PrimsLedger Gen.SrcLedgerBalance Proofs.SrcLedgerBalance.

Theorem C12_source_balance : forall (call_ref : nat -> list pv -> pv) (ext : string -> list pv -> PyMini.res pv)
    (st : rowst) (p : position) (ent : pv),
  call_method call_ref (prims_ledger SrcLedgerBalance.refs ext) src_balance
              (rowst_fields st (Inv.enc_position p) ent) [] =
  Ok (rowst_fields (fst (balance_col st p)) (Inv.enc_position p) ent, Inv.enc_inv (snd (balance_col st p))).
Proof. exact balance_src. Qed.
Print Assumptions C12_source_balance.

Theorem C12_source_row_init : forall (call_ref : nat -> list pv -> pv) (ext : string -> list pv -> PyMini.res pv)
    (es o : pv),
  call_method call_ref (prims_ledger SrcLedgerBalance.refs ext) src_row_init row_class_attrs [es; o] =
  Ok (rowst_fields row_init PNone PNone, PNone).
Proof. exact row_init_src. Qed.
Print Assumptions C12_source_row_init.

(* the encodings the primitive add_position decodes are invertible *)
Theorem C12_source_encoding : forall (i : inventory) (p : position),
  Inv.dec_inv (Inv.enc_inv i) = Some i /\ Inv.dec_position (Inv.enc_position p) = Some p.
Proof. exact (fun i p => conj (dec_enc_inv i) (dec_enc_position p)). Qed.
Print Assumptions C12_source_encoding.

(* the translated accessor run twice on one row, then on the next row: miss, hit, miss *)
Example C12_source_balance_example :
  let p := mkpos 5 1 None in
  let f0 := rowst_fields (mkrow 1 [] None) (Inv.enc_position p) PNone in
  let f1 := rowst_fields (mkrow 1 [((1, None), 5)] (Some (1, [((1, None), 5)]))) (Inv.enc_position p) PNone in
  let f2 := rowst_fields (mkrow 2 [((1, None), 5)] (Some (1, [((1, None), 5)]))) (Inv.enc_position p) PNone in
  let run := call_method (fun _ _ => PNone) (prims_ledger SrcLedgerBalance.refs (fun _ _ => Stuck)) src_balance in
  run f0 [] = Ok (f1, Inv.enc_inv [((1, None), 5)]) /\
  run f1 [] = Ok (f1, Inv.enc_inv [((1, None), 5)]) /\
  run f2 [] = Ok (rowst_fields (mkrow 2 [((1, None), 10)] (Some (2, [((1, None), 10)]))) (Inv.enc_position p) PNone,
                  Inv.enc_inv [((1, None), 10)]).
Proof. vm_compute. repeat split; reflexivity. Qed.

(* ---- tie by translation, group `envledger`: the SOURCE of the BQL functions units / cost / value / convert (amount,
   position and inventory overloads), getprice, number, currency and filter_currency (position) of query_env.py, translated
   into PyMini on every run (Gen/SrcEnvLedger.v), computes the reducers of Model/Inventory.v - for every argument and
   for EVERY price function, fixed-point unit and currency upper-casing (Model/PrimsEnvLedger.v; proofs in
   Proofs/SrcEnvLedger.v).  `context.tables['prices'].price_map` is the first parameter. ---- *)
Import Verif.Model.PrimsEnvLedger Verif.Gen.SrcEnvLedger Verif.Proofs.SrcEnvLedger.

Theorem C12_source_position_units : forall (price : Inventory.currency -> Inventory.currency -> option Z -> option Z) (one : Z) (upper : Inventory.currency -> Inventory.currency) (call_ref : nat -> list pv -> pv), forall p, call_function call_ref (prim_envledger price one upper) envl_position_units [Inv.enc_position p] = Ok (enc_iamount (Inventory.get_units p)).
Proof. exact position_units_src. Qed.
Print Assumptions C12_source_position_units.

Theorem C12_source_inventory_units : forall (price : Inventory.currency -> Inventory.currency -> option Z -> option Z) (one : Z) (upper : Inventory.currency -> Inventory.currency) (call_ref : nat -> list pv -> pv), forall i, call_function call_ref (prim_envledger price one upper) envl_inventory_units [Inv.enc_inv i] = Ok (Inv.enc_inv (Inventory.inventory_units i)).
Proof. exact inventory_units_src. Qed.
Print Assumptions C12_source_inventory_units.

Theorem C12_source_position_cost : forall (price : Inventory.currency -> Inventory.currency -> option Z -> option Z) (one : Z) (upper : Inventory.currency -> Inventory.currency) (call_ref : nat -> list pv -> pv), forall p, call_function call_ref (prim_envledger price one upper) envl_position_cost [Inv.enc_position p] = Ok (enc_iamount (Inventory.get_cost one p)).
Proof. exact position_cost_src. Qed.
Print Assumptions C12_source_position_cost.

Theorem C12_source_inventory_cost : forall (price : Inventory.currency -> Inventory.currency -> option Z -> option Z) (one : Z) (upper : Inventory.currency -> Inventory.currency) (call_ref : nat -> list pv -> pv), forall i, call_function call_ref (prim_envledger price one upper) envl_inventory_cost [Inv.enc_inv i] = Ok (Inv.enc_inv (Inventory.inventory_cost one i)).
Proof. exact inventory_cost_src. Qed.
Print Assumptions C12_source_inventory_cost.

Theorem C12_source_position_value : forall (price : Inventory.currency -> Inventory.currency -> option Z -> option Z) (one : Z) (upper : Inventory.currency -> Inventory.currency) (call_ref : nat -> list pv -> pv), forall p d, call_function call_ref (prim_envledger price one upper) envl_position_value [p_price_map; Inv.enc_position p; enc_odate d] = Ok (enc_iamount (Inventory.get_value price one d p)).
Proof. exact position_value_src. Qed.
Print Assumptions C12_source_position_value.

Theorem C12_source_inventory_value : forall (price : Inventory.currency -> Inventory.currency -> option Z -> option Z) (one : Z) (upper : Inventory.currency -> Inventory.currency) (call_ref : nat -> list pv -> pv), forall i d, call_function call_ref (prim_envledger price one upper) envl_inventory_value [p_price_map; Inv.enc_inv i; enc_odate d] = Ok (Inv.enc_inv (Inventory.inventory_value price one d i)).
Proof. exact inventory_value_src. Qed.
Print Assumptions C12_source_inventory_value.

Theorem C12_source_convert_amount : forall (price : Inventory.currency -> Inventory.currency -> option Z -> option Z) (one : Z) (upper : Inventory.currency -> Inventory.currency) (call_ref : nat -> list pv -> pv), forall a c d, call_function call_ref (prim_envledger price one upper) envl_convert_amount [p_price_map; enc_iamount a; PInt c; enc_odate d] = Ok (enc_iamount (Inventory.convert_amount price one None c d a)).
Proof. exact convert_amount_src. Qed.
Print Assumptions C12_source_convert_amount.

Theorem C12_source_convert_position : forall (price : Inventory.currency -> Inventory.currency -> option Z -> option Z) (one : Z) (upper : Inventory.currency -> Inventory.currency) (call_ref : nat -> list pv -> pv), forall p c d, call_function call_ref (prim_envledger price one upper) envl_convert_position [p_price_map; Inv.enc_position p; PInt c; enc_odate d] = Ok (enc_iamount (Inventory.convert_position price one c d p)).
Proof. exact convert_position_src. Qed.
Print Assumptions C12_source_convert_position.

Theorem C12_source_convert_inventory : forall (price : Inventory.currency -> Inventory.currency -> option Z -> option Z) (one : Z) (upper : Inventory.currency -> Inventory.currency) (call_ref : nat -> list pv -> pv), forall i c d, call_function call_ref (prim_envledger price one upper) envl_convert_inventory [p_price_map; Inv.enc_inv i; PInt c; enc_odate d] = Ok (Inv.enc_inv (Inventory.inventory_convert price one c d i)).
Proof. exact convert_inventory_src. Qed.
Print Assumptions C12_source_convert_inventory.

Theorem C12_source_getprice : forall (price : Inventory.currency -> Inventory.currency -> option Z -> option Z) (one : Z) (upper : Inventory.currency -> Inventory.currency) (call_ref : nat -> list pv -> pv), forall b q d, call_function call_ref (prim_envledger price one upper) envl_getprice [p_price_map; PInt b; PInt q; enc_odate d] = Ok (enc_orate (price (upper b) (upper q) d)).
Proof. exact getprice_src. Qed.
Print Assumptions C12_source_getprice.

Theorem C12_source_number : forall (price : Inventory.currency -> Inventory.currency -> option Z -> option Z) (one : Z) (upper : Inventory.currency -> Inventory.currency) (call_ref : nat -> list pv -> pv), forall a : Inventory.amount, call_function call_ref (prim_envledger price one upper) envl_number [enc_iamount a] = Ok (PInt (fst a)).
Proof. exact number_src. Qed.
Print Assumptions C12_source_number.

Theorem C12_source_currency : forall (price : Inventory.currency -> Inventory.currency -> option Z -> option Z) (one : Z) (upper : Inventory.currency -> Inventory.currency) (call_ref : nat -> list pv -> pv), forall a : Inventory.amount, call_function call_ref (prim_envledger price one upper) envl_currency [enc_iamount a] = Ok (PInt (snd a)).
Proof. exact currency_src. Qed.
Print Assumptions C12_source_currency.

Theorem C12_source_filter_currency_position : forall (price : Inventory.currency -> Inventory.currency -> option Z -> option Z) (one : Z) (upper : Inventory.currency -> Inventory.currency) (call_ref : nat -> list pv -> pv), forall p c, call_function call_ref (prim_envledger price one upper) envl_filter_currency_position [Inv.enc_position p; PInt c] = Ok (if Inventory.pcur p =? c then Inv.enc_position p else PNone).
Proof. exact filter_currency_position_src. Qed.
Print Assumptions C12_source_filter_currency_position.

(* Non-vacuity: cost(position) on 3 units held at cost 7 in currency 2, and convert of a position through its cost
   currency (no direct price 1 -> 3; 1 -> 2 at 5 and 2 -> 3 at 11), with [one] = 1. *)
Example C12_source_envledger_example :
  let price := fun (b q : Inventory.currency) (_ : option Z) =>
    if (b =? 1) && (q =? 2) then Some 5 else if (b =? 2) && (q =? 3) then Some 11 else None in
  let p := mkpos 3 1 (Some (mkcost 7 2 0 None)) in
  call_function (fun _ _ => PNone) (prim_envledger price 1 (fun c => c)) envl_position_cost [Inv.enc_position p]
    = Ok (enc_iamount (21, 2)) /\
  call_function (fun _ _ => PNone) (prim_envledger price 1 (fun c => c)) envl_convert_position
    [p_price_map; Inv.enc_position p; PInt 3; PNone] = Ok (enc_iamount (165, 3)).
Proof. split; vm_compute; reflexivity. Qed.

(* ---- tie by translation, group `agginv`: the SOURCE of the aggregators whose state is an Inventory - SumAmount,
   SumPosition, SumInventory of query_env.py with the allocate / initialize / finalize / __call__ they inherit from
   query_compile.EvalAggregator, resolved through the MRO of the live classes and translated into PyMini on every run
   (Gen/SrcAggInv.v) - computes the sums the homomorphism theorems above are stated over (C12_sum_app, C12_sum_perm,
   C12_partition_total, C12_aggregators_skip_null): run on ONE group the way execute_select drives an aggregate node
   (initialize, update for every row in table order, finalize, __call__; [run_group], Proofs/SrcAggInv.v) the cell of
   sum(x) is  sum_position / sum_inventory / sum_amount  of the operand's values on the group's rows, NULLs skipped,
   starting from a FRESH EMPTY inventory; the node's slot of the store holds it and no other slot changes - for every
   store, handle, group and values.  `store[self.handle].add_*(value)` is read - update - write back on the slot
   (rule A10 of harness/vf/src_agginv.py: the accumulator is not aliased); Inventory.add_amount / add_position /
   add_inventory are Model/Inventory.v's on the encoded values (Model/PrimsAggInv.v); the operand is an opaque pure
   callable of the row context; dtype() is assumed to return the empty inventory (Gen/SrcAggInv.agginv_dtypes records
   that a live instance carries beancount's Inventory class). ---- *)
Import Verif.Model.PrimsAgg Verif.Model.PrimsAggInv Verif.Gen.SrcAggInv Verif.Proofs.SrcAggInv.

(* initialize: a fresh empty inventory in the node's slot, whatever was there *)
Theorem C12_source_sum_initialize : forall (call_ref : nat -> list pv -> pv) (k : kind) (i kd ko : nat) (value : pv)
    (slots : list pv),
  (i < List.length slots)%nat -> call_ref kd [] = Inv.enc_inv [] ->
  call_method call_ref prims_agginv (c_initialize (kind_class k)) (inv_node i kd ko value) [PList slots] =
  Ok (inv_node i kd ko PNone, PList (set_nth i (Inv.enc_inv []) slots)).
Proof. intros call_ref k. destruct k; exact (initialize_src call_ref). Qed.
Print Assumptions C12_source_sum_initialize.

(* update: the slot becomes Inventory.add_amount / add_position / add_inventory of the slot and the value; NULL skipped *)
Theorem C12_source_sum_update : forall (call_ref : nat -> list pv -> pv) (k : kind) (i kd ko : nat) (value : pv)
    (slots : list pv) (b : inventory) (ctx : pv) (v : option operand),
  (i < List.length slots)%nat -> nth i slots PNone = Inv.enc_inv b ->
  call_ref ko [ctx] = enc_operand v -> of_kind k [v] ->
  call_method call_ref prims_agginv (c_update (kind_class k)) (inv_node i kd ko value) [PList slots; ctx] =
  Ok (inv_node i kd ko value, PList (set_nth i (Inv.enc_inv (add_value b v)) slots)).
Proof. exact update_src. Qed.
Print Assumptions C12_source_sum_update.

(* the fold over the rows of a group, for the three classes at once *)
Theorem C12_source_sum_fold : forall (call_ref : nat -> list pv -> pv) (k : kind) (i kd ko : nat) (value : pv)
    (slots : list pv) (ctxs : list pv) (ctx : pv) (vals : list (option operand)),
  (i < List.length slots)%nat -> call_ref kd [] = Inv.enc_inv [] -> operands_on call_ref ko ctxs vals -> of_kind k vals ->
  run_group call_ref (kind_class k) (inv_node i kd ko value) (PList slots) ctxs ctx =
  Ok (inv_node i kd ko (Inv.enc_inv (sum_operands vals)),
      PList (set_nth i (Inv.enc_inv (sum_operands vals)) slots),
      Inv.enc_inv (sum_operands vals)).
Proof. exact sum_fold_src. Qed.
Print Assumptions C12_source_sum_fold.

Theorem C12_source_sum_position : forall (call_ref : nat -> list pv -> pv) (i kd ko : nat) (value : pv)
    (slots ctxs : list pv) (ctx : pv) (vp : list (option position)),
  (i < List.length slots)%nat -> call_ref kd [] = Inv.enc_inv [] ->
  operands_on call_ref ko ctxs (map (option_map OPosition) vp) ->
  run_group call_ref class_SumPosition (inv_node i kd ko value) (PList slots) ctxs ctx =
  Ok (inv_node i kd ko (Inv.enc_inv (sum_position vp)), PList (set_nth i (Inv.enc_inv (sum_position vp)) slots),
      Inv.enc_inv (sum_position vp)).
Proof. exact sum_position_src. Qed.
Print Assumptions C12_source_sum_position.

Theorem C12_source_sum_inventory : forall (call_ref : nat -> list pv -> pv) (i kd ko : nat) (value : pv)
    (slots ctxs : list pv) (ctx : pv) (vi : list (option inventory)),
  (i < List.length slots)%nat -> call_ref kd [] = Inv.enc_inv [] ->
  operands_on call_ref ko ctxs (map (option_map OInventory) vi) ->
  run_group call_ref class_SumInventory (inv_node i kd ko value) (PList slots) ctxs ctx =
  Ok (inv_node i kd ko (Inv.enc_inv (sum_inventory vi)), PList (set_nth i (Inv.enc_inv (sum_inventory vi)) slots),
      Inv.enc_inv (sum_inventory vi)).
Proof. exact sum_inventory_src. Qed.
Print Assumptions C12_source_sum_inventory.

Theorem C12_source_sum_amount : forall (call_ref : nat -> list pv -> pv) (i kd ko : nat) (value : pv)
    (slots ctxs : list pv) (ctx : pv) (va : list (option amount)),
  (i < List.length slots)%nat -> call_ref kd [] = Inv.enc_inv [] ->
  operands_on call_ref ko ctxs (map (option_map OAmount) va) ->
  run_group call_ref class_SumAmount (inv_node i kd ko value) (PList slots) ctxs ctx =
  Ok (inv_node i kd ko (Inv.enc_inv (sum_amount va)), PList (set_nth i (Inv.enc_inv (sum_amount va)) slots),
      Inv.enc_inv (sum_amount va)).
Proof. exact sum_amount_src. Qed.
Print Assumptions C12_source_sum_amount.

(* what was translated: the three classes registered as `sum` over Amount / Position / Inventory, and the class a live
   instance's dtype is *)
Theorem C12_source_sum_classes :
  map fst agginv_classes =
  [("beanquery.query_env.SumAmount", "sum", "beancount.core.amount.Amount");
   ("beanquery.query_env.SumPosition", "sum", "beancount.core.position.Position");
   ("beanquery.query_env.SumInventory", "sum", "beancount.core.inventory.Inventory")]
  /\ map snd agginv_classes = [kind_class KAmount; kind_class KPosition; kind_class KInventory]
  /\ map snd agginv_dtypes = [true; true; true]
  /\ map (fun x => snd (fst x)) agginv_dtypes =
     ["beancount.core.inventory.Inventory"; "beancount.core.inventory.Inventory"; "beancount.core.inventory.Inventory"].
Proof. repeat split; reflexivity. Qed.
Print Assumptions C12_source_sum_classes.

(* Non-vacuity: a store with three slots, the node's handle is 1; a group of four rows whose operand values are a
   lot of 5, NULL, a sale of 5 from the same lot (the position disappears: zero-removal) and 7 of another currency;
   contexts are the row numbers, callable 0 is the operand, callable 1 the dtype.  Then the same group through
   sum(inventory) with a first value that must NOT be adopted: the result is a new value, slot 0 and 2 are untouched. *)
Example C12_source_sum_example :
  let lot := Some (mkcost 1000 1 737000 None) in
  let vals := [Some (mkpos 5 2 lot); None; Some (mkpos (-5) 2 lot); Some (mkpos 7 3 None)] in
  let call_ref := fun (k : nat) (args : list pv) =>
    match k, args with
    | O, [PV (VInt n)] => enc_operand (nth (Z.to_nat n) (map (option_map OPosition) vals) None)
    | _, _ => Inv.enc_inv []
    end in
  run_group call_ref class_SumPosition (inv_node 1 1 0 PNone) (PList [PInt 42; PNone; PInt 43])
            [PInt 0; PInt 1; PInt 2; PInt 3] (PInt 3)
  = Ok (inv_node 1 1 0 (Inv.enc_inv [((3, None), 7)]), PList [PInt 42; Inv.enc_inv [((3, None), 7)]; PInt 43],
        Inv.enc_inv [((3, None), 7)])
  /\ operands_on call_ref 0 [PInt 0; PInt 1; PInt 2; PInt 3] (map (option_map OPosition) vals)
  /\ sum_position vals = [((3, None), 7)].
Proof. vm_compute. repeat split; repeat constructor. Qed.

(* ---- tie by translation: the SOURCE of the BQL functions only(currency, inventory), empty(inventory) and
   filter_currency(inventory, currency) of query_env.py (Gen/SrcEnvLedger.v: the envlx_ terms, translated on every run;
   a source outside the fragment is a translator failure since these theorems exist) computes Model/Inventory.v's
   inventory_only / inventory_empty / inventory_filter_currency, for every inventory and currency, under the
   primitives of Model/PrimsInvFuncs.v (Inventory.get_currency_units, is_empty, Inventory(iterable), iteration of an
   inventory = its entries). ---- *)
Import Verif.Model.PrimsInvFuncs Verif.Proofs.SrcInvFuncs.

Theorem C12_source_only_inventory : forall (call_ref : nat -> list pv -> pv) (c : currency) (i : inventory),
  call_function call_ref prim_invfuncs envlx_only_inventory [PInt c; Inv.enc_inv i] = Ok (enc_amt (inventory_only c i)).
Proof. exact only_inventory_src. Qed.
Print Assumptions C12_source_only_inventory.

Theorem C12_source_empty_inventory : forall (call_ref : nat -> list pv -> pv) (i : inventory),
  call_function call_ref prim_invfuncs envlx_empty_inventory [Inv.enc_inv i] = Ok (PBool (inventory_empty i)).
Proof. exact empty_inventory_src. Qed.
Print Assumptions C12_source_empty_inventory.

Theorem C12_source_filter_currency_inventory : forall (call_ref : nat -> list pv -> pv) (i : inventory) (c : currency),
  call_function call_ref prim_invfuncs envlx_filter_currency_inventory [Inv.enc_inv i; PInt c] =
  Ok (Inv.enc_inv (inventory_filter_currency i c)).
Proof. exact filter_currency_inventory_src. Qed.
Print Assumptions C12_source_filter_currency_inventory.

Example C12_source_invfuncs_example :
  let lot := Some (mkcost 1000 1 737000 None) in
  let inv := [((2, lot), 5); ((3, None), 7); ((2, None), 1)] in
  let run := call_function (fun _ _ => PNone) prim_invfuncs in
  run envlx_only_inventory [PInt 2; Inv.enc_inv inv] = Ok (enc_amt (6, 2)) /\
  run envlx_empty_inventory [Inv.enc_inv inv] = Ok (PBool false) /\
  run envlx_empty_inventory [Inv.enc_inv []] = Ok (PBool true) /\
  run envlx_filter_currency_inventory [Inv.enc_inv inv; PInt 2] = Ok (Inv.enc_inv [((2, lot), 5); ((2, None), 1)]).
Proof. vm_compute. repeat split; reflexivity. Qed.

(* ---- tie by translation (bld-inv2): `first(x)` / `last(x)` over Inventory / Position / Amount operands.
   Gen/SrcAggInv.v also carries, regenerated on every run: `first_last_overloads` (EVERY overload the live
   query_compile.FUNCTIONS has under `first` / `last`, with the function each protocol method resolves to through the
   live MRO), `first_last_dispatch` (what the live types.function_lookup returns for an operand of every datatype of the
   registry and of Inventory / Position / Amount) and the translated methods `aggi_First_*` / `aggi_Last_*`.  There is ONE
   overload each, for [types.Any]: an inventory operand runs the same code objects as a scalar one (tied for scalar
   slots by C02_source_update_first / _last), there is no inventory-specific overload whose code could copy or fold.
   The theorems below tie those methods on stores whose slots hold ENCODED inventories / positions / amounts
   (Model/PrimsAggInv.enc_operand) to Model/FirstLast.v; operands are opaque pure callables of the row context. ---- *)
Import Verif.Model.FirstLast Verif.Proofs.SrcAggFirstLast.

(* census: every overload of first / last is one of the two translated classes; their methods are these terms *)
Theorem C12_source_first_last_census :
  first_last_overloads =
  [("first", "beanquery.query_env.First", "any", class_First);
   ("last", "beanquery.query_env.Last", "any", class_Last)]
  /\ class_First = {| c_allocate := aggi_EvalAggregator_allocate; c_initialize := aggi_First_initialize;
                      c_update := aggi_First_update; c_finalize := aggi_EvalAggregator_finalize;
                      c_call := aggi_EvalAggregator_call |}
  /\ class_Last = {| c_allocate := aggi_EvalAggregator_allocate; c_initialize := aggi_Last_initialize;
                     c_update := aggi_Last_update; c_finalize := aggi_EvalAggregator_finalize;
                     c_call := aggi_EvalAggregator_call |}.
Proof. exact (conj first_last_overloads_table first_last_methods). Qed.
Print Assumptions C12_source_first_last_census.

(* dispatch: for every datatype of the registry the live lookup of first / last returns First / Last; Inventory,
   Position and Amount are among the datatypes asked *)
Theorem C12_source_first_last_dispatch :
  forallb dispatch_ok first_last_dispatch = true /\
  forall name cls, (name = "first" /\ cls = "beanquery.query_env.First") \/ (name = "last" /\ cls = "beanquery.query_env.Last") ->
  In (name, "beancount.core.inventory.Inventory", cls) first_last_dispatch /\
  In (name, "beancount.core.position.Position", cls) first_last_dispatch /\
  In (name, "beancount.core.amount.Amount", cls) first_last_dispatch.
Proof. exact (conj first_last_dispatch_all first_last_dispatch_inventory_types). Qed.
Print Assumptions C12_source_first_last_dispatch.

(* initialize: None in the node's slot, nothing else changes *)
Theorem C12_source_first_last_initialize : forall (call_ref : nat -> list pv -> pv) (k : fl) (i kd ko : nat) (value : pv)
    (slots : list pv),
  (i < List.length slots)%nat ->
  call_method call_ref prims_agginv (c_initialize (fl_class k)) (inv_node i kd ko value) [PList slots] =
  Ok (inv_node i kd ko value, PList (set_nth i PNone slots)).
Proof. intros call_ref k i kd ko value slots. apply initialize_none_src. destruct k; auto. Qed.
Print Assumptions C12_source_first_last_initialize.

(* First.update: an occupied slot stays (the operand is NOT evaluated: no hypothesis about it then), an empty one takes
   the operand's value as it is *)
Theorem C12_source_first_last_update_first : forall (call_ref : nat -> list pv -> pv) (i kd ko : nat) (value : pv)
    (slots : list pv) (ctx : pv) (cur v : option operand),
  (i < List.length slots)%nat -> nth i slots PNone = enc_operand cur ->
  (cur = None -> call_ref ko [ctx] = enc_operand v) ->
  call_method call_ref prims_agginv aggi_First_update (inv_node i kd ko value) [PList slots; ctx] =
  Ok (inv_node i kd ko value, PList (set_nth i (enc_operand (first_step cur v)) slots)).
Proof. exact update_first_src. Qed.
Print Assumptions C12_source_first_last_update_first.

(* Last.update: the operand's value, always, as it is *)
Theorem C12_source_first_last_update_last : forall (call_ref : nat -> list pv -> pv) (i kd ko : nat) (value : pv)
    (slots : list pv) (ctx : pv) (cur v : option operand),
  (i < List.length slots)%nat -> call_ref ko [ctx] = enc_operand v ->
  call_method call_ref prims_agginv aggi_Last_update (inv_node i kd ko value) [PList slots; ctx] =
  Ok (inv_node i kd ko value, PList (set_nth i (enc_operand (last_step cur v)) slots)).
Proof. exact update_last_src. Qed.
Print Assumptions C12_source_first_last_update_last.

(* the fold over the rows of a group, both classes: initialize, update per row, finalize, __call__ *)
Theorem C12_source_first_last_fold : forall (call_ref : nat -> list pv -> pv) (k : fl) (i kd ko : nat) (value : pv)
    (slots : list pv) (ctxs : list pv) (ctx : pv) (vals : list (option operand)),
  (i < List.length slots)%nat -> operands_on call_ref ko ctxs vals ->
  run_group call_ref (fl_class k) (inv_node i kd ko value) (PList slots) ctxs ctx =
  Ok (inv_node i kd ko (enc_operand (fl_value k vals)),
      PList (set_nth i (enc_operand (fl_value k vals)) slots),
      enc_operand (fl_value k vals)).
Proof. exact first_last_fold_src. Qed.
Print Assumptions C12_source_first_last_fold.

(* what the folds are: the first non-NULL value / the value of the last row *)
Theorem C12_source_first_last_values : forall vals : list (option operand),
  first_value vals = first_some vals /\ last_value vals = last vals None.
Proof. intros vals. exact (conj (first_value_first_some vals) (last_value_last vals)). Qed.
Print Assumptions C12_source_first_last_values.

(* a non-empty group of inventories (the `balance` column, `sum`-able inventories of a subquery): first(inv) is the
   inventory of the first row, last(inv) that of the last row - the terms the correspondence of c12.py uses
   (`hd [] PS`, `last PS []`) *)
Theorem C12_source_first_last_first_inventory : forall (call_ref : nat -> list pv -> pv) (i kd ko : nat) (value : pv)
    (slots ctxs : list pv) (ctx : pv) (x : inventory) (l : list inventory),
  (i < List.length slots)%nat ->
  operands_on call_ref ko ctxs (map (fun i => Some (OInventory i)) (x :: l)) ->
  run_group call_ref class_First (inv_node i kd ko value) (PList slots) ctxs ctx =
  Ok (inv_node i kd ko (Inv.enc_inv (hd [] (x :: l))), PList (set_nth i (Inv.enc_inv (hd [] (x :: l))) slots),
      Inv.enc_inv (hd [] (x :: l))).
Proof. exact first_inventory_src. Qed.
Print Assumptions C12_source_first_last_first_inventory.

Theorem C12_source_first_last_last_inventory : forall (call_ref : nat -> list pv -> pv) (i kd ko : nat) (value : pv)
    (slots ctxs : list pv) (ctx : pv) (x : inventory) (l : list inventory),
  (i < List.length slots)%nat ->
  operands_on call_ref ko ctxs (map (fun i => Some (OInventory i)) (x :: l)) ->
  run_group call_ref class_Last (inv_node i kd ko value) (PList slots) ctxs ctx =
  Ok (inv_node i kd ko (Inv.enc_inv (last (x :: l) [])), PList (set_nth i (Inv.enc_inv (last (x :: l) [])) slots),
      Inv.enc_inv (last (x :: l) [])).
Proof. intros. rewrite last_cons. apply last_inventory_src; assumption. Qed.
Print Assumptions C12_source_first_last_last_inventory.

(* Non-vacuity: three rows whose operand values are NULL, an inventory, another inventory; slot 1 of three. *)
Example C12_source_first_last_example :
  let a := [((2, None), 5)] in
  let b := [((3, None), 7); ((2, None), 1)] in
  let vals := [None; Some (OInventory a); Some (OInventory b)] in
  let call_ref := fun (k : nat) (args : list pv) =>
    match k, args with
    | O, [PV (VInt n)] => enc_operand (nth (Z.to_nat n) vals None)
    | _, _ => PNone
    end in
  run_group call_ref class_First (inv_node 1 1 0 PNone) (PList [PInt 42; PInt 0; PInt 43]) [PInt 0; PInt 1; PInt 2] (PInt 2)
  = Ok (inv_node 1 1 0 (Inv.enc_inv a), PList [PInt 42; Inv.enc_inv a; PInt 43], Inv.enc_inv a)
  /\ run_group call_ref class_Last (inv_node 1 1 0 PNone) (PList [PInt 42; PInt 0; PInt 43]) [PInt 0; PInt 1; PInt 2] (PInt 2)
  = Ok (inv_node 1 1 0 (Inv.enc_inv b), PList [PInt 42; Inv.enc_inv b; PInt 43], Inv.enc_inv b)
  /\ operands_on call_ref 0 [PInt 0; PInt 1; PInt 2] vals.
Proof. vm_compute. repeat split; repeat constructor. Qed.
