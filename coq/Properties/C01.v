(* C01 Row-level evaluation: WHERE filtering, expression values and NULL semantics.
   Statements only; proofs in Proofs/EvalProofs.v. *)
From Coq Require Import ZArith List Bool.
Import ListNotations.
From Verif Require Import Base.PyValue Base.Decimal Model.Eval Model.Order Model.Exec Proofs.EvalProofs.
Open Scope Z_scope.

(* The executor's row loop yields exactly one output row per source row whose
   condition is true, in source order, each cell being the value of its target
   expression on that row alone. *)
Theorem C01_rows : forall (q : query) (rows : list row),
  scan_nonagg q [] rows = map (fun r => map (eval r []) (q_targets q)) (filter (passes q) rows).
Proof. exact scan_nonagg_spec. Qed.
Print Assumptions C01_rows.

Theorem C01_null_excluded : forall q r w, q_where q = Some w -> eval r [] w = VNull -> passes q r = false.
Proof. exact passes_null_excluded. Qed.
Print Assumptions C01_null_excluded.
Theorem C01_false_excluded : forall q r w, q_where q = Some w -> eval r [] w = VBool false -> passes q r = false.
Proof. exact passes_false_excluded. Qed.
Print Assumptions C01_false_excluded.
Theorem C01_true_included : forall q r w, q_where q = Some w -> eval r [] w = VBool true -> passes q r = true.
Proof. exact passes_true_included. Qed.
Print Assumptions C01_true_included.

Theorem C01_from_and_where : forall r st f w,
  truthy (eval r st (EAnd [f; w])) = truthy (eval r st f) && truthy (eval r st w).
Proof. exact and_two. Qed.
Print Assumptions C01_from_and_where.

(* NULL-strict node kinds: arithmetic, comparison, match (all EBinary), unary minus, BETWEEN, function calls, IN *)
Theorem C01_binary_null_l : forall r st op a b, eval r st a = VNull -> eval r st (EBinary op a b) = VNull.
Proof. exact binary_null_l. Qed.
Print Assumptions C01_binary_null_l.
Theorem C01_binary_null_r : forall r st op a b, eval r st b = VNull -> eval r st (EBinary op a b) = VNull.
Proof. exact binary_null_r. Qed.
Print Assumptions C01_binary_null_r.
Theorem C01_neg_null : forall r st a, eval r st a = VNull -> eval r st (EUnary UNeg a) = VNull.
Proof. exact neg_null. Qed.
Print Assumptions C01_neg_null.
Theorem C01_between_null : forall r st a lo hi,
  eval r st a = VNull \/ eval r st lo = VNull \/ eval r st hi = VNull -> eval r st (EBetween a lo hi) = VNull.
Proof. exact between_null. Qed.
Print Assumptions C01_between_null.
Theorem C01_func_null : forall r st f args a, In a args -> eval r st a = VNull -> eval r st (EFunc f args) = VNull.
Proof. exact func_null. Qed.
Print Assumptions C01_func_null.
Theorem C01_in_null : forall r st n a items, eval r st a = VNull -> eval r st (EIn n a items) = VNull.
Proof. exact in_null. Qed.
Print Assumptions C01_in_null.
Theorem C01_in_membership : forall r st n a l, eval r st a <> VNull ->
  eval r st (EIn n a (Some l)) = VBool (xorb n (existsb (val_eq (eval r st a)) l)).
Proof. exact in_membership. Qed.
Print Assumptions C01_in_membership.

(* division and modulo by zero (int or decimal zero) give NULL *)
Theorem C01_div_mod_zero : forall r st op a b na nb, op = BDiv \/ op = BDivInt \/ op = BMod ->
  as_num (eval r st a) = Some na -> as_num (eval r st b) = Some nb -> num_is_zero nb = true ->
  eval r st (EBinary op a b) = VNull.
Proof. exact div_zero. Qed.
Print Assumptions C01_div_mod_zero.

(* int/decimal mixes promote to decimal; int/int division is decimal; other int/int stay int *)
Theorem C01_promotion : forall op a d, op = BAdd \/ op = BSub \/ op = BMul ->
  is_dec (bin op (VInt a) (VDec d)) = true /\ is_dec (bin op (VDec d) (VInt a)) = true.
Proof. exact promotion_int_dec. Qed.
Print Assumptions C01_promotion.
Theorem C01_promotion_mod : forall a d, dcoef d <> 0 -> a <> 0 ->
  is_dec (bin BMod (VInt a) (VDec d)) = true /\ is_dec (bin BMod (VDec d) (VInt a)) = true.
Proof. exact promotion_mod. Qed.
Print Assumptions C01_promotion_mod.
Theorem C01_int_div_is_decimal : forall a b, b <> 0 ->
  bin BDivInt (VInt a) (VInt b) = VDec (dec_div (dec_of_Z a) (dec_of_Z b)).
Proof. exact int_div_is_decimal. Qed.
Print Assumptions C01_int_div_is_decimal.
Theorem C01_int_int_stays_int : forall a b,
  bin BAdd (VInt a) (VInt b) = VInt (a + b) /\ bin BSub (VInt a) (VInt b) = VInt (a - b)
  /\ bin BMul (VInt a) (VInt b) = VInt (a * b) /\ (b <> 0 -> bin BMod (VInt a) (VInt b) = VInt (a mod b)).
Proof. exact int_int_stays_int. Qed.
Print Assumptions C01_int_int_stays_int.

(* NULL-aware truth tables: the evaluation loops equal the declarative tables *)
Theorem C01_and_table : forall r st args, eval r st (EAnd args) = and_spec (map (eval r st) args).
Proof. exact and_table. Qed.
Print Assumptions C01_and_table.
Theorem C01_or_table : forall r st args, eval r st (EOr args) = or_spec (map (eval r st) args).
Proof. exact or_table. Qed.
Print Assumptions C01_or_table.
Theorem C01_not_null_is_true : forall r st a, eval r st a = VNull -> eval r st (EUnary UNot a) = VBool true.
Proof. exact not_null_is_true. Qed.
Print Assumptions C01_not_null_is_true.
Theorem C01_not_table : forall r st a, eval r st (EUnary UNot a) = VBool (negb (truthy (eval r st a))).
Proof. exact not_table. Qed.
Print Assumptions C01_not_table.
Theorem C01_isnull_table : forall r st a,
  eval r st (EUnary UIsNull a) = VBool (is_null (eval r st a))
  /\ eval r st (EUnary UIsNotNull a) = VBool (negb (is_null (eval r st a))).
Proof. exact isnull_table. Qed.
Print Assumptions C01_isnull_table.
Theorem C01_coalesce_table : forall r st args, eval r st (ECoalesce args) = coalesce_spec (map (eval r st) args).
Proof. exact coalesce_table. Qed.
Print Assumptions C01_coalesce_table.

Theorem C01_and_stops_at_first_null_or_false : forall r st pre a post,
  Forall (fun e => truthy (eval r st e) = true) pre ->
  (eval r st a = VNull -> eval r st (EAnd (pre ++ a :: post)) = VNull)
  /\ (is_null (eval r st a) = false -> truthy (eval r st a) = false ->
      eval r st (EAnd (pre ++ a :: post)) = VBool false).
Proof. exact and_stops_at_first_null_or_false. Qed.
Print Assumptions C01_and_stops_at_first_null_or_false.
Theorem C01_or_true_if_any_true : forall r st args a,
  In a args -> truthy (eval r st a) = true -> eval r st (EOr args) = VBool true.
Proof. exact or_true_if_any_true. Qed.
Print Assumptions C01_or_true_if_any_true.
Theorem C01_or_null_if_none_true_some_null : forall r st args a,
  Forall (fun e => truthy (eval r st e) = false) args -> In a args -> eval r st a = VNull ->
  eval r st (EOr args) = VNull.
Proof. exact or_null_if_none_true_some_null. Qed.
Print Assumptions C01_or_null_if_none_true_some_null.

(* non-vacuity: NULL AND FALSE is NULL (first NULL decides), FALSE AND NULL is FALSE, NULL OR TRUE is TRUE *)
Example C01_examples :
  eval [] [] (EAnd [EConst VNull; EConst (VBool false)]) = VNull
  /\ eval [] [] (EAnd [EConst (VBool false); EConst VNull]) = VBool false
  /\ eval [] [] (EOr [EConst VNull; EConst (VBool true)]) = VBool true
  /\ eval [] [] (EOr [EConst VNull; EConst (VBool false)]) = VNull
  /\ eval [VInt 7; VInt 0] [] (EBinary BDivInt (ECol 0) (ECol 1)) = VNull
  /\ eval [VInt 7; VInt 2] [] (EBinary BDivInt (ECol 0) (ECol 1)) = VDec (mkdec false 35 (-1)).
Proof. vm_compute. repeat split. Qed.
