(* C01 Row-level evaluation: WHERE filtering, expression values and NULL semantics.
   Statements only; proofs in Proofs/EvalProofs.v. *)
From Coq Require Import ZArith List Bool.
Import ListNotations.
From Verif Require Import Base.PyValue Base.Decimal Model.Eval Model.Order Model.Exec Proofs.EvalProofs.
From Verif Require Model.PrimsExec Gen.SrcExec Proofs.SrcExec.  (* imported before C01_source_row_loop *)
From Verif Require Model.Dates Model.StrFuncs Model.PrimsEnv Gen.SrcEnv Proofs.TypingProofs Proofs.EvalLibProofs.  (* imported at the end *)
Open Scope Z_scope.

(* The executor's row loop yields exactly one output row per source row whose
   condition is true, in source order, each cell being the value of its target
   expression on that row alone. *)
Theorem C01_rows : forall (q : query) (rows : list row),
  scan_nonagg q [] rows = map (fun r => map (eval r []) (q_targets q)) (filter (passes q) rows).
Proof. exact scan_nonagg_spec. Qed.
Print Assumptions C01_rows.

Theorem C01_null_excluded : forall q r w, q_where q = Some w -> eval r [] w = VNull -> passes q r = false.
Proof. exact passes_null_excluded. Qed.
Print Assumptions C01_null_excluded.
Theorem C01_false_excluded : forall q r w, q_where q = Some w -> eval r [] w = VBool false -> passes q r = false.
Proof. exact passes_false_excluded. Qed.
Print Assumptions C01_false_excluded.
Theorem C01_true_included : forall q r w, q_where q = Some w -> eval r [] w = VBool true -> passes q r = true.
Proof. exact passes_true_included. Qed.
Print Assumptions C01_true_included.

Theorem C01_from_and_where : forall r st f w,
  truthy (eval r st (EAnd [f; w])) = truthy (eval r st f) && truthy (eval r st w).
Proof. exact and_two. Qed.
Print Assumptions C01_from_and_where.

(* NULL-strict node kinds: arithmetic, comparison, match (all EBinary), unary minus, BETWEEN, function calls, IN *)
Theorem C01_binary_null_l : forall r st op a b, eval r st a = VNull -> eval r st (EBinary op a b) = VNull.
Proof. exact binary_null_l. Qed.
Print Assumptions C01_binary_null_l.
Theorem C01_binary_null_r : forall r st op a b, eval r st b = VNull -> eval r st (EBinary op a b) = VNull.
Proof. exact binary_null_r. Qed.
Print Assumptions C01_binary_null_r.
Theorem C01_neg_null : forall r st a, eval r st a = VNull -> eval r st (EUnary UNeg a) = VNull.
Proof. exact neg_null. Qed.
Print Assumptions C01_neg_null.
Theorem C01_between_null : forall r st a lo hi,
  eval r st a = VNull \/ eval r st lo = VNull \/ eval r st hi = VNull -> eval r st (EBetween a lo hi) = VNull.
Proof. exact between_null. Qed.
Print Assumptions C01_between_null.
Theorem C01_func_null : forall r st f args a, In a args -> eval r st a = VNull -> eval r st (EFunc f args) = VNull.
Proof. exact func_null. Qed.
Print Assumptions C01_func_null.
Theorem C01_in_null : forall r st n a items, eval r st a = VNull -> eval r st (EIn n a items) = VNull.
Proof. exact in_null. Qed.
Print Assumptions C01_in_null.
Theorem C01_in_membership : forall r st n a l, eval r st a <> VNull ->
  eval r st (EIn n a (Some l)) = VBool (xorb n (existsb (val_eq (eval r st a)) l)).
Proof. exact in_membership. Qed.
Print Assumptions C01_in_membership.

(* division and modulo by zero (int or decimal zero) give NULL *)
Theorem C01_div_mod_zero : forall r st op a b na nb, op = BDiv \/ op = BDivInt \/ op = BMod ->
  as_num (eval r st a) = Some na -> as_num (eval r st b) = Some nb -> num_is_zero nb = true ->
  eval r st (EBinary op a b) = VNull.
Proof. exact div_zero. Qed.
Print Assumptions C01_div_mod_zero.

(* int/decimal mixes promote to decimal; int/int division is decimal; other int/int stay int *)
Theorem C01_promotion : forall op a d, op = BAdd \/ op = BSub \/ op = BMul ->
  is_dec (bin op (VInt a) (VDec d)) = true /\ is_dec (bin op (VDec d) (VInt a)) = true.
Proof. exact promotion_int_dec. Qed.
Print Assumptions C01_promotion.
Theorem C01_promotion_mod : forall a d, dcoef d <> 0 -> a <> 0 ->
  is_dec (bin BMod (VInt a) (VDec d)) = true /\ is_dec (bin BMod (VDec d) (VInt a)) = true.
Proof. exact promotion_mod. Qed.
Print Assumptions C01_promotion_mod.
Theorem C01_int_div_is_decimal : forall a b, b <> 0 ->
  bin BDivInt (VInt a) (VInt b) = VDec (dec_div (dec_of_Z a) (dec_of_Z b)).
Proof. exact int_div_is_decimal. Qed.
Print Assumptions C01_int_div_is_decimal.
Theorem C01_int_int_stays_int : forall a b,
  bin BAdd (VInt a) (VInt b) = VInt (a + b) /\ bin BSub (VInt a) (VInt b) = VInt (a - b)
  /\ bin BMul (VInt a) (VInt b) = VInt (a * b) /\ (b <> 0 -> bin BMod (VInt a) (VInt b) = VInt (a mod b)).
Proof. exact int_int_stays_int. Qed.
Print Assumptions C01_int_int_stays_int.

(* NULL-aware truth tables: the evaluation loops equal the declarative tables *)
Theorem C01_and_table : forall r st args, eval r st (EAnd args) = and_spec (map (eval r st) args).
Proof. exact and_table. Qed.
Print Assumptions C01_and_table.
Theorem C01_or_table : forall r st args, eval r st (EOr args) = or_spec (map (eval r st) args).
Proof. exact or_table. Qed.
Print Assumptions C01_or_table.
Theorem C01_not_null_is_true : forall r st a, eval r st a = VNull -> eval r st (EUnary UNot a) = VBool true.
Proof. exact not_null_is_true. Qed.
Print Assumptions C01_not_null_is_true.
Theorem C01_not_table : forall r st a, eval r st (EUnary UNot a) = VBool (negb (truthy (eval r st a))).
Proof. exact not_table. Qed.
Print Assumptions C01_not_table.
Theorem C01_isnull_table : forall r st a,
  eval r st (EUnary UIsNull a) = VBool (is_null (eval r st a))
  /\ eval r st (EUnary UIsNotNull a) = VBool (negb (is_null (eval r st a))).
Proof. exact isnull_table. Qed.
Print Assumptions C01_isnull_table.
Theorem C01_coalesce_table : forall r st args, eval r st (ECoalesce args) = coalesce_spec (map (eval r st) args).
Proof. exact coalesce_table. Qed.
Print Assumptions C01_coalesce_table.

Theorem C01_and_stops_at_first_null_or_false : forall r st pre a post,
  Forall (fun e => truthy (eval r st e) = true) pre ->
  (eval r st a = VNull -> eval r st (EAnd (pre ++ a :: post)) = VNull)
  /\ (is_null (eval r st a) = false -> truthy (eval r st a) = false ->
      eval r st (EAnd (pre ++ a :: post)) = VBool false).
Proof. exact and_stops_at_first_null_or_false. Qed.
Print Assumptions C01_and_stops_at_first_null_or_false.
Theorem C01_or_true_if_any_true : forall r st args a,
  In a args -> truthy (eval r st a) = true -> eval r st (EOr args) = VBool true.
Proof. exact or_true_if_any_true. Qed.
Print Assumptions C01_or_true_if_any_true.
Theorem C01_or_null_if_none_true_some_null : forall r st args a,
  Forall (fun e => truthy (eval r st e) = false) args -> In a args -> eval r st a = VNull ->
  eval r st (EOr args) = VNull.
Proof. exact or_null_if_none_true_some_null. Qed.
Print Assumptions C01_or_null_if_none_true_some_null.

(* non-vacuity: NULL AND FALSE is NULL (first NULL decides), FALSE AND NULL is FALSE, NULL OR TRUE is TRUE *)
Example C01_examples :
  eval [] [] (EAnd [EConst VNull; EConst (VBool false)]) = VNull
  /\ eval [] [] (EAnd [EConst (VBool false); EConst VNull]) = VBool false
  /\ eval [] [] (EOr [EConst VNull; EConst (VBool true)]) = VBool true
  /\ eval [] [] (EOr [EConst VNull; EConst (VBool false)]) = VNull
  /\ eval [VInt 7; VInt 0] [] (EBinary BDivInt (ECol 0) (ECol 1)) = VNull
  /\ eval [VInt 7; VInt 2] [] (EBinary BDivInt (ECol 0) (ECol 1)) = VDec (mkdec false 35 (-1)).
Proof. vm_compute. repeat split. Qed.

From Coq Require Import String.
Open Scope list_scope.
From Verif Require Import Model.PyMini Gen.SrcEval Proofs.SrcEval.
Notation meval := Verif.Model.Eval.eval.

(* ---- Tie by translation (re-checked on every run against the CURRENT source of beanquery/query_compile.py and
   query_env.py).  Gen/SrcEval.v holds the PyMini translation, made by harness/vf/py2mini.py from inspect.getsource of
   the imported classes, of the __call__ method of every evaluation node class and of the NULL-strict wrapper
   query_env.function() puts around each of the 103 plain scalar functions.  Interpreting a translated __call__ on a
   node whose children are opaque callables returning the values Model/Eval.v's [eval] assigns to the child nodes
   (hypothesis [child]: call_ref k [ctx] = meval r st a, not an exception) yields the value of the corresponding clause
   of [eval], for every operand list and all operand values.  All theorems above are stated over [eval]. *)
Theorem C01_source_unary : forall call_ref prim ctx r st op k kop a,
  op = UNot \/ op = UIsNull \/ op = UIsNotNull ->
  child call_ref ctx r st k a -> (forall x, call_ref kop [PV x] = PV (un op x)) ->
  let flds := [("operand", PRef k); ("operator", PRef kop)]%string in
  call_method call_ref prim node_unary flds [ctx] = expect flds (meval r st (EUnary op a)).
Proof. exact node_unary_src. Qed.
Print Assumptions C01_source_unary.

Theorem C01_source_unary_strict : forall call_ref prim ctx r st k kop a,
  child call_ref ctx r st k a -> (forall x, is_null x = false -> call_ref kop [PV x] = PV (un UNeg x)) ->
  let flds := [("operand", PRef k); ("operator", PRef kop)]%string in
  call_method call_ref prim node_unary_safe flds [ctx] = expect flds (meval r st (EUnary UNeg a)).
Proof. exact node_unary_safe_src. Qed.
Print Assumptions C01_source_unary_strict.

Theorem C01_source_binary : forall call_ref prim ctx r st op ka kb kop a b,
  child call_ref ctx r st ka a -> child call_ref ctx r st kb b ->
  (forall x y, is_null x = false -> is_null y = false -> call_ref kop [PV x; PV y] = PV (bin op x y)) ->
  let flds := [("left", PRef ka); ("right", PRef kb); ("operator", PRef kop)]%string in
  call_method call_ref prim node_binary flds [ctx] = expect flds (meval r st (EBinary op a b)).
Proof. exact node_binary_src. Qed.
Print Assumptions C01_source_binary.

Theorem C01_source_between : forall call_ref prim ctx r st k kl kh a lo hi,
  child call_ref ctx r st k a -> child call_ref ctx r st kl lo -> child call_ref ctx r st kh hi ->
  (is_null (meval r st a) = false -> is_null (meval r st lo) = false -> is_null (meval r st hi) = false ->
   rank (meval r st lo) = rank (meval r st a) /\ rank (meval r st a) = rank (meval r st hi)) ->
  let flds := [("operand", PRef k); ("lower", PRef kl); ("upper", PRef kh)]%string in
  call_method call_ref prim node_between flds [ctx] = expect flds (meval r st (EBetween a lo hi)).
Proof. exact node_between_src. Qed.
Print Assumptions C01_source_between.

Theorem C01_source_and : forall call_ref prim ctx r st ks args,
  children call_ref ctx r st ks args ->
  let flds := [("args", PList (map PRef ks))]%string in
  call_method call_ref prim node_and flds [ctx] = Ok (flds, PV (meval r st (EAnd args))).
Proof. exact node_and_src. Qed.
Print Assumptions C01_source_and.

Theorem C01_source_or : forall call_ref prim ctx r st ks args,
  children call_ref ctx r st ks args ->
  let flds := [("args", PList (map PRef ks))]%string in
  call_method call_ref prim node_or flds [ctx] = Ok (flds, PV (meval r st (EOr args))).
Proof. exact node_or_src. Qed.
Print Assumptions C01_source_or.

Theorem C01_source_coalesce : forall call_ref prim ctx r st ks args,
  children call_ref ctx r st ks args ->
  let flds := [("args", PList (map PRef ks))]%string in
  call_method call_ref prim node_coalesce flds [ctx] = Ok (flds, PV (meval r st (ECoalesce args))).
Proof. exact node_coalesce_src. Qed.
Print Assumptions C01_source_coalesce.

(* the wrapper of a plain scalar function f(x1..xn): NULL if any argument is NULL, else f's value; opaque callable 0
   is the wrapped function (refs table of Gen/SrcEval.v: "closure:func") *)
Theorem C01_source_function_wrapper : forall call_ref prim ctx r st f ks args c,
  children call_ref ctx r st ks args ->
  call_ref 0%nat (map PV (map (meval r st) args)) = PV (apply_func f (map (meval r st) args)) ->
  call_method call_ref prim func_wrapper_plain (wrapper_fields ks c) [ctx] =
  expect (wrapper_fields ks c) (meval r st (EFunc f args)).
Proof. exact func_wrapper_plain_src. Qed.
Print Assumptions C01_source_function_wrapper.

(* the same wrapper for functions that also receive the row (pass_row) or the table context (pass_context):
   the extra first argument does not weaken NULL-strictness *)
Theorem C01_source_function_wrapper_row : forall call_ref prim ctx r st ks args c,
  children call_ref ctx r st ks args -> forall g : list pv -> value,
  call_ref 0%nat (ctx :: map PV (map (meval r st) args)) = PV (g (map PV (map (meval r st) args))) ->
  call_method call_ref prim func_wrapper_row (wrapper_fields ks c) [ctx] =
  expect (wrapper_fields ks c)
    (if existsb is_null (map (meval r st) args) then VNull else g (map PV (map (meval r st) args))).
Proof. exact func_wrapper_row_src. Qed.
Print Assumptions C01_source_function_wrapper_row.

Theorem C01_source_function_wrapper_context : forall call_ref prim ctx r st ks args c,
  children call_ref ctx r st ks args -> forall g : list pv -> value,
  call_ref 0%nat (c :: map PV (map (meval r st) args)) = PV (g (map PV (map (meval r st) args))) ->
  call_method call_ref prim func_wrapper_context (wrapper_fields ks c) [ctx] =
  expect (wrapper_fields ks c)
    (if existsb is_null (map (meval r st) args) then VNull else g (map PV (map (meval r st) args))).
Proof. exact func_wrapper_context_src. Qed.
Print Assumptions C01_source_function_wrapper_context.

(* Non-vacuity: the translated EvalOr.__call__ run on three children returning FALSE, NULL, FALSE gives NULL. *)
Example C01_source_example :
  call_method (fun k _ => match k with 1%nat => PV VNull | _ => PV (VBool false) end) (fun _ _ => Stuck) node_or
    [("args", PList [PRef 0; PRef 1; PRef 2])]%string [PNone]
  = Ok ([("args", PList [PRef 0; PRef 1; PRef 2])]%string, PV VNull).
Proof. reflexivity. Qed.

(* ---------------------------------------------------------------------------------------------------------------
   Tie by translation, executor side: Gen/SrcExec.v's exec_row_loop is regenerated on every run from the SOURCE of
   query_execute.execute_select (the then-branch of `if query.group_indexes is None:`, selected by structure).
   Run on any table, with the WHERE condition and the targets as opaque callables that behave as the model's
   expressions, it leaves in `rows` exactly Exec.scan_nonagg: one list of target values per row that passes WHERE,
   in table order. *)
Import Verif.Model.PrimsExec Verif.Gen.SrcExec Verif.Proofs.SrcExec.

Theorem C01_source_row_loop : forall (call_ref : nat -> list pv -> pv) (prim : string -> list pv -> PyMini.res pv)
    (ctx_of : row -> pv) (q : query) (ks : list nat) (cw qobj : pv) (table acc : list row),
  qobj <> PSelf -> prim "attr:table"%string [qobj] = Ok (PList (map ctx_of table)) ->
  where_ref call_ref ctx_of q table cw ->
  (forall r, In r table -> Forall2 (child_on call_ref ctx_of r) ks (q_targets q)) ->
  exists s',
    PyMini.exec_block call_ref prim
      {| locals := [("query", qobj); ("c_where", cw); ("c_target_exprs", PList (map PRef ks));
                    ("rows", PList (map rowl_pv acc))]%string; fields := [] |} (f_body exec_row_loop) = Ok (Next s') /\
    lookup "rows"%string (locals s') = Some (PList (map rowl_pv (scan_nonagg q acc table))).
Proof. exact row_loop_src. Qed.
Print Assumptions C01_source_row_loop.

(* Non-vacuity: the translated loop run by the interpreter on a 3-row table, WHERE = column 1, targets = column 0 and
   the constant 7 (opaque callables 0, 1, 2 read the context, which is the row itself). *)
Example C01_source_row_loop_example :
  let cr : nat -> list pv -> pv := fun k args =>
    match k, args with
    | 0%nat, [PList l] => nth 1 l PNone
    | 1%nat, [PList l] => nth 0 l PNone
    | _, _ => PInt 7
    end in
  match PyMini.exec_block cr (prims_exec cr exec_nig_single exec_nig_multi 1)
          {| locals := [("query", query_obj (PList (map rowl_pv [[VInt 1; VBool true]; [VInt 2; VNull]; [VInt 3; VBool true]]))
                                            (PBool false) PNone);
                        ("c_where", PRef 0); ("c_target_exprs", PList [PRef 1; PRef 2]); ("rows", PList [])]%string;
             fields := [] |} (f_body exec_row_loop) with
  | Ok (Next s') => lookup "rows"%string (locals s')
  | _ => None
  end = Some (PList [rowl_pv [VInt 1; VInt 7]; rowl_pv [VInt 3; VInt 7]]).
Proof. vm_compute. reflexivity. Qed.

(* ---------------------------------------------------------------------------------------------------------------
   The scalar LIBRARY inside the expression model.  Eval.func / Eval.apply_func carry, besides the ten functions
   above, the library modelled for C18 (Model/Dates.v, Model/StrFuncs.v): 26 more constructors, each clause calling
   the model function the C18 theorems are stated over.  Every EFunc node - whatever the function - is NULL as soon
   as one argument is NULL (the wrapper query_env.function() puts around every plain function, tied to the source by
   C01_source_function_wrapper above), and is otherwise the library function applied to the argument values. *)
Import Verif.Proofs.EvalLibProofs.

Theorem C01_library_null_strict : forall r st f args,
  existsb is_null (map (meval r st) args) = true -> meval r st (EFunc f args) = VNull.
Proof. exact efunc_null_strict. Qed.
Print Assumptions C01_library_null_strict.

Theorem C01_library_call : forall r st f args,
  existsb is_null (map (meval r st) args) = false -> meval r st (EFunc f args) = apply_func f (map (meval r st) args).
Proof. exact efunc_call. Qed.
Print Assumptions C01_library_call.

(* "whatever the function": the 36 constructors, none missing from the enumeration the typing table of C04 ranges over *)
Theorem C01_library_functions : forall f, In f
  [FAbs; FNeg; FSafediv; FLength; FUpper; FLower; FBool; FIntOfDec; FDecOfInt; FSubstr;
   FYear; FMonth; FDay; FYearmonth; FQuarter; FWeekday; FDateAdd; FDateDiff; FDateTrunc; FDatePart; FDateBin; FDateYmd; FDate;
   FStr; FInt; FDecimal; FSplitcomp; FMaxwidth; FRoot; FRoot1; FParent; FLeaf; FRoundInt; FRoundInt1; FRoundDec; FRoundDec1].
Proof. exact all_func_complete. Qed.
Print Assumptions C01_library_functions.

(* each library clause is the C18 model function ([lib] / [lib_x] shift the library's exception kinds by
   Eval.LibError and turn a special Decimal, which [value] cannot hold, into the kind Eval.Unmodelled) *)
Theorem C01_library_clauses :
  (forall o, apply_func FYear [VDate o] = lib (Dates.f_year o))
  /\ (forall o, apply_func FMonth [VDate o] = lib (Dates.f_month o))
  /\ (forall o, apply_func FDay [VDate o] = lib (Dates.f_day o))
  /\ (forall o, apply_func FYearmonth [VDate o] = lib (Dates.f_yearmonth o))
  /\ (forall o, apply_func FQuarter [VDate o] = lib (Dates.f_quarter o))
  /\ (forall o, apply_func FWeekday [VDate o] = lib (Dates.f_weekday o))
  /\ (forall o n, apply_func FDateAdd [VDate o; VInt n] = lib (Dates.date_add o n))
  /\ (forall x y, apply_func FDateDiff [VDate x; VDate y] = lib (Dates.date_diff x y))
  /\ (forall f o, apply_func FDateTrunc [VStr f; VDate o] = lib (Dates.date_trunc f o))
  /\ (forall f o, apply_func FDatePart [VStr f; VDate o] = lib (Dates.date_part f o))
  /\ (forall s d o, apply_func FDateBin [VStr s; VDate d; VDate o] = lib (Dates.date_bin s d o))
  /\ (forall y m d, apply_func FDateYmd [VInt y; VInt m; VInt d] = lib (StrFuncs.cast_date3 y m d))
  /\ (forall v, apply_func FDate [v] = lib_x (StrFuncs.cast_date (StrFuncs.XV v)))
  /\ (forall v, apply_func FStr [v] = lib_x (StrFuncs.cast_str (StrFuncs.XV v)))
  /\ (forall v, apply_func FInt [v] = lib_x (StrFuncs.cast_int (StrFuncs.XV v)))
  /\ (forall v, apply_func FDecimal [v] = lib_x (StrFuncs.cast_decimal (StrFuncs.XV v)))
  /\ (forall s d i, apply_func FSplitcomp [VStr s; VStr d; VInt i] = lib (StrFuncs.f_splitcomp s d i))
  /\ (forall s n, apply_func FMaxwidth [VStr s; VInt n] = lib (StrFuncs.f_maxwidth s n))
  /\ (forall a n, apply_func FRoot [VStr a; VInt n] = lib (StrFuncs.f_root a n))
  /\ (forall a, apply_func FRoot1 [VStr a] = lib (StrFuncs.f_root a 1))
  /\ (forall a, apply_func FParent [VStr a] = lib (StrFuncs.f_parent a))
  /\ (forall a, apply_func FLeaf [VStr a] = lib (StrFuncs.f_leaf a))
  /\ (forall z n, apply_func FRoundInt [VInt z; VInt n] = lib (StrFuncs.f_round_int z n))
  /\ (forall z, apply_func FRoundInt1 [VInt z] = lib (StrFuncs.f_round_int z 0))
  /\ (forall d n, apply_func FRoundDec [VDec d; VInt n] = lib (StrFuncs.f_round_dec d n))
  /\ (forall d, apply_func FRoundDec1 [VDec d] = lib (StrFuncs.f_round_dec d 0)).
Proof. exact library_clauses. Qed.
Print Assumptions C01_library_clauses.

Theorem C01_library_kinds_shifted : forall v k, lib v = VErr k <-> exists k', v = VErr k' /\ k = LibError + k'.
Proof. exact lib_err. Qed.
Print Assumptions C01_library_kinds_shifted.

(* on the functions that cannot raise, the value of the node is exactly the C18 function's *)
Theorem C01_library_total_values :
  (forall o, apply_func FYear [VDate o] = VInt (Dates.year_of o))
  /\ (forall o, apply_func FMonth [VDate o] = VInt (Dates.month_of o))
  /\ (forall o, apply_func FDay [VDate o] = VInt (Dates.day_of o))
  /\ (forall o, apply_func FQuarter [VDate o] = Dates.f_quarter o)
  /\ (forall o, apply_func FWeekday [VDate o] = Dates.f_weekday o)
  /\ (forall x y, apply_func FDateDiff [VDate x; VDate y] = VInt (x - y))
  /\ (forall f o, apply_func FDatePart [VStr f; VDate o] = Dates.date_part f o)
  /\ (forall y m d, apply_func FDateYmd [VInt y; VInt m; VInt d] = StrFuncs.cast_date3 y m d)
  /\ (forall s, apply_func FDate [VStr s] = StrFuncs.parse_date s)
  /\ (forall a n, apply_func FRoot [VStr a; VInt n] = StrFuncs.f_root a n)
  /\ (forall a, apply_func FParent [VStr a] = StrFuncs.f_parent a)
  /\ (forall a, apply_func FLeaf [VStr a] = StrFuncs.f_leaf a)
  /\ (forall z n, apply_func FRoundInt [VInt z; VInt n] = StrFuncs.f_round_int z n).
Proof. exact library_total_values. Qed.
Print Assumptions C01_library_total_values.

(* ... and what the CURRENT source of the registered Python function computes (Gen/SrcEnv.v, regenerated on every
   run; Proofs/SrcEnv.v): the translated body, interpreted on the argument values, returns the value of the node *)
Import Verif.Model.PrimsEnv Verif.Gen.SrcEnv.

Theorem C01_library_source_dates : forall (call_ref : nat -> list pv -> pv),
  (forall o, call_function call_ref prim_env env_year [PV (VDate o)] = lift (apply_func FYear [VDate o]))
  /\ (forall o, call_function call_ref prim_env env_month [PV (VDate o)] = lift (apply_func FMonth [VDate o]))
  /\ (forall o, call_function call_ref prim_env env_day [PV (VDate o)] = lift (apply_func FDay [VDate o]))
  /\ (forall o, Dates.valid_ord o = true ->
        call_function call_ref prim_env env_quarter [PV (VDate o)] = lift (apply_func FQuarter [VDate o]))
  /\ (forall o, call_function call_ref prim_env env_weekday [PV (VDate o)] = lift (apply_func FWeekday [VDate o]))
  /\ (forall x y, call_function call_ref prim_env env_date_diff [PV (VDate x); PV (VDate y)]
                  = lift (apply_func FDateDiff [VDate x; VDate y]))
  /\ (forall f o, call_function call_ref prim_env env_date_part [pstr f; PV (VDate o)]
                  = lift (apply_func FDatePart [VStr f; VDate o]))
  /\ (forall y m d, call_function call_ref prim_env env_date_from_ymd [PInt y; PInt m; PInt d]
                    = lift (apply_func FDateYmd [VInt y; VInt m; VInt d])).
Proof.
  intros call_ref.
  exact (conj (year_apply_func call_ref) (conj (month_apply_func call_ref) (conj (day_apply_func call_ref)
        (conj (quarter_apply_func call_ref) (conj (weekday_apply_func call_ref) (conj (date_diff_apply_func call_ref)
        (conj (date_part_apply_func call_ref) (date_ymd_apply_func call_ref)))))))).
Qed.
Print Assumptions C01_library_source_dates.

Theorem C01_library_source_accounts_round : forall (call_ref : nat -> list pv -> pv),
  (forall a n, call_function call_ref prim_env env_root [pstr a; PInt n] = lift (apply_func FRoot [VStr a; VInt n]))
  /\ env_root_defaults = [XConst (PInt 1)]          (* root(a) = root(a, 1): the FRoot1 clause *)
  /\ (forall a, call_function call_ref prim_env env_parent [pstr a] = lift (apply_func FParent [VStr a]))
  /\ (forall a, call_function call_ref prim_env env_leaf [pstr a] = lift (apply_func FLeaf [VStr a]))
  /\ (forall z n, call_function call_ref prim_env env_round [PInt z; PInt n] = lift (apply_func FRoundInt [VInt z; VInt n]))
  /\ env_round_defaults = [XConst (PInt 0)].        (* round(z) = round(z, 0): the FRoundInt1 clause *)
Proof.
  intros call_ref.
  exact (conj (root_apply_func call_ref) (conj root1_default (conj (parent_apply_func call_ref)
        (conj (leaf_apply_func call_ref) (conj (round_int_apply_func call_ref) round1_default))))).
Qed.
Print Assumptions C01_library_source_accounts_round.

(* casts: every BQL value that is neither NULL (the wrapper returns before the call) nor an exception *)
Theorem C01_library_source_casts : forall (call_ref : nat -> list pv -> pv),
  (forall v, arg_ok v -> call_function call_ref prim_env env_str [PV v] = lift (apply_func FStr [v]))
  /\ (forall v, arg_ok v -> call_function call_ref prim_env env_int [PV v] = lift (apply_func FInt [v]))
  /\ (forall v, arg_ok v -> call_function call_ref prim_env env_date [PV v] = lift (apply_func FDate [v]))
  /\ (forall v, (exists b, v = VBool b) \/ (exists d, v = VDec d) ->
        call_function call_ref prim_env env_decimal [PV v] = lift (apply_func FDecimal [v])).
Proof.
  intros call_ref.
  exact (conj (str_apply_func call_ref) (conj (int_apply_func call_ref) (conj (date_apply_func call_ref)
        (decimal_apply_func call_ref)))).
Qed.
Print Assumptions C01_library_source_casts.

(* non-vacuity: length(str(date_part('year', d))) + year(NULL-free d) on a row, a NULL argument, a raising clause *)
Example C01_library_example :
  meval [VDate 737425] [] (EFunc FLength [EFunc FStr [EFunc FDatePart [EConst (VStr [121; 101; 97; 114]); ECol 0]]]) = VInt 4
  /\ meval [VNull] [] (EFunc FYear [ECol 0]) = VNull
  /\ meval [VDate 737425; VInt 2] [] (EFunc FDateYmd [EFunc FYear [ECol 0]; ECol 1; EConst (VInt 30)]) = VNull
  /\ meval [VDate 3652059] [] (EFunc FDateAdd [ECol 0; EConst (VInt 1)]) = VErr (LibError + 2)
  /\ arg_ok (VStr [49; 50]).
Proof. repeat split; try reflexivity; intros; discriminate. Qed.
