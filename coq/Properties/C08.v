(* C08 Subqueries compose. Statements only; proofs in Proofs/SubqueryProofs.v (+ EvalProofs.v). *)
From Coq Require Import ZArith List Bool.
Import ListNotations.
From Verif Require Import Base.PyValue Model.Eval Model.Order Model.Exec Model.Subquery
     Proofs.EvalProofs Proofs.SubqueryProofs.
Open Scope nat_scope.

(* FROM (subquery): the outer query sees exactly the subquery's visible result rows *)
Theorem C08_from_materialised : forall q s, rows_of (SSub q s) = exec q (rows_of s).
Proof. exact from_materialised. Qed.
Print Assumptions C08_from_materialised.

(* at any nesting depth *)
Theorem C08_nesting : forall qs s, rows_of (fold_right SSub s qs) = fold_right exec (rows_of s) qs.
Proof. exact nested_materialised. Qed.
Print Assumptions C08_nesting.

(* every result row has exactly one value per visible target, so the subquery table is rectangular *)
Theorem C08_result_width : forall q t, Forall (fun r => length r = length (q_vis q)) (exec q t).
Proof. exact exec_width. Qed.
Print Assumptions C08_result_width.

(* SELECT * FROM (q) returns q's rows unchanged (distinct inner names: one positional accessor per column) *)
Theorem C08_star_identity : forall n rows, Forall (fun r => length r = n) rows -> exec (star n) rows = rows.
Proof. exact star_identity. Qed.
Print Assumptions C08_star_identity.
Theorem C08_star_over_subquery : forall q s, rows_of (SSub (star (length (q_vis q))) (SSub q s)) = rows_of (SSub q s).
Proof. exact star_over_subquery. Qed.
Print Assumptions C08_star_over_subquery.

(* x [NOT] IN (subquery): membership in the single output column; NULL when x is NULL or the subquery returns no row *)
Theorem C08_in_spec : forall r st n a rows,
  eval r st (EIn n a (items_of rows)) =
  if is_null (eval r st a) then VNull
  else match rows with
       | [] => VNull
       | _ => VBool (xorb n (existsb (val_eq (eval r st a)) (map (cell 0) rows)))
       end.
Proof. exact in_subquery_spec. Qed.
Print Assumptions C08_in_spec.

Example C08_example :
  rows_of (SSub (star 1) (SSub {| q_where := Some (EIn false (ECol 0) (items_of [[VInt 2]; [VNull]; [VInt 3]]));
                                   q_targets := [ECol 1]; q_group := None; q_aggs := []; q_having := None;
                                   q_order := None; q_vis := [0]; q_distinct := false; q_limit := None |}
                                (STable [[VInt 1; VInt 10]; [VInt 2; VInt 20]; [VNull; VInt 30]; [VInt 3; VInt 40]])))
  = [[VInt 20]; [VInt 40]].
Proof. reflexivity. Qed.
