(* C08 Subqueries compose. Statements only; proofs in Proofs/SubqueryProofs.v (+ EvalProofs.v). *)
From Coq Require Import ZArith List Bool.
Import ListNotations.
From Verif Require Import Base.PyValue Model.Eval Model.Order Model.Exec Model.Subquery
     Proofs.EvalProofs Proofs.SubqueryProofs.
(* required here, imported just before the C08_source_* section (name clashes: eval, exec, Ok) *)
From Coq Require String.
From Verif Require Model.PyMini Model.PrimsApi Model.PrimsCompiler Model.PrimsSubquery Gen.SrcSubquery
     Proofs.SrcSubquery Model.Compile.
From Verif Require Model.PrimsSelect Gen.SrcSelect Proofs.SrcSelect.      (* bld-compiler3: Compiler._select *)
Open Scope nat_scope.

(* FROM (subquery): the outer query sees exactly the subquery's visible result rows *)
Theorem C08_from_materialised : forall q s, rows_of (SSub q s) = exec q (rows_of s).
Proof. exact from_materialised. Qed.
Print Assumptions C08_from_materialised.

(* at any nesting depth *)
Theorem C08_nesting : forall qs s, rows_of (fold_right SSub s qs) = fold_right exec (rows_of s) qs.
Proof. exact nested_materialised. Qed.
Print Assumptions C08_nesting.

(* every result row has exactly one value per visible target, so the subquery table is rectangular *)
Theorem C08_result_width : forall q t, Forall (fun r => length r = length (q_vis q)) (exec q t).
Proof. exact exec_width. Qed.
Print Assumptions C08_result_width.

(* SELECT * FROM (q) returns q's rows unchanged (distinct inner names: one positional accessor per column) *)
Theorem C08_star_identity : forall n rows, Forall (fun r => length r = n) rows -> exec (star n) rows = rows.
Proof. exact star_identity. Qed.
Print Assumptions C08_star_identity.
Theorem C08_star_over_subquery : forall q s, rows_of (SSub (star (length (q_vis q))) (SSub q s)) = rows_of (SSub q s).
Proof. exact star_over_subquery. Qed.
Print Assumptions C08_star_over_subquery.

(* x [NOT] IN (subquery): membership in the single output column; NULL when x is NULL or the subquery returns no row *)
Theorem C08_in_spec : forall r st n a rows,
  eval r st (EIn n a (items_of rows)) =
  if is_null (eval r st a) then VNull
  else match rows with
       | [] => VNull
       | _ => VBool (xorb n (existsb (val_eq (eval r st a)) (map (cell 0) rows)))
       end.
Proof. exact in_subquery_spec. Qed.
Print Assumptions C08_in_spec.

Example C08_example :
  rows_of (SSub (star 1) (SSub {| q_where := Some (EIn false (ECol 0) (items_of [[VInt 2]; [VNull]; [VInt 3]]));
                                   q_targets := [ECol 1]; q_group := None; q_aggs := []; q_having := None;
                                   q_order := None; q_vis := [0]; q_distinct := false; q_limit := None |}
                                (STable [[VInt 1; VInt 10]; [VInt 2; VInt 20]; [VNull; VInt 30]; [VInt 3; VInt 40]])))
  = [[VInt 20]; [VInt 40]].
Proof. reflexivity. Qed.

(* ------------------------------------------------------------------------------------------------------------------
   Tie by translation (harness/PYMINI.md).  Gen/SrcSubquery.v holds the PyMini terms translated on every run from the
   SOURCE of SubqueryTable.__init__ / __iter__, EvalConstantSubquery1D.__init__ / __call__, EvalBinaryOp.__call__ and
   the functions of the IN / NOT IN overloads, plus the structure of the column factory SubqueryTable.column read off
   its AST.  The theorems below are re-checked against those terms: a change of the code changes the terms.
   Encodings of the Python objects and the assumed behaviour of the opaque callables: Model/PrimsSubquery.v. *)
Import Coq.Strings.String.
Import Verif.Model.PyMini Verif.Model.PrimsApi Verif.Model.PrimsCompiler Verif.Model.PrimsSubquery
       Verif.Gen.SrcSubquery Verif.Proofs.SrcSubquery.
Open Scope nat_scope.
Open Scope string_scope.

(* the class made by SubqueryTable.column reads, with operator.itemgetter, the factory's FIRST parameter (the position
   __init__ hands over), takes its datatype from the THIRD, and is an EvalColumn *)
Theorem C08_source_column_factory :
  fa_name column_factory = "beanquery.query_compile.SubqueryTable.column" /\
  List.length (fa_params column_factory) = 3 /\
  nth_error (fa_params column_factory) 0 = Some (fa_accessor column_factory) /\
  nth_error (fa_params column_factory) 2 = Some (fa_dtype column_factory) /\
  fa_bases column_factory = ["beanquery.query_compile.EvalColumn"].
Proof. exact column_factory_shape. Qed.
Print Assumptions C08_source_column_factory.

(* SubqueryTable.__init__ on a fresh instance, for EVERY list of targets: `columns` becomes the insertion-ordered dict
   obtained by dict_set over the visible targets in order (a later duplicate name replaces the value and keeps the
   place), each value being the column object made for the target's position among the visible targets and its
   datatype; forgetting the positions, it is the column list of Compile.subquery_table *)
Theorem C08_source_subquery_table : forall call_ref tbl kcol pts q,
  Compile.cq_targets q = map (target_of tbl) pts ->
  ref_of refs "beanquery.query_compile.SubqueryTable.column" = Some kcol ->
  (forall j t n, nth_error (Compile.visible (Compile.cq_targets q)) j = Some t -> Compile.ct_name t = Some n ->
     factory_behaves call_ref kcol [PInt (Z.of_nat j); PStr n; PStr (Compile.dtype (Compile.ct_expr t))]) ->
  let cols := sub_columns (Compile.cq_targets q) in
  call_method call_ref (prim_subquery tbl) subq_table_init [] [enc_query pts] =
    PyMini.Ok ([("columns", enc_columns cols); ("subquery", enc_query pts)], PNone)
  /\ map proj_col cols = Compile.t_cols (Compile.subquery_table q).
Proof. exact subquery_table_init_model. Qed.
Print Assumptions C08_source_subquery_table.

(* ... and that dict, without the fold: no name twice; the names in the order of their first visible occurrence; the entry
   of a name holds the position among the visible targets, and the datatype, of the LAST visible target carrying it *)
Theorem C08_source_subquery_positions : forall ts,
  NoDup (map fst (sub_columns ts)) /\
  map fst (sub_columns ts) = fold_left names_step (Compile.visible ts) [] /\
  forall n i dt, In (n, (i, dt)) (sub_columns ts) <->
    exists t, nth_error (Compile.visible ts) i = Some t /\ Compile.ct_name t = Some n /\
              dt = Compile.dtype (Compile.ct_expr t) /\
              forall j' t', i < j' -> nth_error (Compile.visible ts) j' = Some t' -> Compile.ct_name t' <> Some n.
Proof. exact sub_columns_spec. Qed.
Print Assumptions C08_source_subquery_positions.

(* SubqueryTable.__iter__: the rows of FROM (q over s) are what execute_query returns for the subquery, unchanged *)
Theorem C08_source_subquery_iter : forall call_ref tbl kexec flds Q cols q s,
  ref_of refs "beanquery.query_execute.execute_query" = Some kexec ->
  lookup "subquery" flds = Some Q ->
  call_ref kexec [Q] = PTuple [cols; rows_pv (Verif.Model.Exec.exec q (rows_of s))] ->
  call_method call_ref (prim_subquery tbl) subq_table_iter flds [] = PyMini.Ok (flds, rows_pv (rows_of (SSub q s))).
Proof. exact subquery_iter_rows_of. Qed.
Print Assumptions C08_source_subquery_iter.

(* EvalConstantSubquery1D.__init__ parks the sentinel MARKER in `value` *)
Theorem C08_source_in_subquery_init : forall call_ref tbl klist kmark Q,
  ref_of refs "builtins.list" = Some klist ->
  ref_of refs "beanquery.query_compile.MARKER" = Some kmark ->
  call_method call_ref (prim_subquery tbl) subq_in_init [] [Q] =
  PyMini.Ok ([("dtype", PRef klist); ("subquery", Q); ("value", PRef kmark)], PNone).
Proof. exact in_subquery_init_src. Qed.
Print Assumptions C08_source_in_subquery_init.

(* first call: the subquery is executed; the value is Subquery.items_of its rows (None when there is no row) and is
   stored on the node *)
Theorem C08_source_in_subquery_items : forall call_ref tbl kexec kmark flds ctx Q cols q s,
  ref_of refs "beanquery.query_execute.execute_query" = Some kexec ->
  ref_of refs "beanquery.query_compile.MARKER" = Some kmark ->
  lookup "subquery" flds = Some Q -> lookup "value" flds = Some (PRef kmark) ->
  call_ref kexec [Q] = PTuple [cols; rows_pv (Verif.Model.Exec.exec q (rows_of s))] ->
  q_vis q <> [] ->
  let v := items_pv (items_of (rows_of (SSub q s))) in
  call_method call_ref (prim_subquery tbl) subq_in_call flds [ctx] = PyMini.Ok (update "value" v flds, v).
Proof. exact in_subquery_items_src. Qed.
Print Assumptions C08_source_in_subquery_items.

(* later calls: the stored value is returned, the node is unchanged, and NOTHING is assumed of the opaque callables -
   execute_query is not called again, whatever it would return or raise *)
Theorem C08_source_in_subquery_cached : forall call_ref tbl kmark flds ctx items,
  ref_of refs "beanquery.query_compile.MARKER" = Some kmark ->
  lookup "value" flds = Some (items_pv items) ->
  call_method call_ref (prim_subquery tbl) subq_in_call flds [ctx] = PyMini.Ok (flds, items_pv items).
Proof. exact in_subquery_cached_src. Qed.
Print Assumptions C08_source_in_subquery_cached.

(* the IN / NOT IN node (EvalBinaryOp.__call__ over the function every registered overload wraps) computes Eval.eval's
   clause for EIn: NULL left operand -> NULL; no row (None) -> NULL; else membership under Python == *)
Theorem C08_source_in_node : forall call_ref tbl ctx r st (negate : bool) ka kb kop a items,
  child call_ref ctx r st ka a -> call_ref kb [ctx] = items_pv items ->
  op_is call_ref tbl kop (if negate then subq_not_in else subq_in) ->
  let flds := [("left", PRef ka); ("right", PRef kb); ("operator", PRef kop)] in
  call_method call_ref (prim_subquery tbl) subq_node_binary flds [ctx] =
  expect flds (Verif.Model.Eval.eval r st (EIn negate a items)).
Proof. exact in_node_src. Qed.
Print Assumptions C08_source_in_node.

(* the translated __init__ run on four targets, one hidden, two named x: x keeps the first place and reads position 2 *)
Definition ex_tbl (i : nat) : Compile.cnode :=
  nth i [Compile.NCol "a" "int"; Compile.NCol "h" "str"; Compile.NCol "b" "Decimal"; Compile.NCol "c" "date"]
      Compile.NSub1D.
Definition ex_pts : list ptarget := [(0, Some "x", false); (1, None, false); (2, Some "y", false); (3, Some "x", false)].
Definition ex_objs : list pv := [colobj 0 "x" "int"; colobj 1 "y" "Decimal"; colobj 2 "x" "date"].
Definition ex_call_ref (k : nat) (args : list pv) : pv :=
  match k, args with
  | 0, [PV (VInt i); _; _] => PRef (10 + Z.to_nat i)
  | _, _ => nth (k - 10) ex_objs PNone
  end.
Example C08_source_example :
  call_method ex_call_ref (prim_subquery ex_tbl) subq_table_init [] [enc_query ex_pts] =
  PyMini.Ok ([("columns", enc_columns [("x", (2, "date")); ("y", (1, "Decimal"))]); ("subquery", enc_query ex_pts)], PNone).
Proof. vm_compute. reflexivity. Qed.
(* ... and the hypothesis of C08_source_subquery_table about the opaque factory is satisfiable: this oracle meets it *)
Example C08_source_example_factory : forall j t n,
  nth_error (Compile.visible (map (target_of ex_tbl) ex_pts)) j = Some t -> Compile.ct_name t = Some n ->
  factory_behaves ex_call_ref 0 [PInt (Z.of_nat j); PStr n; PStr (Compile.dtype (Compile.ct_expr t))].
Proof.
  intros [|[|[|[|j]]]] t n H Hn; cbn in H; try discriminate; injection H as <-; injection Hn as <-;
    eexists; split; reflexivity.
Qed.

(* ---- bld-compiler3: a nested SELECT does not leave its table behind.  Compiler._select (Gen/SrcSelect.v, regenerated
   from the live source on every run), with every call `x = self.m(..)` of a method that may assign self.table read as
   `self.table, x = self.m(self.table, ..)` (translator rule K12; the threaded state is recomputed from the live class
   and is exactly ["table"]).  For EVERY table t1 .. t5 the sub-compilations (FROM, targets, WHERE, GROUP BY, ORDER BY)
   leave behind and every result they return: whenever _select returns, the receiver's attributes are what they were
   on entry - self.table is the table of the enclosing query again.  (A sub-compilation that raises ends the whole
   compilation: Compiler objects are not reused after an error.) *)
Module SS := Verif.Proofs.SrcSelect.
Module PS := Verif.Model.PrimsSelect.
Theorem C08_source_table_restored :
  forall (call_ref : nat -> list pv -> pv) (tbl : nat -> Compile.cnode) (kids : nat -> list nat)
         (mro : string -> list string) (msg : string -> list pv -> pv) (updatable : pv -> bool)
         (upd : pv -> pv -> pv -> pv -> pv) (t0 t1 t2 t3 t4 t5 tg fc wc gb ob pb lim dist : pv) (kF kT kC kG kO kP : nat)
         (rest : env) (rfrom : Compile.result (option nat) Compile.cerr) (rtargets : Compile.result (list ptarget) Compile.cerr)
         (rwhere : Compile.result (option nat) Compile.cerr) (fgroup : list ptarget -> Compile.result SS.gres Compile.cerr)
         (forder : list ptarget -> Compile.result SS.ores Compile.cerr)
         (fpivot : list ptarget -> option (list nat) -> Compile.result (option (nat * nat)) Compile.cerr)
         (and_id : nat -> nat -> nat),
  call_ref kF [t0; fc] = SS.enc_res (fun cf => PTuple [t1; popt nref cf]) rfrom ->
  call_ref kT [t1; tg] = SS.enc_res (fun pts => PTuple [t2; PS.enc_targets pts]) rtargets ->
  call_ref kC [t2; wc] = SS.enc_res (fun ow => PTuple [t3; popt nref ow]) rwhere ->
  (forall i, call_ref SS.ka [nref i] = PBool (Compile.has_agg (tbl i))) ->
  (forall f w, call_ref SS.kand [PList [nref f; nref w]] = nref (and_id f w)) ->
  (forall pts, call_ref kG [t3; gb; PS.enc_targets pts] =
     SS.enc_res (fun r : SS.gres => match r with (new, gi, hi) =>
                   PTuple [t4; PTuple [PS.enc_targets new; popt PS.enc_nats gi; popt PS.enc_nat hi]] end) (fgroup pts)) ->
  (forall pts, call_ref kO [t4; ob; PS.enc_targets pts] =
     SS.enc_res (fun r : SS.ores => match r with (new, os) =>
                   PTuple [t5; PTuple [PS.enc_targets new; popt PS.enc_ospec os]] end) (forder pts)) ->
  (forall pts gi, call_ref kP [pb; PS.enc_targets pts; popt PS.enc_nats gi] =
     SS.enc_res (popt (fun p : nat * nat => PS.enc_nats [fst p; snd p])) (fpivot pts gi)) ->
  forall (flds' : env) (v : pv),
  call_method call_ref (PS.prim_select tbl kids mro msg updatable upd) Verif.Gen.SrcSelect.compile_select
    (SS.flds kF kT kC kG kO kP rest t0) [SS.SEL tg fc wc gb ob pb lim dist] = PyMini.Ok (flds', v) ->
  flds' = SS.flds kF kT kC kG kO kP rest t0 /\ lookup "table" flds' = Some t0.
Proof. exact SS.table_restored. Qed.
Print Assumptions C08_source_table_restored.

(* the hypotheses are satisfiable and the conclusion is not vacuous: on the oracle of SS.ex_call (FROM leaves the table
   "sub", the other sub-compilations leave None) the translated _select returns and the enclosing table "outer" is back *)
Example C08_source_table_restored_example :
  exists v,
    call_method SS.ex_call (PS.prim_select SS.ex_tbl (fun _ => []) (fun _ => []) (fun _ _ => PNone) (fun _ => false)
                                           (fun _ _ _ _ => PNone))
      Verif.Gen.SrcSelect.compile_select (SS.flds 10 11 12 13 14 15 [] (PStr "outer"))
      [SS.SEL PNone PNone PNone PNone PNone PNone PNone PNone]
    = PyMini.Ok (SS.flds 10 11 12 13 14 15 [] (PStr "outer"), v).
Proof. eexists. vm_compute. reflexivity. Qed.
