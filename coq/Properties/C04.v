(* C04 Type soundness: announced datatypes are truthful; accepted queries run type-safe.
   Statements only; definitions in Model/Typing.v, proofs in Proofs/TypingProofs.v.
   [type_of cols aggs e] is the dtype the compiler fixes on the compiled node [e]
   (None = CompilationError or outside the model); operator / function output types are
   looked up in Model.RegistrySnapshot, which Proofs/RegistryTie.v ties to the live code. *)
From Coq Require Import String ZArith List Bool.
Import ListNotations.
From Verif Require Import Base.PyValue Base.Decimal Model.Eval Model.Order Model.Exec Model.Typing
     Model.TypingCasts Proofs.AggProofs Proofs.TypingProofs Proofs.TypingCastsProofs Proofs.TypingCoverage.
From Verif Require Proofs.RegistryTie.
(* the tie by translation of types.function_lookup (last theorem of this file); required in the header so that coqdep
   records the dependency on the generated file (see harness/PYMINI.md) *)
From Verif Require Model.Compile Model.PyMini Model.PrimsApi Model.PrimsCompiler Gen.SrcLookup Proofs.SrcLookup.
(* the tie by translation of the expression-level typing path (bld-compiler4, end of this file) *)
From Verif Require Model.PrimsSelect Model.PrimsExprs Gen.SrcExprs Proofs.SrcExprs Proofs.SrcExprsFunction.
Open Scope Z_scope.

(* Every accepted expression evaluates, on every row that conforms to the declared column types (and
   finalised aggregate values that conform to the aggregates' dtypes), to NULL or a value of the dtype
   announced for it, and never to an exception. No overload of the model is excluded. *)
Theorem C04_eval_sound : forall (cols aggs : list ty) (r : row) (st : list value) (e : enode) (t : ty),
  type_of cols aggs e = Some t -> conforms cols r -> conforms aggs st ->
  has_type (eval r st e) t = true /\ (forall k, eval r st e <> VErr k).
Proof. intros cols aggs r st e t H Hr Hst. exact (eval_sound cols aggs r st Hr Hst e t H). Qed.
Print Assumptions C04_eval_sound.

(* the exact typing of the model implies the property's wording (isinstance; bool is an int) *)
Theorem C04_isinstance : forall v t, has_type v t = true -> py_isinstance v t = true.
Proof. exact has_type_isinstance. Qed.
Print Assumptions C04_isinstance.

Theorem C04_null_inhabits_every_type : forall t, has_type VNull t = true.
Proof. exact has_type_null. Qed.
Print Assumptions C04_null_inhabits_every_type.

Theorem C04_object_admits_everything : forall v, (forall k, v <> VErr k) -> has_type v TObject = true.
Proof. intros v H. destruct v; try reflexivity. exfalso. now apply (H k). Qed.
Print Assumptions C04_object_admits_everything.

(* Finalised aggregates (count( * ), count, sum, first, last, min, max): the fold the executor computes
   for a group (C02_store_is_partition_fold) is NULL or a value of the aggregate's announced dtype. *)
Theorem C04_agg_sound : forall (cols : list ty) (a : agg) (t : ty) (rows : list row),
  agg_type cols a = Some t -> Forall (conforms cols) rows ->
  has_type (fold_agg a rows) t = true /\ (forall k, fold_agg a rows <> VErr k).
Proof. exact agg_sound. Qed.
Print Assumptions C04_agg_sound.

(* The description is the name and dtype of the visible targets, in order ... *)
Theorem C04_description_names : forall cols aggs (ts : list target) d,
  description cols aggs ts = Some d ->
  map fst d = flat_map (fun tg => match snd tg with Some n => [n] | None => [] end) ts.
Proof. exact description_names. Qed.
Print Assumptions C04_description_names.

Theorem C04_description_types : forall cols aggs (ts : list target) d,
  description cols aggs ts = Some d ->
  map (fun x => Some (snd x)) d = visible ts (map (fun tg => type_of cols aggs (fst tg)) ts).
Proof. exact description_types. Qed.
Print Assumptions C04_description_types.

(* ... and every cell of a delivered row inhabits the datatype announced at its position *)
Theorem C04_description : forall cols aggs (ts : list target) d r st,
  description cols aggs ts = Some d -> conforms cols r -> conforms aggs st ->
  Forall2 (fun v nt => has_type v (snd nt) = true /\ forall k, v <> VErr k)
          (visible ts (map (fun tg => eval r st (fst tg)) ts)) d.
Proof. exact result_row_sound. Qed.
Print Assumptions C04_description.

Theorem C04_rows_sound : forall cols (q : query) (names : list (option (list Z))) d table,
  length names = length (q_targets q) ->
  description cols [] (combine (q_targets q) names) = Some d ->
  Forall (conforms cols) table ->
  Forall (fun out => Forall2 (fun v nt => has_type v (snd nt) = true /\ forall k, v <> VErr k)
                             (visible (combine (q_targets q) names) out) d)
         (scan_nonagg q [] table).
Proof. exact scan_rows_sound. Qed.
Print Assumptions C04_rows_sound.

(* end to end for non-aggregate queries: after ORDER BY, projection onto the visible targets, DISTINCT and
   LIMIT, every cell of every row of the final result inhabits the datatype at its position of the description *)
Theorem C04_result_sound : forall cols (q : query) (names : list (option (list Z))) d table,
  q_group q = None ->
  length names = length (q_targets q) ->
  q_vis q = vis_from 0 (combine (q_targets q) names) ->
  description cols [] (combine (q_targets q) names) = Some d ->
  Forall (conforms cols) table ->
  Forall (fun out => Forall2 (fun v nt => has_type v (snd nt) = true /\ forall k, v <> VErr k) out d)
         (exec q table).
Proof. exact exec_nonagg_sound. Qed.
Print Assumptions C04_result_sound.

(* ... and for aggregate queries: grouped targets are typed without aggregates (they are evaluated on a row of
   the group), the aggregate nodes have the dtypes [aggs] (handle = position), the other targets are typed with
   them and evaluated on the finalised store. Every cell of the final result (after HAVING, ORDER BY, projection,
   DISTINCT, LIMIT) inhabits the description's datatype at its position or is NULL, and none is an exception
   (in particular the executor never runs out of key cells). Uses C02's partition/fold theorem exec_rows_agg. *)
Theorem C04_result_sound_agg : forall cols aggs (q : query) (g : list nat) (names : list (option (list Z))) d table,
  q_group q = Some g ->
  length names = length (q_targets q) ->
  q_vis q = vis_from 0 (combine (q_targets q) names) ->
  description cols aggs (combine (q_targets q) names) = Some d ->
  Forall2 (fun a t => agg_type cols a = Some t) (q_aggs q) aggs ->
  (forall j e, nth_error (q_targets q) j = Some e -> In j g -> exists t, type_of cols [] e = Some t) ->
  Forall (conforms cols) table ->
  Forall (fun out => Forall2 (fun v nt => has_type v (snd nt) = true /\ forall k, v <> VErr k) out d)
         (exec q table).
Proof. exact exec_agg_sound. Qed.
Print Assumptions C04_result_sound_agg.

(* an expression typed without aggregate dtypes keeps its dtype when they are supplied (it has no aggregate node) *)
Theorem C04_type_of_weaken : forall cols aggs e t, type_of cols [] e = Some t -> type_of cols aggs e = Some t.
Proof. exact type_of_weaken. Qed.
Print Assumptions C04_type_of_weaken.

(* The implicit cast of Compiler._binaryop (exactly one operand of dtype object: wrap it in the cast function
   named after the other operand's dtype, int promoted to Decimal, and retry). [type_of_c] types such trees,
   [eval_c] evaluates the COMPILED tree (cast nodes included); for any cast functions that honour their declared
   output type (cast_contract: NULL or an instance of the target type - what sweep 1 checks on every cast overload
   of the implementation, and what C18's models satisfy, Proofs/TypingCastsProofs.v) every typed tree evaluates
   to NULL or a value of the announced dtype and never to an exception. *)
Theorem C04_eval_cast_sound : forall cols aggs castf r st e t,
  cast_contract castf -> conforms cols r -> conforms aggs st ->
  type_of_c cols aggs e = Some t ->
  has_type (eval_c cols aggs castf r st e) t = true /\ (forall k, eval_c cols aggs castf r st e <> VErr k).
Proof. intros cols aggs castf r st e t CC Hr Hst. exact (eval_c_sound cols aggs castf r st CC Hr Hst e t). Qed.
Print Assumptions C04_eval_cast_sound.

(* C18's models of the cast functions (date_, str_, bool_, int_) meet that contract; decimal_ does on every
   non-str argument (Decimal(str) may be Infinity/NaN, a Decimal outside Base.PyValue) *)
Theorem C04_cast_functions_contract : forall tg v,
  (forall k, v <> VErr k) -> (tg = TDate \/ tg = TStr \/ tg = TBool \/ tg = TInt) -> has_type (castf18 tg v) tg = true.
Proof. exact castf18_contract. Qed.
Print Assumptions C04_cast_functions_contract.
Theorem C04_cast_decimal_contract : forall v,
  (forall k, v <> VErr k) -> (forall s, v <> VStr s) -> has_type (castf18 TDec v) TDec = true.
Proof. exact castf18_decimal_nonstr. Qed.
Print Assumptions C04_cast_decimal_contract.

(* on trees without an object-against-typed binary operator nothing changes: same dtype, same value as Eval.eval *)
Theorem C04_cast_conservative : forall cols aggs castf r st e t,
  type_of cols aggs e = Some t ->
  type_of_c cols aggs e = Some t /\ eval_c cols aggs castf r st e = eval r st e.
Proof. intros cols aggs castf r st e t. exact (conservative cols aggs castf r st e t). Qed.
Print Assumptions C04_cast_conservative.

(* every operand combination the cast makes typable, the cast inserted and the dtype of the node *)
Theorem C04_cast_overloads : cast_table =
  (cast_num BAdd ++ cast_num BSub ++ cast_num BMul ++ cast_num BDiv ++ cast_num BMod
   ++ cast_cmp BEq ++ cast_cmp BNe ++ cast_cmp BLt ++ cast_cmp BLe ++ cast_cmp BGt ++ cast_cmp BGe
   ++ [(BMatch, TStr, TObject, (None, Some TStr, TBool)); (BMatch, TObject, TStr, (Some TStr, None, TBool));
       (BNotMatch, TStr, TObject, (None, Some TStr, TBool)); (BNotMatch, TObject, TStr, (Some TStr, None, TBool));
       (BSubDateDate, TDate, TObject, (None, Some TDate, TInt)); (BSubDateDate, TObject, TDate, (Some TDate, None, TInt))])%list.
Proof. exact cast_table_spec. Qed.
Print Assumptions C04_cast_overloads.

(* One obligation per overload: the typing tables of all modelled constructors, computed from the
   registry snapshot, are exactly these (a changed declaration breaks the equality) ... *)
Theorem C04_binop_overloads : binop_table =
  (num_pairs BAdd ++ num_pairs BSub ++ num_pairs BMul
   ++ [(BDiv, TInt, TDec, TDec); (BDiv, TDec, TInt, TDec); (BDiv, TDec, TDec, TDec); (BDivInt, TInt, TInt, TDec)]
   ++ num_pairs BMod
   ++ cmp_pairs BEq ++ cmp_pairs BNe ++ cmp_pairs BLt ++ cmp_pairs BLe ++ cmp_pairs BGt ++ cmp_pairs BGe
   ++ [(BMatch, TStr, TStr, TBool); (BNotMatch, TStr, TStr, TBool);
       (BAddDateInt, TDate, TInt, TDate); (BAddIntDate, TInt, TDate, TDate);
       (BSubDateInt, TDate, TInt, TDate); (BSubDateDate, TDate, TDate, TInt)])%list.
Proof. exact binop_table_spec. Qed.
Print Assumptions C04_binop_overloads.

Theorem C04_unop_overloads : unop_table =
  (map (fun a => (UNot, a, TBool)) all_ty
   ++ [(UNeg, TInt, TInt); (UNeg, TDec, TDec); (UNeg, TBool, TInt)]
   ++ map (fun a => (UIsNull, a, TBool)) all_ty ++ map (fun a => (UIsNotNull, a, TBool)) all_ty)%list.
Proof. exact unop_table_spec. Qed.
Print Assumptions C04_unop_overloads.

Theorem C04_func_overloads : func_table =
  ([(FAbs, [TDec], TDec); (FNeg, [TDec], TDec);
    (FSafediv, [TDec; TInt], TDec); (FSafediv, [TDec; TDec], TDec); (FSafediv, [TDec; TBool], TDec);
    (FLength, [TStr], TInt); (FUpper, [TStr], TStr); (FLower, [TStr], TStr)]
   ++ map (fun a => (FBool, [a], TBool)) all_ty
   ++ [(FIntOfDec, [TDec], TInt); (FDecOfInt, [TInt], TDec); (FSubstr, [TStr; TInt; TInt], TStr)]
   (* the scalar library modelled for C18 (Model/Dates.v, Model/StrFuncs.v), reached through Eval.apply_func: the
      overloads whose model is total on the declared types; strict types do not reach the object overloads *)
   ++ [(FYear, [TDate], TInt); (FMonth, [TDate], TInt); (FDay, [TDate], TInt); (FQuarter, [TDate], TStr);
       (FWeekday, [TDate], TStr); (FDateDiff, [TDate; TDate], TInt); (FDatePart, [TStr; TDate], TInt);
       (FDateYmd, [TInt; TInt; TInt], TDate)]
   ++ map (fun a => (FDate, [a], TDate)) [TStr; TDate; TObject; TNone]
   ++ map (fun a => (FStr, [a], TStr)) all_ty
   ++ map (fun a => (FInt, [a], TInt)) [TInt; TStr; TBool; TObject; TNone]
   ++ [(FDecimal, [TDec], TDec); (FDecimal, [TBool], TDec);
       (FRoot, [TStr; TInt], TStr); (FRoot1, [TStr], TStr); (FParent, [TStr], TStr); (FLeaf, [TStr], TStr);
       (FRoundInt, [TInt; TInt], TInt); (FRoundInt1, [TInt], TInt)])%list.
Proof. exact func_table_spec. Qed.
Print Assumptions C04_func_overloads.

(* Which REGISTERED overloads that table stands for: the signature every row lands on (function_lookup) with the
   announced output type, computed and compared with the registry snapshot.  35 of the 65 scalar overloads over BQL
   base types are covered (11 before the C18 library was linked in) ... *)
Theorem C04_covered_overloads : covered_overloads =
  [("abs", ["Decimal"], "Decimal"); ("neg", ["Decimal"], "Decimal");
   ("safediv", ["Decimal"; "int"], "Decimal"); ("safediv", ["Decimal"; "Decimal"], "Decimal");
   ("length", ["str"], "int"); ("upper", ["str"], "str"); ("lower", ["str"], "str"); ("bool", ["any"], "bool");
   ("int", ["Decimal"], "int"); ("decimal", ["int"], "Decimal"); ("substr", ["str"; "int"; "int"], "str");
   ("year", ["date"], "int"); ("month", ["date"], "int"); ("day", ["date"], "int"); ("quarter", ["date"], "str");
   ("weekday", ["date"], "str"); ("date_diff", ["date"; "date"], "int"); ("date_part", ["str"; "date"], "int");
   ("date", ["int"; "int"; "int"], "date"); ("date", ["str"], "date"); ("date", ["date"], "date");
   ("date", ["object"], "date"); ("str", ["any"], "str");
   ("int", ["int"], "int"); ("int", ["str"], "int"); ("int", ["bool"], "int"); ("int", ["object"], "int");
   ("decimal", ["Decimal"], "Decimal"); ("decimal", ["bool"], "Decimal");
   ("root", ["str"; "int"], "str"); ("root", ["str"], "str"); ("parent", ["str"], "str"); ("leaf", ["str"], "str");
   ("round", ["int"; "int"], "int"); ("round", ["int"], "int")]%string.
Proof. exact covered_spec. Qed.
Print Assumptions C04_covered_overloads.

Theorem C04_covered_overloads_registered :
  forallb (fun c => mem3 c scalar_base_overloads) covered_overloads = true
  /\ (length scalar_base_overloads, length covered_overloads) = (65, 35)%nat.
Proof. exact (conj covered_registered coverage_counts). Qed.
Print Assumptions C04_covered_overloads_registered.

(* ... and these are not (they can raise on well-typed arguments - Eval.eval does not propagate exceptions -, are
   regular-expression functions, or read the ledger context): the typed model refuses every statement using them *)
Theorem C04_uncovered_overloads : uncovered_overloads =
  [("decimal", ["object"], "Decimal"); ("decimal", ["str"], "Decimal");
   ("round", ["Decimal"; "int"], "Decimal"); ("round", ["Decimal"], "Decimal"); ("repr", ["any"], "str");
   ("maxwidth", ["str"; "int"], "str"); ("splitcomp", ["str"; "str"; "int"], "str");
   ("yearmonth", ["date"], "date"); ("today", [], "date");
   ("grep", ["str"; "str"], "str"); ("grepn", ["str"; "str"; "int"], "str"); ("subst", ["str"; "str"; "str"], "str");
   ("open_date", ["str"], "date"); ("close_date", ["str"], "date"); ("open_meta", ["str"; "str"], "object");
   ("meta", ["str"], "object"); ("entry_meta", ["str"], "object"); ("any_meta", ["str"], "object");
   ("commodity_meta", ["str"; "str"], "object"); ("currency_meta", ["str"; "str"], "object");
   ("account_sortkey", ["str"], "str"); ("has_account", ["str"], "bool");
   ("getprice", ["str"; "str"; "date"], "Decimal"); ("getprice", ["str"; "str"], "Decimal");
   ("possign", ["Decimal"; "str"], "Decimal");
   ("parse_date", ["str"; "str"], "date"); ("parse_date", ["str"], "date");
   ("date_add", ["date"; "int"], "date"); ("date_trunc", ["str"; "date"], "date");
   ("date_bin", ["str"; "date"; "date"], "date")]%string.
Proof. exact uncovered_spec. Qed.
Print Assumptions C04_uncovered_overloads.

(* ... and each is sound on its own: value in, value of the declared type out *)
Theorem C04_unop_sound : forall op a t x,
  unop_out op a = Some t -> has_type x a = true -> has_type (un op x) t = true.
Proof. exact unop_sound. Qed.
Print Assumptions C04_unop_sound.

Theorem C04_binop_sound : forall op a b t x y,
  binop_out op a b = Some t -> has_type x a = true -> has_type y b = true ->
  is_null x = false -> is_null y = false -> has_type (bin op x y) t = true.
Proof. exact binop_sound. Qed.
Print Assumptions C04_binop_sound.

Theorem C04_func_sound : forall f ts t vs,
  func_out f ts = Some t -> Forall2 (fun v a => has_type v a = true) vs ts ->
  existsb is_null vs = false -> has_type (apply_func f vs) t = true.
Proof. exact func_sound. Qed.
Print Assumptions C04_func_sound.

(* the library clauses in particular: NULL or a value of the announced type, never an exception (neither this
   model's TypeError nor one of the library's kinds) *)
Theorem C04_library_sound : forall f ts t vs,
  func_out f ts = Some t -> Forall2 (fun v a => has_type v a = true) vs ts -> existsb is_null vs = false ->
  has_type (apply_func f vs) t = true /\ (forall k, apply_func f vs <> VErr k).
Proof. exact covered_sound. Qed.
Print Assumptions C04_library_sound.

(* operand combinations without an overload are rejected (type_of = None) *)
Theorem C04_rejects_untyped :
  binop_out BAdd TBool TInt = None /\ binop_out BEq TBool TBool = None /\ binop_out BAdd TStr TStr = None
  /\ binop_out BAdd TNone TInt = None /\ unop_out UNeg TStr = None /\ unop_out UNeg TNone = None
  /\ between_out TInt TStr TInt = None /\ func_out FLength [TInt] = None.
Proof. exact untyped_examples. Qed.
Print Assumptions C04_rejects_untyped.

(* the registries the tables above are computed from are the live ones (re-checked on every run) *)
Theorem C04_registry_tie :
  Gen.Registry.functions = Model.RegistrySnapshot.functions /\ Gen.Registry.operators = Model.RegistrySnapshot.operators
  /\ Gen.Registry.types = Model.RegistrySnapshot.types.
Proof. exact (conj Proofs.RegistryTie.functions_tie (conj Proofs.RegistryTie.operators_tie Proofs.RegistryTie.types_tie)). Qed.
Print Assumptions C04_registry_tie.

(* The defect repaired by /repo 26ccdff, replayed in the model: with sum() announcing its operand's dtype
   (bool for a bool column, store started at bool() = False) the announced type is not truthful. *)
Theorem C04_sum_announcing_operand_type_refuted :
  exists cols e rows t,
    agg_type_sum_old cols e = Some t /\ Forall (conforms cols) rows /\
    has_type (fold_agg {| afun := ASum (VBool false); aarg := e |} rows) t = false.
Proof. exact sum_announcing_operand_type_refuted. Qed.
Print Assumptions C04_sum_announcing_operand_type_refuted.

(* hypotheses are satisfiable / the judgment is not vacuous *)
Example C04_example_typed :
  type_of [TInt; TDec; TStr; TDate; TBool] []
          (ECoalesce [EBinary BDiv (ECol 0) (EFunc FSafediv [ECol 1; EUnary UNeg (ECol 4)]); EConst (VDec (mkdec false 15 (-1)))])
  = Some TDec.
Proof. reflexivity. Qed.
(* date_part('year', d) - year(d) + length(str(x)) over (d date, x Decimal): the library functions are typed *)
Example C04_example_library :
  type_of [TDate; TDec] []
    (EBinary BAdd (EBinary BSub (EFunc FDatePart [EConst (VStr [121; 101; 97; 114]); ECol 0]) (EFunc FYear [ECol 0]))
                  (EFunc FLength [EFunc FStr [ECol 1]])) = Some TInt
  /\ eval [VDate 737425; VDec (mkdec false 150 (-2))] []
       (EBinary BAdd (EBinary BSub (EFunc FDatePart [EConst (VStr [121; 101; 97; 114]); ECol 0]) (EFunc FYear [ECol 0]))
                     (EFunc FLength [EFunc FStr [ECol 1]])) = VInt 4
  /\ type_of [TDate] [] (EFunc FDateAdd [ECol 0; EConst (VInt 1)]) = None.
Proof. repeat split. Qed.
Example C04_example_conforms : conforms [TInt; TStr] [VInt 3; VNull].
Proof.
  intros i t H. destruct i as [|[|i]]; simpl in H; [injection H as <-; reflexivity|injection H as <-; reflexivity|].
  destruct i; discriminate H.
Qed.
Example C04_example_sum_bool :
  agg_type [TBool] {| afun := ASum (VInt 0); aarg := ECol 0 |} = Some TInt
  /\ fold_agg {| afun := ASum (VInt 0); aarg := ECol 0 |} [[VBool true]; [VNull]; [VBool true]] = VInt 2.
Proof. split; reflexivity. Qed.

(* SELECT a, sum(b) + 1 AS s FROM t GROUP BY a: the hypotheses of C04_result_sound_agg hold and the query runs *)
Definition ex_q : query :=
  {| q_where := None; q_targets := [ECol 0; EBinary BAdd (EAgg 0) (EConst (VInt 1))]; q_group := Some [0%nat];
     q_aggs := [{| afun := ASum (VInt 0); aarg := ECol 1 |}]; q_having := None; q_order := Some [(1%nat, true)];
     q_vis := [0%nat; 1%nat]; q_distinct := false; q_limit := None |}.
Example C04_example_agg :
  description [TStr; TBool] [TInt] (combine (q_targets ex_q) [Some [97]; Some [115]]) = Some [([97], TStr); ([115], TInt)]
  /\ Forall2 (fun a t => agg_type [TStr; TBool] a = Some t) (q_aggs ex_q) [TInt]
  /\ q_vis ex_q = vis_from 0 (combine (q_targets ex_q) [Some [97]; Some [115]])
  /\ exec ex_q [[VStr [120]; VBool true]; [VStr [121]; VNull]; [VStr [120]; VBool true]]
     = [[VStr [120]; VInt 3]; [VStr [121]; VInt 1]].
Proof. repeat split. repeat constructor. Qed.

(* ================================================================== tie by translation (harness/PYMINI.md)
   The typing theorems above take the output type of an operator / function from the overload the lookup selects.
   types.function_lookup, regenerated as a PyMini term from the imported beanquery.types on every run
   (Gen/SrcLookup.v), returns for EVERY registry, name and operand list exactly the overload - class and position -
   Compile.function_lookup returns (the first overload in registry order matching the first signature of the product of
   the operands' bases that has a match), or None.  Same statement as C05_source_function_lookup; encodings and
   primitive semantics in Model/PrimsCompiler.v; [_bases] is an opaque callable assumed to return Compile.bases_of
   (discharged for the live classes by C05_source_bases / C05_source_bases_table). *)
Theorem C04_source_function_lookup :
  forall (call_ref : nat -> list Verif.Model.PyMini.pv -> Verif.Model.PyMini.pv)
         (tbl : nat -> Verif.Model.Compile.cnode) (kids : nat -> list nat)
         (mro : string -> list string) (msg : string -> list Verif.Model.PyMini.pv -> Verif.Model.PyMini.pv)
         (kb : nat) (reg : list (string * list Verif.Model.Compile.overload)) (name : string) (operands : list nat),
  Verif.Model.PrimsApi.ref_of Verif.Gen.SrcLookup.refs "beanquery.types._bases"%string = Some kb ->
  (forall t, call_ref kb [Verif.Model.PrimsApi.PStr t] =
             Verif.Model.PyMini.PTuple (map Verif.Model.PrimsApi.PStr (Verif.Model.Compile.bases_of t))) ->
  Verif.Model.PyMini.call_function call_ref (Verif.Model.PrimsCompiler.prim_compiler tbl kids mro msg)
    Verif.Gen.SrcLookup.types_function_lookup
    [Verif.Model.PrimsCompiler.enc_registry reg; Verif.Model.PrimsApi.PStr name;
     Verif.Model.PyMini.PList (map Verif.Model.PrimsCompiler.nref operands)] =
  Verif.Model.PyMini.Ok
    (Verif.Proofs.SrcLookup.enc_found
       (Verif.Model.Compile.function_lookup reg name (map (fun i => Verif.Model.Compile.dtype (tbl i)) operands))).
Proof. exact Verif.Proofs.SrcLookup.function_lookup_src. Qed.
Print Assumptions C04_source_function_lookup.

(* ================================================================== tie by translation, second part (bld-compiler4)
   The EXPRESSION-level typing path: Compiler._unaryop / _between / _inop / _binaryop / _function, regenerated as PyMini
   terms from the imported beanquery.compiler on every run (Gen/SrcExprs.v, harness/vf/src_exprs.py: translator rules
   X1-X6 on top of K1-K14), compute what Model/Compile.v says - which overload is selected (subclass-aware lookup for
   unary operators and functions, EXACT match for binary operators and BETWEEN, the first overload for IN), which
   datatype the node announces (the overload's declared output type, also after constant folding), when an untyped
   (`object`) operand is cast and to what (the other operand's type, int promoted to Decimal; no cast available =
   error), and which error is raised when.  Encodings and primitive semantics (trusted): Model/PrimsExprs.v - a class
   of the registry is a record, calling it constructs a node at the address the allocator [mk] gives it; the
   theorems assume  tbl (mk n) = n  for the nodes the method constructs.  `self._compile` and types.function_lookup
   are opaque callables assumed to return (the encoding of) what the model's functions return; function_lookup is tied
   separately (C04_source_function_lookup). *)
Module SE := Verif.Proofs.SrcExprs.
Module SF := Verif.Proofs.SrcExprsFunction.
Import Verif.Model.PyMini Verif.Model.PrimsApi Verif.Model.PrimsCompiler Verif.Model.PrimsSelect Verif.Model.PrimsExprs.
Module CC := Verif.Model.Compile.

Theorem C04_source_unaryop :
  forall (call_ref : nat -> list pv -> pv) (tbl : nat -> CC.cnode) (kids : nat -> list nat)
         (mro : string -> list string) (msg : string -> list pv -> pv) (updatable : pv -> bool)
         (upd : pv -> pv -> pv -> pv -> pv) (mk : CC.cnode -> nat) (kC : nat) (ctx : pv) (rest : env)
         (tyname : string -> string),
  (forall t, call_ref SE.kN [PStr t] = PStr (tyname t)) ->
  forall (t0 t1 x : pv) (op : string) (r : CC.result nat CC.cerr),
  call_ref kC [t0; x] = SE.enc_res (fun a => PTuple [t1; nref a]) r ->
  (forall a, call_ref SE.kFL [enc_operators; PStr (ast_cls op); PList [nref a]] =
             SE.enc_cfound true op (CC.function_lookup R.operators op [CC.dtype (tbl a)])) ->
  (forall a i o, r = CC.Ok a -> CC.function_lookup R.operators op [CC.dtype (tbl a)] = Some (i, o) ->
                 tbl (mk (CC.NOp op i [tbl a] (CC.ov_out o))) = CC.NOp op i [tbl a] (CC.ov_out o)) ->
  call_method call_ref (prim_exprs tbl kids mro msg updatable upd mk) Verif.Gen.SrcExprs.compile_unaryop
    (SE.flds kC ctx rest t0) [SE.UNARY op x] =
  match r with
  | CC.Err e => Exc (CompErr e)
  | CC.Ok a => match CC.build_unary op (tbl a) with
               | CC.Ok n => Ok (SE.flds kC ctx rest t1, nref (mk n))
               | CC.Err e => Exc (CompErr e)
               end
  end.
Proof. exact SE.unaryop_src. Qed.
Print Assumptions C04_source_unaryop.

Theorem C04_source_between :
  forall (call_ref : nat -> list pv -> pv) (tbl : nat -> CC.cnode) (kids : nat -> list nat)
         (mro : string -> list string) (msg : string -> list pv -> pv) (updatable : pv -> bool)
         (upd : pv -> pv -> pv -> pv -> pv) (mk : CC.cnode -> nat) (kC : nat) (ctx : pv) (rest : env)
         (tyname : string -> string),
  (forall t, call_ref SE.kN [PStr t] = PStr (tyname t)) ->
  forall (t0 t1 t2 t3 x lo hi : pv) (ra rl rh : CC.result nat CC.cerr),
  call_ref kC [t0; x] = SE.enc_res (fun a => PTuple [t1; nref a]) ra ->
  call_ref kC [t1; lo] = SE.enc_res (fun a => PTuple [t2; nref a]) rl ->
  call_ref kC [t2; hi] = SE.enc_res (fun a => PTuple [t3; nref a]) rh ->
  call_method call_ref (prim_exprs tbl kids mro msg updatable upd mk) Verif.Gen.SrcExprs.compile_between
    (SE.flds kC ctx rest t0) [SE.BETWEEN x lo hi] =
  match SE.res3 ra rl rh with
  | CC.Err e => Exc (CompErr e)
  | CC.Ok (a, l, h) => match CC.build_between (tbl a) (tbl l) (tbl h) with
                       | CC.Ok n => Ok (SE.flds kC ctx rest t3, nref (mk n))
                       | CC.Err e => Exc (CompErr e)
                       end
  end.
Proof. exact SE.between_src. Qed.
Print Assumptions C04_source_between.

Theorem C04_source_inop :
  forall (call_ref : nat -> list pv -> pv) (tbl : nat -> CC.cnode) (kids : nat -> list nat)
         (mro : string -> list string) (msg : string -> list pv -> pv) (updatable : pv -> bool)
         (upd : pv -> pv -> pv -> pv -> pv) (mk : CC.cnode -> nat) (kC : nat) (ctx : pv) (rest : env)
         (qtb qlim qdist : pv) (qcw : option nat) (qgi : option (list nat)) (qhi : option nat)
         (qos : option (list (nat * bool)))
         (t0 t1 t2 x y : pv) (op : string) (ra : CC.result nat CC.cerr) (rr : CC.result SE.rval CC.cerr) (s1d : nat),
  CC.is_in_op op = true ->
  call_ref kC [t0; x] = SE.enc_res (fun a => PTuple [t1; nref a]) ra ->
  call_ref kC [t1; y] = SE.enc_res (fun v => PTuple [t2; SE.enc_rval qtb qlim qdist qcw qgi qhi qos v]) rr ->
  (forall q, call_ref SE.k1D [q] = nref s1d) -> tbl s1d = CC.NSub1D ->
  call_method call_ref (prim_exprs tbl kids mro msg updatable upd mk) Verif.Gen.SrcExprs.compile_inop
    (SE.flds kC ctx rest t0) [SE.INOP op x y] =
  match ra with
  | CC.Err e => Exc (CompErr e)
  | CC.Ok a =>
      match rr with
      | CC.Err e => Exc (CompErr e)
      | CC.Ok v => match CC.build_in_any op (tbl a) (SE.cres_of tbl v) with
                   | CC.Ok n => Ok (SE.flds kC ctx rest t2, nref (mk n))
                   | CC.Err e => Exc (CompErr e)
                   end
      end
  end.
Proof. exact SE.inop_src. Qed.
Print Assumptions C04_source_inop.

(* the implicit cast: an untyped LEFT operand is cast to the type of the right one and vice versa, an int target is
   promoted to Decimal (Compile.cast_target), a target without a cast function is the error, and after ONE cast the
   exact match is tried once more - Compile.build_binary *)
Theorem C04_source_binaryop :
  forall (call_ref : nat -> list pv -> pv) (tbl : nat -> CC.cnode) (kids : nat -> list nat)
         (mro : string -> list string) (msg : string -> list pv -> pv) (updatable : pv -> bool)
         (upd : pv -> pv -> pv -> pv -> pv) (mk : CC.cnode -> nat) (kC : nat) (ctx : pv) (rest : env)
         (tyname : string -> string),
  (forall t, call_ref SE.kN [PStr t] = PStr (tyname t)) ->
  forall (t0 t1 t2 x y : pv) (op : string) (ra rb : CC.result nat CC.cerr) (ovs : list CC.overload),
  @CC.assoc (list CC.overload) op R.operators = Some ovs ->
  call_ref kC [t0; x] = SE.enc_res (fun a => PTuple [t1; nref a]) ra ->
  call_ref kC [t1; y] = SE.enc_res (fun a => PTuple [t2; nref a]) rb ->
  (forall name a, call_ref SE.kFL [enc_functions; PStr name; PList [nref a]] =
                  SE.enc_cfound false name (CC.function_lookup R.functions name [CC.dtype (tbl a)])) ->
  (forall a b n, ra = CC.Ok a -> rb = CC.Ok b -> In n (SE.binary_allocs op (tbl a) (tbl b)) -> tbl (mk n) = n) ->
  call_method call_ref (prim_exprs tbl kids mro msg updatable upd mk) Verif.Gen.SrcExprs.compile_binaryop
    (SE.flds kC ctx rest t0) [SE.INOP op x y] =
  match ra with
  | CC.Err e => Exc (CompErr e)
  | CC.Ok a =>
      match rb with
      | CC.Err e => Exc (CompErr e)
      | CC.Ok b => match CC.build_binary op (tbl a) (tbl b) with
                   | CC.Ok n => Ok (SE.flds kC ctx rest t2, nref (mk n))
                   | CC.Err e => Exc (CompErr e)
                   end
      end
  end.
Proof. exact SE.binaryop_src. Qed.
Print Assumptions C04_source_binaryop.

(* `while True` of _binaryop is translated by unrolling it three times; a fourth pass would evaluate the primitive
   "unroll:exhausted", which has no meaning (SE.guard_is_stuck).  It is never reached: the interpretation is never
   Stuck - the loop ends within three passes (two), because no cast function of the registry announces `object`
   (SE.casts_checked, kernel-computed over the registry snapshot). *)
Theorem C04_source_binaryop_terminates :
  forall (call_ref : nat -> list pv -> pv) (tbl : nat -> CC.cnode) (kids : nat -> list nat)
         (mro : string -> list string) (msg : string -> list pv -> pv) (updatable : pv -> bool)
         (upd : pv -> pv -> pv -> pv -> pv) (mk : CC.cnode -> nat) (kC : nat) (ctx : pv) (rest : env)
         (tyname : string -> string),
  (forall t, call_ref SE.kN [PStr t] = PStr (tyname t)) ->
  forall (t0 t1 t2 x y : pv) (op : string) (ra rb : CC.result nat CC.cerr) (ovs : list CC.overload),
  @CC.assoc (list CC.overload) op R.operators = Some ovs ->
  call_ref kC [t0; x] = SE.enc_res (fun a => PTuple [t1; nref a]) ra ->
  call_ref kC [t1; y] = SE.enc_res (fun a => PTuple [t2; nref a]) rb ->
  (forall name a, call_ref SE.kFL [enc_functions; PStr name; PList [nref a]] =
                  SE.enc_cfound false name (CC.function_lookup R.functions name [CC.dtype (tbl a)])) ->
  (forall a b n, ra = CC.Ok a -> rb = CC.Ok b -> In n (SE.binary_allocs op (tbl a) (tbl b)) -> tbl (mk n) = n) ->
  Verif.Gen.SrcExprs.unroll_passes = 3%nat
  /\ (forall tbl' kids' mro' msg' updatable' upd' mk',
        prim_exprs tbl' kids' mro' msg' updatable' upd' mk' "unroll:exhausted" [] = Stuck)
  /\ call_method call_ref (prim_exprs tbl kids mro msg updatable upd mk) Verif.Gen.SrcExprs.compile_binaryop
       (SE.flds kC ctx rest t0) [SE.INOP op x y] <> Stuck.
Proof.
  intros. split; [reflexivity|]. split; [intros; reflexivity|]. eapply SE.binaryop_terminates; eassumption.
Qed.
Print Assumptions C04_source_binaryop_terminates.

(* Compiler._function: operands compiled left to right (the table threaded through), coalesce() checked and built, a
   failed lookup is the error, the selected class applied to (context, operands), a PURE function over constants only
   folded to a constant of the function's announced type - Compile.build_function, for every function name other than
   the three rewritten meta functions *)
Theorem C04_source_function :
  forall (call_ref : nat -> list pv -> pv) (tbl : nat -> CC.cnode) (kids : nat -> list nat)
         (mro : string -> list string) (msg : string -> list pv -> pv) (updatable : pv -> bool)
         (upd : pv -> pv -> pv -> pv -> pv) (mk : CC.cnode -> nat) (kC : nat) (ctx : pv) (rest : env)
         (rc : pv -> pv -> CC.result (pv * nat) CC.cerr),
  (forall t x, call_ref kC [t; x] = SE.enc_res (fun p => PTuple [fst p; nref (snd p)]) (rc t x)) ->
  forall (tb : CC.table) (t0 pinfo : pv) (fname : string) (xs : list pv),
  SF.is_meta fname = false ->
  (forall ops, call_ref SE.kFL [enc_functions; PStr fname; PList (map nref ops)] =
               SE.enc_cfound false fname (CC.function_lookup R.functions fname (map (fun i => CC.dtype (tbl i)) ops))) ->
  (forall t1 ops i o, SF.seq_compile rc t0 xs = CC.Ok (t1, ops) ->
     CC.function_lookup R.functions fname (map (fun i => CC.dtype (tbl i)) ops) = Some (i, o) ->
     tbl (mk (func_node fname i o (map tbl ops))) = func_node fname i o (map tbl ops)) ->
  call_method call_ref (prim_exprs tbl kids mro msg updatable upd mk) Verif.Gen.SrcExprs.compile_function
    (SE.flds kC ctx rest t0) [SF.FUNC fname xs pinfo] =
  match SF.seq_compile rc t0 xs with
  | CC.Err e => Exc (CompErr e)
  | CC.Ok (t1, ops) =>
      match CC.build_function tb fname (map tbl ops) with
      | CC.Ok n => Ok (SE.flds kC ctx rest t1, nref (mk n))
      | CC.Err e => Exc (CompErr e)
      end
  end.
Proof. exact SF.function_model_src. Qed.
Print Assumptions C04_source_function.

(* ... and for EVERY name, the three meta functions included: meta(k) / entry_meta(k) / any_meta(k) - once the lookup
   has accepted them - return what compiling getitem(meta, k) / getitem(entry.meta, k) / getitem(meta, k,
   getitem(entry.meta, k)) returns (SF.meta_node), with the table that compilation leaves behind *)
Theorem C04_source_function_flow :
  forall (call_ref : nat -> list pv -> pv) (tbl : nat -> CC.cnode) (kids : nat -> list nat)
         (mro : string -> list string) (msg : string -> list pv -> pv) (updatable : pv -> bool)
         (upd : pv -> pv -> pv -> pv -> pv) (mk : CC.cnode -> nat) (kC : nat) (ctx : pv) (rest : env)
         (rc : pv -> pv -> CC.result (pv * nat) CC.cerr),
  (forall t x, call_ref kC [t; x] = SE.enc_res (fun p => PTuple [fst p; nref (snd p)]) (rc t x)) ->
  forall (t0 pinfo : pv) (fname : string) (xs : list pv),
  (forall ops, call_ref SE.kFL [enc_functions; PStr fname; PList (map nref ops)] =
               SE.enc_cfound false fname (CC.function_lookup R.functions fname (map (fun i => CC.dtype (tbl i)) ops))) ->
  (forall t1 ops i o, SF.seq_compile rc t0 xs = CC.Ok (t1, ops) ->
     CC.function_lookup R.functions fname (map (fun i => CC.dtype (tbl i)) ops) = Some (i, o) ->
     tbl (mk (func_node fname i o (map tbl ops))) = func_node fname i o (map tbl ops)) ->
  call_method call_ref (prim_exprs tbl kids mro msg updatable upd mk) Verif.Gen.SrcExprs.compile_function
    (SE.flds kC ctx rest t0) [SF.FUNC fname xs pinfo] =
  match SF.seq_compile rc t0 xs with
  | CC.Err e => Exc (CompErr e)
  | CC.Ok (t1, ops) => SF.p_function tbl mk kC ctx rest rc t1 fname xs pinfo ops
  end.
Proof. exact SF.function_src. Qed.
Print Assumptions C04_source_function_flow.

(* the hypotheses are satisfiable and the interpretation really runs.  `m + n` with m untyped (object) and n an int
   column: the LEFT operand is cast with decimal() - int is promoted to Decimal -, then Add(Decimal, int) matches:
   heap 0 = m, 1 = n, 2 = decimal(m), 3 = the Add node; what the interpreted source returns is what the model builds *)
Definition ex_tbl (i : nat) : CC.cnode :=
  let m := CC.NCol "m" "object" in
  let n := CC.NCol "n" "int" in
  let c := CC.NFunc "decimal" 0 [m] "Decimal" false in
  match i with
  | 0%nat => m
  | 1%nat => n
  | 2%nat => c
  | _ => match CC.exact_lookup "Add" ["Decimal"; "int"] with
         | Some (j, o) => CC.NOp "Add" j [c; n] (CC.ov_out o)
         | None => m
         end
  end%string.
Definition ex_mk (n : CC.cnode) : nat := match n with CC.NFunc _ _ _ _ _ => 2%nat | _ => 3%nat end.
Definition ex_call (k : nat) (args : list pv) : pv :=
  match k, args with
  | 9%nat, [t; PV (VInt z)] => PTuple [t; nref (Z.to_nat z)]          (* self._compile *)
  | 0%nat, [_; PV (VStr nm); PList [x]] =>                            (* types.function_lookup(FUNCTIONS, name, [x]) *)
      match as_nref x with
      | Some i => SE.enc_cfound false (unzs nm) (CC.function_lookup R.functions (unzs nm) [CC.dtype (ex_tbl i)])
      | None => PNone
      end
  | 1%nat, _ => PStr ""                                               (* types.name *)
  | _, _ => PNone
  end.
Example C04_source_binaryop_example :
  call_method ex_call
    (prim_exprs ex_tbl (fun _ => []) (fun _ => []) (fun _ _ => PNone) (fun _ => false) (fun _ _ _ _ => PNone) ex_mk)
    Verif.Gen.SrcExprs.compile_binaryop (SE.flds 9 PNone [] PNone) [SE.INOP "Add" (PInt 0) (PInt 1)]
  = Ok (SE.flds 9 PNone [] PNone, nref 3)
  /\ CC.build_binary "Add" (ex_tbl 0) (ex_tbl 1) = CC.Ok (ex_tbl 3)
  /\ (forall n, In n (SE.binary_allocs "Add" (ex_tbl 0) (ex_tbl 1)) -> ex_tbl (ex_mk n) = n)
  /\ CC.dtype (ex_tbl 3) = "Decimal"%string.
Proof.
  split; [vm_compute; reflexivity|]. split; [vm_compute; reflexivity|]. split; [|vm_compute; reflexivity].
  intros n H. vm_compute in H. destruct H as [<-|[<-|[]]]; vm_compute; reflexivity.
Qed.
