(* C20 Thread isolation: concurrent queries give the same results as serial execution.
   Statements only; proofs are in Proofs/ThreadsProofs.v.  Model: Model/Threads.v
   (run : schedule -> programs -> results).  Gen/SharedState.v is regenerated from the
   imported beanquery modules on every run. *)
From Coq Require Import ZArith List Bool String.
Import ListNotations.
From Verif Require Import Model.Threads Proofs.ThreadsProofs Gen.SharedState.
Open Scope Z_scope.

(* If the inventory of process-wide cells is empty and no parsed statement object is both
   shared between threads and written by compile, then for EVERY schedule (also with yield
   points at every row and around every cell access, fine = true), for any number of
   threads and any programs, the results are the serial results. *)
Theorem C20_isolation : forall (cells : list cell_id) (astw fine : bool) (sched : list nat) (ps : list prog),
  cells = [] -> (astw = false \/ shared_statements ps = []) ->
  run cells astw fine sched ps = serial cells astw fine ps.
Proof. exact isolation. Qed.
Print Assumptions C20_isolation.

(* The scheduler-level statement behind it, for arbitrary computations: threads that touch
   no shared cell commute; results AND final global state are schedule-independent. *)
Theorem C20_private_threads_commute : forall (A : Type) (ts : list (comp A)) (g : glob) (sched : list nat),
  Forall private ts -> run_state sched (ts, g) = run_state [] (ts, g).
Proof. exact isolation_sched. Qed.
Print Assumptions C20_private_threads_commute.

(* OBLIGATION on the generated data: the code under test has no process-wide cell that is
   written at query time (no functools cache, nothing changed by the workload).  A new
   module-level cache breaks this line. *)
Theorem C20_inventory_empty : query_time_shared_cells = [].
Proof. reflexivity. Qed.
Print Assumptions C20_inventory_empty.

Theorem C20_workload_changes_nothing : changed_by_workload = [] /\ functools_caches = [].
Proof. split; reflexivity. Qed.
Print Assumptions C20_workload_changes_nothing.

(* The isolation theorem instantiated with what was extracted from the code. *)
Theorem C20_isolation_of_this_tree : forall (fine : bool) (sched : list nat) (ps : list prog),
  (compile_writes_statement = false \/ shared_statements ps = []) ->
  run query_time_shared_cells compile_writes_statement fine sched ps
  = serial query_time_shared_cells compile_writes_statement fine ps.
Proof. intros. apply isolation; [exact C20_inventory_empty | assumption]. Qed.
Print Assumptions C20_isolation_of_this_tree.

(* No thread ever writes the function registry, whatever the cells and the schedule. *)
Theorem C20_registries_read_only : forall cells astw fine reg sched ps,
  g_reg (snd (run_full cells astw fine reg sched ps)) = reg.
Proof. exact registries_read_only. Qed.
Print Assumptions C20_registries_read_only.

(* The repair (/repo 960d829: memo on the Row instead of the process-wide cache) keeps the
   serial semantics "however many times balance is referenced in a row it advances once":
   for every compiled query without IN-subqueries, executed alone from a cache holding no
   entry of this thread, the OLD design and the NEW design deliver the same rows.
   (With a subquery that references balance they differ: C20_shared_cache_reentrancy.) *)
Theorem C20_repair_preserves_serial :
  forall (fine : bool) (rows : list posting) (tid : Z) (q : query) (g g' : glob),
  nosub_query q = true -> cache_foreign tid g ->
  fst (to_end (exec fine true rows tid q) g) = fst (to_end (exec fine false rows tid q) g').
Proof. exact repair_preserves_serial. Qed.
Print Assumptions C20_repair_preserves_serial.

(* ------------------------------------------------------------------ *)
(* Why the hypothesis matters: the design before /repo 960d829 (module-level
   functools.lru_cache(maxsize=1) on the balance column).                *)

Definition led : list posting := [mkP 2020 2 5; mkP 2020 2 (-5); mkP 2021 3 7; mkP 2021 3 (-7)].
(* SELECT balance, vyield(year), balance FROM #postings *)
Definition pA : prog :=
  mkProg (mkStmt [] (QSelect [EBalance; EYield (ECol CYear); EBalance] (EConst (Some 1)))) None PNone led.

Example C20_shared_cache_refuted :
  exists (ps : list prog) (sched : list nat),
    run [CBalanceCache] true false sched ps <> serial [CBalanceCache] true false ps.
Proof. exists [pA; pA], [0%nat; 1%nat; 0%nat]. vm_compute. discriminate. Qed.

(* the witness in full: A evaluates balance, B evaluates balance (evicting A's entry),
   A evaluates balance again in the same row: the posting is added twice *)
Definition doubled : result :=
  RRows [[Some 5; Some 2020; Some 10]; [Some 5; Some 2020; Some 5];
         [Some 12; Some 2021; Some 12]; [Some 5; Some 2021; Some 5]].
Definition correct : result :=
  RRows [[Some 5; Some 2020; Some 5]; [Some 0; Some 2020; Some 0];
         [Some 7; Some 2021; Some 7]; [Some 0; Some 2021; Some 0]].
Example C20_shared_cache_witness :
  run [CBalanceCache] true false [0%nat; 1%nat; 0%nat] [pA; pA] = [doubled; doubled]
  /\ serial [CBalanceCache] true false [pA; pA] = [correct; correct]
  /\ run [] true false [0%nat; 1%nat; 0%nat] [pA; pA] = [correct; correct].
Proof. vm_compute. repeat split. Qed.

(* The same cell is hit by ONE thread through a subquery that references balance:
   SELECT balance, year IN (SELECT year FROM #postings WHERE empty(balance)), balance *)
Definition pR : prog :=
  mkProg (mkStmt [] (QSelect [EBalance; EIn 0 (ECol CYear) (ECol CYear) (EEmpty EBalance); EBalance] (EConst (Some 1))))
         None PNone led.
Example C20_shared_cache_reentrancy :
  serial [CBalanceCache] true false [pR] <> serial [] true false [pR].
Proof. vm_compute. discriminate. Qed.

(* A parsed statement with two positional placeholders shared by two threads while compile
   writes the numbering on it (DESIGN 7 D1): the second compile fails - in every schedule
   and serially alike. *)
Definition pS (a b : Z) : prog :=
  mkProg (mkStmt [PhEmpty; PhEmpty] (QSelect [EAdd (EYield (ECol CYear)) (EParam 0); EParam 1] (EConst (Some 1))))
         (Some 0%nat) (PSeq [Some a; Some b]) led.
Example C20_shared_statement_two_positional :
  run [] true false [1%nat; 0%nat] [pS 1 2; pS 3 4] = [RErr 1; RRows [[Some 2023; Some 4]; [Some 2023; Some 4]; [Some 2024; Some 4]; [Some 2024; Some 4]]]
  /\ serial [] true false [pS 1 2; pS 3 4] = [RRows [[Some 2021; Some 2]; [Some 2021; Some 2]; [Some 2022; Some 2]; [Some 2022; Some 2]]; RErr 1]
  /\ run [] false false [1%nat; 0%nat] [pS 1 2; pS 3 4] = serial [] false false [pS 1 2; pS 3 4].
Proof. vm_compute. repeat split. Qed.

(* Non-vacuity: programs meeting the hypotheses. *)
Example C20_example : shared_statements [pA; pR; pA] = [] /\
  run [] true true [2%nat; 0%nat; 1%nat; 1%nat; 0%nat; 2%nat; 7%nat; 0%nat] [pA; pR; pA] = serial [] true true [pA; pR; pA].
Proof. vm_compute. split; reflexivity. Qed.
