(* C20 Thread isolation: concurrent queries give the same results as serial execution.
   Statements only; proofs are in Proofs/ThreadsProofs.v.  Model: Model/Threads.v
   (run : schedule -> programs -> results).  Gen/SharedState.v is regenerated from the
   imported beanquery modules on every run. *)
From Coq Require Import ZArith List Bool String.
Import ListNotations.
From Verif Require Import Model.Threads Proofs.ThreadsProofs Gen.SharedState.
Open Scope Z_scope.

(* If the inventory of process-wide cells is empty and no parsed statement object is both
   shared between threads and written by compile, then for EVERY schedule (also with yield
   points at every row and around every cell access, fine = true), for any number of
   threads and any programs, the results are the serial results. *)
Theorem C20_isolation : forall (cells : list cell_id) (astw fine : bool) (sched : list nat) (ps : list prog),
  cells = [] -> (astw = false \/ shared_statements ps = []) ->
  run cells astw fine sched ps = serial cells astw fine ps.
Proof. exact isolation. Qed.
Print Assumptions C20_isolation.

(* The scheduler-level statement behind it, for arbitrary computations: threads that touch
   no shared cell commute; results AND final global state are schedule-independent. *)
Theorem C20_private_threads_commute : forall (A : Type) (ts : list (comp A)) (g : glob) (sched : list nat),
  Forall private ts -> run_state sched (ts, g) = run_state [] (ts, g).
Proof. exact isolation_sched. Qed.
Print Assumptions C20_private_threads_commute.

(* OBLIGATION on the generated data: the code under test has no process-wide cell that is
   written at query time (no functools cache, nothing changed by the workload).  A new
   module-level cache breaks this line. *)
Theorem C20_inventory_empty : query_time_shared_cells = [].
Proof. reflexivity. Qed.
Print Assumptions C20_inventory_empty.

Theorem C20_workload_changes_nothing : changed_by_workload = [] /\ functools_caches = [].
Proof. split; reflexivity. Qed.
Print Assumptions C20_workload_changes_nothing.

(* The isolation theorem instantiated with what was extracted from the code. *)
Theorem C20_isolation_of_this_tree : forall (fine : bool) (sched : list nat) (ps : list prog),
  (compile_writes_statement = false \/ shared_statements ps = []) ->
  run query_time_shared_cells compile_writes_statement fine sched ps
  = serial query_time_shared_cells compile_writes_statement fine ps.
Proof. intros. apply isolation; [exact C20_inventory_empty | assumption]. Qed.
Print Assumptions C20_isolation_of_this_tree.

(* No thread ever writes the function registry, whatever the cells and the schedule. *)
Theorem C20_registries_read_only : forall cells astw fine reg sched ps,
  g_reg (snd (run_full cells astw fine reg sched ps)) = reg.
Proof. exact registries_read_only. Qed.
Print Assumptions C20_registries_read_only.

(* The repair (/repo 960d829: memo on the Row instead of the process-wide cache) keeps the
   serial semantics "however many times balance is referenced in a row it advances once":
   for every compiled query without IN-subqueries, executed alone from a cache holding no
   entry of this thread, the OLD design and the NEW design deliver the same rows.
   (With a subquery that references balance they differ: C20_shared_cache_reentrancy.) *)
Theorem C20_repair_preserves_serial :
  forall (fine : bool) (rows : list posting) (tid : Z) (q : query) (g g' : glob),
  nosub_query q = true -> cache_foreign tid g ->
  fst (to_end (exec fine true rows tid q) g) = fst (to_end (exec fine false rows tid q) g').
Proof. exact repair_preserves_serial. Qed.
Print Assumptions C20_repair_preserves_serial.

(* ------------------------------------------------------------------ *)
(* Why the hypothesis matters: the design before /repo 960d829 (module-level
   functools.lru_cache(maxsize=1) on the balance column).                *)

Definition led : list posting := [mkP 2020 2 5; mkP 2020 2 (-5); mkP 2021 3 7; mkP 2021 3 (-7)].
(* SELECT balance, vyield(year), balance FROM #postings *)
Definition pA : prog :=
  mkProg (mkStmt [] (QSelect [EBalance; EYield (ECol CYear); EBalance] (EConst (Some 1)))) None PNone led.

Example C20_shared_cache_refuted :
  exists (ps : list prog) (sched : list nat),
    run [CBalanceCache] true false sched ps <> serial [CBalanceCache] true false ps.
Proof. exists [pA; pA], [0%nat; 1%nat; 0%nat]. vm_compute. discriminate. Qed.

(* the witness in full: A evaluates balance, B evaluates balance (evicting A's entry),
   A evaluates balance again in the same row: the posting is added twice *)
Definition doubled : result :=
  RRows [[Some 5; Some 2020; Some 10]; [Some 5; Some 2020; Some 5];
         [Some 12; Some 2021; Some 12]; [Some 5; Some 2021; Some 5]].
Definition correct : result :=
  RRows [[Some 5; Some 2020; Some 5]; [Some 0; Some 2020; Some 0];
         [Some 7; Some 2021; Some 7]; [Some 0; Some 2021; Some 0]].
Example C20_shared_cache_witness :
  run [CBalanceCache] true false [0%nat; 1%nat; 0%nat] [pA; pA] = [doubled; doubled]
  /\ serial [CBalanceCache] true false [pA; pA] = [correct; correct]
  /\ run [] true false [0%nat; 1%nat; 0%nat] [pA; pA] = [correct; correct].
Proof. vm_compute. repeat split. Qed.

(* The same cell is hit by ONE thread through a subquery that references balance:
   SELECT balance, year IN (SELECT year FROM #postings WHERE empty(balance)), balance *)
Definition pR : prog :=
  mkProg (mkStmt [] (QSelect [EBalance; EIn 0 (ECol CYear) (ECol CYear) (EEmpty EBalance); EBalance] (EConst (Some 1))))
         None PNone led.
Example C20_shared_cache_reentrancy :
  serial [CBalanceCache] true false [pR] <> serial [] true false [pR].
Proof. vm_compute. discriminate. Qed.

(* A parsed statement with two positional placeholders shared by two threads while compile
   writes the numbering on it (DESIGN 7 D1): the second compile fails - in every schedule
   and serially alike. *)
Definition pS (a b : Z) : prog :=
  mkProg (mkStmt [PhEmpty; PhEmpty] (QSelect [EAdd (EYield (ECol CYear)) (EParam 0); EParam 1] (EConst (Some 1))))
         (Some 0%nat) (PSeq [Some a; Some b]) led.
Example C20_shared_statement_two_positional :
  run [] true false [1%nat; 0%nat] [pS 1 2; pS 3 4] = [RErr 1; RRows [[Some 2023; Some 4]; [Some 2023; Some 4]; [Some 2024; Some 4]; [Some 2024; Some 4]]]
  /\ serial [] true false [pS 1 2; pS 3 4] = [RRows [[Some 2021; Some 2]; [Some 2021; Some 2]; [Some 2022; Some 2]; [Some 2022; Some 2]]; RErr 1]
  /\ run [] false false [1%nat; 0%nat] [pS 1 2; pS 3 4] = serial [] false false [pS 1 2; pS 3 4].
Proof. vm_compute. repeat split. Qed.

(* Non-vacuity: programs meeting the hypotheses. *)
Example C20_example : shared_statements [pA; pR; pA] = [] /\
  run [] true true [2%nat; 0%nat; 1%nat; 1%nat; 0%nat; 2%nat; 7%nat; 0%nat] [pA; pR; pA] = serial [] true true [pA; pR; pA].
Proof. vm_compute. split; reflexivity. Qed.

(* ------------------------------------------------------------------ *)
(* Keyed cells: containers the statement model does not interpret (a per-connection cache of
   compiled statements, a class-level column namespace).  With an empty inventory the column
   namespace of a FROM-subquery is private to one compilation and the aggregator nodes are
   private to one execution: every schedule gives the serial results, for any number of
   threads, statements and groups. *)
Theorem C20_keyed_cells_isolation : forall (cells : list cell_id) (sched : list nat)
    (qs : list ns_stmt) (gs : list (list (list Z))),
  cells = [] ->
  krun sched (map (ns_thread (keyed_cells_shared cells)) qs) = kserial (map (ns_thread (keyed_cells_shared cells)) qs) /\
  krun sched (map (agg_emit (keyed_cells_shared cells)) gs) = kserial (map (agg_emit (keyed_cells_shared cells)) gs).
Proof. exact keyed_cells_isolation. Qed.
Print Assumptions C20_keyed_cells_isolation.

(* The scheduler-level statement behind it. *)
Theorem C20_keyed_private_threads_commute : forall (A : Type) (ts : list (kcomp A)) (s : kstore) (sched : list nat),
  Forall kprivate ts -> krun_state sched (ts, s) = krun_state [] (ts, s).
Proof. exact kisolation_sched. Qed.
Print Assumptions C20_keyed_private_threads_commute.

(* Why the hypothesis matters (the two designs the inventory must exclude).
   (a) ONE column namespace for all FROM-subqueries (a class attribute):
       T0: SELECT a, f(1), b, b FROM (SELECT .. AS a, .. AS b)      names a=10, b=11
       T1: SELECT f(2), b, a, b FROM (SELECT .. AS b, .. AS a)
       schedule [1]: T1 compiles its FROM clause and stops in f(2); T0 compiles entirely; T1 resumes and binds
       b, a, b to T0's columns. *)
Definition nsA : ns_stmt := mkNs [10; 11] [10] [11; 11].
Definition nsB : ns_stmt := mkNs [11; 10] [] [11; 10; 11].
Example C20_shared_column_namespace_witness :
  krun [1%nat] (map (ns_thread true) [nsA; nsB]) = [[Some 0; Some 1; Some 1]; [Some 1; Some 0; Some 1]]
  /\ kserial (map (ns_thread true) [nsA; nsB]) = [[Some 0; Some 1; Some 1]; [Some 0; Some 1; Some 0]]
  /\ krun [1%nat] (map (ns_thread false) [nsA; nsB]) = [[Some 0; Some 1; Some 1]; [Some 0; Some 1; Some 0]].
Proof. vm_compute. repeat split. Qed.

Example C20_shared_column_namespace_refuted :
  exists (qs : list ns_stmt) (sched : list nat),
    krun sched (map (ns_thread true) qs) <> kserial (map (ns_thread true) qs).
Proof. exists [nsA; nsB], [1%nat]. vm_compute. discriminate. Qed.

(* (b) ONE compiled tree for all executions of a statement text on a connection (cached):
       SELECT account, f(max(number)), f(sum(position)) GROUP BY account, groups (7, 17) (4, -7) (-3, -10),
       the same statement in both threads; schedule [1]: T1 finalises its first group, reads the first value and
       stops in f; T0 runs to its end (the nodes keep the values of the LAST group); T1 resumes and reads the
       second value of its first group from the nodes: -10 instead of 17. *)
Definition groups3 : list (list Z) := [[7; 17]; [4; -7]; [-3; -10]].
Definition rows3 : list (list (option Z)) := [[Some 7; Some 17]; [Some 4; Some (-7)]; [Some (-3); Some (-10)]].
Example C20_shared_compiled_statement_witness :
  krun [1%nat] (map (agg_emit true) [groups3; groups3])
    = [rows3; [[Some 7; Some (-10)]; [Some 4; Some (-7)]; [Some (-3); Some (-10)]]]
  /\ kserial (map (agg_emit true) [groups3; groups3]) = [rows3; rows3]
  /\ krun [1%nat] (map (agg_emit false) [groups3; groups3]) = [rows3; rows3].
Proof. vm_compute. repeat split. Qed.

Example C20_shared_compiled_statement_refuted :
  exists (gs : list (list (list Z))) (sched : list nat),
    krun sched (map (agg_emit true) gs) <> kserial (map (agg_emit true) gs).
Proof. exists [groups3; groups3], [1%nat]. vm_compute. discriminate. Qed.

(* The keyed-cell theorem instantiated with what was extracted from the code. *)
Theorem C20_keyed_cells_isolation_of_this_tree : forall (sched : list nat) (qs : list ns_stmt) (gs : list (list (list Z))),
  krun sched (map (ns_thread (keyed_cells_shared query_time_shared_cells)) qs)
    = kserial (map (ns_thread (keyed_cells_shared query_time_shared_cells)) qs) /\
  krun sched (map (agg_emit (keyed_cells_shared query_time_shared_cells)) gs)
    = kserial (map (agg_emit (keyed_cells_shared query_time_shared_cells)) gs).
Proof. intros. apply keyed_cells_isolation. exact C20_inventory_empty. Qed.
Print Assumptions C20_keyed_cells_isolation_of_this_tree.
