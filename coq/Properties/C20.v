(* C20 Thread isolation: concurrent queries give the same results as serial execution.
   Statements only; proofs are in Proofs/ThreadsProofs.v.  Model: Model/Threads.v
   (run : schedule -> programs -> results).  Gen/SharedState.v is regenerated from the
   imported beanquery modules on every run. *)
From Coq Require Import ZArith List Bool String.
Import ListNotations.
From Verif Require Import Model.Threads Proofs.ThreadsProofs Gen.SharedState.
(* translator tie (bld-misc): required here, imported where the source theorem starts (names of Model/PyMini.v such as
   exec / run / eval would shadow those of Model/Threads.v above) *)
From Verif Require Base.PyValue Model.PyMini Model.PrimsApi Gen.SrcParams Proofs.SrcParams Proofs.SrcParamsC20.
Open Scope Z_scope.

(* If the inventory of process-wide cells is empty and no parsed statement object is both
   shared between threads and written by compile, then for EVERY schedule (also with yield
   points at every row and around every cell access, fine = true), for any number of
   threads and any programs, the results are the serial results. *)
Theorem C20_isolation : forall (cells : list cell_id) (astw fine : bool) (sched : list nat) (ps : list prog),
  cells = [] -> (astw = false \/ shared_statements ps = []) ->
  run cells astw fine sched ps = serial cells astw fine ps.
Proof. exact isolation. Qed.
Print Assumptions C20_isolation.

(* The scheduler-level statement behind it, for arbitrary computations: threads that touch
   no shared cell commute; results AND final global state are schedule-independent. *)
Theorem C20_private_threads_commute : forall (A : Type) (ts : list (comp A)) (g : glob) (sched : list nat),
  Forall private ts -> run_state sched (ts, g) = run_state [] (ts, g).
Proof. exact isolation_sched. Qed.
Print Assumptions C20_private_threads_commute.

(* OBLIGATION on the generated data: the code under test has no process-wide cell that is
   written at query time (no functools cache, nothing changed by the workload).  A new
   module-level cache breaks this line. *)
Theorem C20_inventory_empty : query_time_shared_cells = [].
Proof. reflexivity. Qed.
Print Assumptions C20_inventory_empty.

Theorem C20_workload_changes_nothing : changed_by_workload = [] /\ functools_caches = [].
Proof. split; reflexivity. Qed.
Print Assumptions C20_workload_changes_nothing.

(* The isolation theorem instantiated with what was extracted from the code. *)
Theorem C20_isolation_of_this_tree : forall (fine : bool) (sched : list nat) (ps : list prog),
  (compile_writes_statement = false \/ shared_statements ps = []) ->
  run query_time_shared_cells compile_writes_statement fine sched ps
  = serial query_time_shared_cells compile_writes_statement fine ps.
Proof. intros. apply isolation; [exact C20_inventory_empty | assumption]. Qed.
Print Assumptions C20_isolation_of_this_tree.

(* No thread ever writes the function registry, whatever the cells and the schedule. *)
Theorem C20_registries_read_only : forall cells astw fine reg sched ps,
  g_reg (snd (run_full cells astw fine reg sched ps)) = reg.
Proof. exact registries_read_only. Qed.
Print Assumptions C20_registries_read_only.

(* The repair (/repo 960d829: memo on the Row instead of the process-wide cache) keeps the
   serial semantics "however many times balance is referenced in a row it advances once":
   for every compiled query without IN-subqueries, executed alone from a cache holding no
   entry of this thread, the OLD design and the NEW design deliver the same rows.
   (With a subquery that references balance they differ: C20_shared_cache_reentrancy.) *)
Theorem C20_repair_preserves_serial :
  forall (fine : bool) (rows : list posting) (tid : Z) (q : query) (g g' : glob),
  nosub_query q = true -> cache_foreign tid g ->
  fst (to_end (exec fine true rows tid q) g) = fst (to_end (exec fine false rows tid q) g').
Proof. exact repair_preserves_serial. Qed.
Print Assumptions C20_repair_preserves_serial.

(* ------------------------------------------------------------------ *)
(* Why the hypothesis matters: the design before /repo 960d829 (module-level
   functools.lru_cache(maxsize=1) on the balance column).                *)

Definition led : list posting := [mkP 2020 2 5; mkP 2020 2 (-5); mkP 2021 3 7; mkP 2021 3 (-7)].
(* SELECT balance, vyield(year), balance FROM #postings *)
Definition pA : prog :=
  mkProg (mkStmt [] (QSelect [EBalance; EYield (ECol CYear); EBalance] (EConst (Some 1)))) None PNone led.

Example C20_shared_cache_refuted :
  exists (ps : list prog) (sched : list nat),
    run [CBalanceCache] true false sched ps <> serial [CBalanceCache] true false ps.
Proof. exists [pA; pA], [0%nat; 1%nat; 0%nat]. vm_compute. discriminate. Qed.

(* the witness in full: A evaluates balance, B evaluates balance (evicting A's entry),
   A evaluates balance again in the same row: the posting is added twice *)
Definition doubled : result :=
  RRows [[Some 5; Some 2020; Some 10]; [Some 5; Some 2020; Some 5];
         [Some 12; Some 2021; Some 12]; [Some 5; Some 2021; Some 5]].
Definition correct : result :=
  RRows [[Some 5; Some 2020; Some 5]; [Some 0; Some 2020; Some 0];
         [Some 7; Some 2021; Some 7]; [Some 0; Some 2021; Some 0]].
Example C20_shared_cache_witness :
  run [CBalanceCache] true false [0%nat; 1%nat; 0%nat] [pA; pA] = [doubled; doubled]
  /\ serial [CBalanceCache] true false [pA; pA] = [correct; correct]
  /\ run [] true false [0%nat; 1%nat; 0%nat] [pA; pA] = [correct; correct].
Proof. vm_compute. repeat split. Qed.

(* The same cell is hit by ONE thread through a subquery that references balance:
   SELECT balance, year IN (SELECT year FROM #postings WHERE empty(balance)), balance *)
Definition pR : prog :=
  mkProg (mkStmt [] (QSelect [EBalance; EIn 0 (ECol CYear) (ECol CYear) (EEmpty EBalance); EBalance] (EConst (Some 1))))
         None PNone led.
Example C20_shared_cache_reentrancy :
  serial [CBalanceCache] true false [pR] <> serial [] true false [pR].
Proof. vm_compute. discriminate. Qed.

(* A parsed statement with two positional placeholders shared by two threads while compile
   writes the numbering on it (DESIGN 7 D1): the second compile fails - in every schedule
   and serially alike. *)
Definition pS (a b : Z) : prog :=
  mkProg (mkStmt [PhEmpty; PhEmpty] (QSelect [EAdd (EYield (ECol CYear)) (EParam 0); EParam 1] (EConst (Some 1))))
         (Some 0%nat) (PSeq [Some a; Some b]) led.
Example C20_shared_statement_two_positional :
  run [] true false [1%nat; 0%nat] [pS 1 2; pS 3 4] = [RErr 1; RRows [[Some 2023; Some 4]; [Some 2023; Some 4]; [Some 2024; Some 4]; [Some 2024; Some 4]]]
  /\ serial [] true false [pS 1 2; pS 3 4] = [RRows [[Some 2021; Some 2]; [Some 2021; Some 2]; [Some 2022; Some 2]; [Some 2022; Some 2]]; RErr 1]
  /\ run [] false false [1%nat; 0%nat] [pS 1 2; pS 3 4] = serial [] false false [pS 1 2; pS 3 4].
Proof. vm_compute. repeat split. Qed.

(* Non-vacuity: programs meeting the hypotheses. *)
Example C20_example : shared_statements [pA; pR; pA] = [] /\
  run [] true true [2%nat; 0%nat; 1%nat; 1%nat; 0%nat; 2%nat; 7%nat; 0%nat] [pA; pR; pA] = serial [] true true [pA; pR; pA].
Proof. vm_compute. split; reflexivity. Qed.

(* ------------------------------------------------------------------ *)
(* Keyed cells: containers the statement model does not interpret (a per-connection cache of
   compiled statements, a class-level column namespace).  With an empty inventory the column
   namespace of a FROM-subquery is private to one compilation and the aggregator nodes are
   private to one execution: every schedule gives the serial results, for any number of
   threads, statements and groups. *)
Theorem C20_keyed_cells_isolation : forall (cells : list cell_id) (sched : list nat)
    (qs : list ns_stmt) (gs : list (list (list Z))),
  cells = [] ->
  krun sched (map (ns_thread (keyed_cells_shared cells)) qs) = kserial (map (ns_thread (keyed_cells_shared cells)) qs) /\
  krun sched (map (agg_emit (keyed_cells_shared cells)) gs) = kserial (map (agg_emit (keyed_cells_shared cells)) gs).
Proof. exact keyed_cells_isolation. Qed.
Print Assumptions C20_keyed_cells_isolation.

(* The scheduler-level statement behind it. *)
Theorem C20_keyed_private_threads_commute : forall (A : Type) (ts : list (kcomp A)) (s : kstore) (sched : list nat),
  Forall kprivate ts -> krun_state sched (ts, s) = krun_state [] (ts, s).
Proof. exact kisolation_sched. Qed.
Print Assumptions C20_keyed_private_threads_commute.

(* Why the hypothesis matters (the two designs the inventory must exclude).
   (a) ONE column namespace for all FROM-subqueries (a class attribute):
       T0: SELECT a, f(1), b, b FROM (SELECT .. AS a, .. AS b)      names a=10, b=11
       T1: SELECT f(2), b, a, b FROM (SELECT .. AS b, .. AS a)
       schedule [1]: T1 compiles its FROM clause and stops in f(2); T0 compiles entirely; T1 resumes and binds
       b, a, b to T0's columns. *)
Definition nsA : ns_stmt := mkNs [10; 11] [10] [11; 11].
Definition nsB : ns_stmt := mkNs [11; 10] [] [11; 10; 11].
Example C20_shared_column_namespace_witness :
  krun [1%nat] (map (ns_thread true) [nsA; nsB]) = [[Some 0; Some 1; Some 1]; [Some 1; Some 0; Some 1]]
  /\ kserial (map (ns_thread true) [nsA; nsB]) = [[Some 0; Some 1; Some 1]; [Some 0; Some 1; Some 0]]
  /\ krun [1%nat] (map (ns_thread false) [nsA; nsB]) = [[Some 0; Some 1; Some 1]; [Some 0; Some 1; Some 0]].
Proof. vm_compute. repeat split. Qed.

Example C20_shared_column_namespace_refuted :
  exists (qs : list ns_stmt) (sched : list nat),
    krun sched (map (ns_thread true) qs) <> kserial (map (ns_thread true) qs).
Proof. exists [nsA; nsB], [1%nat]. vm_compute. discriminate. Qed.

(* (b) ONE compiled tree for all executions of a statement text on a connection (cached):
       SELECT account, f(max(number)), f(sum(position)) GROUP BY account, groups (7, 17) (4, -7) (-3, -10),
       the same statement in both threads; schedule [1]: T1 finalises its first group, reads the first value and
       stops in f; T0 runs to its end (the nodes keep the values of the LAST group); T1 resumes and reads the
       second value of its first group from the nodes: -10 instead of 17. *)
Definition groups3 : list (list Z) := [[7; 17]; [4; -7]; [-3; -10]].
Definition rows3 : list (list (option Z)) := [[Some 7; Some 17]; [Some 4; Some (-7)]; [Some (-3); Some (-10)]].
Example C20_shared_compiled_statement_witness :
  krun [1%nat] (map (agg_emit true) [groups3; groups3])
    = [rows3; [[Some 7; Some (-10)]; [Some 4; Some (-7)]; [Some (-3); Some (-10)]]]
  /\ kserial (map (agg_emit true) [groups3; groups3]) = [rows3; rows3]
  /\ krun [1%nat] (map (agg_emit false) [groups3; groups3]) = [rows3; rows3].
Proof. vm_compute. repeat split. Qed.

Example C20_shared_compiled_statement_refuted :
  exists (gs : list (list (list Z))) (sched : list nat),
    krun sched (map (agg_emit true) gs) <> kserial (map (agg_emit true) gs).
Proof. exists [groups3; groups3], [1%nat]. vm_compute. discriminate. Qed.

(* The keyed-cell theorem instantiated with what was extracted from the code. *)
Theorem C20_keyed_cells_isolation_of_this_tree : forall (sched : list nat) (qs : list ns_stmt) (gs : list (list (list Z))),
  krun sched (map (ns_thread (keyed_cells_shared query_time_shared_cells)) qs)
    = kserial (map (ns_thread (keyed_cells_shared query_time_shared_cells)) qs) /\
  krun sched (map (agg_emit (keyed_cells_shared query_time_shared_cells)) gs)
    = kserial (map (agg_emit (keyed_cells_shared query_time_shared_cells)) gs).
Proof. intros. apply keyed_cells_isolation. exact C20_inventory_empty. Qed.
Print Assumptions C20_keyed_cells_isolation_of_this_tree.

(* ------------------------------------------------------------------ *)
(* Tie by translation (see harness/PYMINI.md): the premise "a connection shared by threads keeps nothing between or
   during two executions" from the CURRENT source.  Gen/SrcParams.v is regenerated by this check, too (c20.py generate):
   Connection.execute / cursor / parse / compile, the leading `self.<attr> = ...` statements of Connection.__init__ and
   compiler.compile are PyMini terms; Proofs/SrcParams.v proves what they compute (the C09 theorems) and
   Proofs/SrcParamsC20.v draws the corollary below.  For EVERY attribute dictionary [flds] of a connection whose
   `cursor` is the bound method: whenever execute / cursor / parse / compile return, the dictionary afterwards IS the
   one before - no statement text, compiled statement, compiler or cursor is stored on the connection, nothing is
   removed or replaced - execute returns what execute of the cursor made by THIS call returns; a new connection has
   exactly the attributes tables / options / errors (no slot for a cache); compiler.compile makes a new Compiler for
   every compilation.  A statement cache on the connection (seeded C20-m7), a compiler kept on it (C20-m2), a cursor
   kept on it (C10-m2), a busy flag on it (C20-m9) each change one of the generated terms and this obligation no
   longer checks. *)
Import Verif.Base.PyValue Verif.Model.PyMini Verif.Model.PrimsApi Verif.Gen.SrcParams Verif.Proofs.SrcParams Verif.Proofs.SrcParamsC20.
Open Scope string_scope.

Theorem C20_source_no_connection_cache : forall (call_ref : nat -> list pv -> pv) (msg : string -> list pv -> pv)
    (kcur kC kK kN kP kF : nat) (flds : env) (q p dsn ctx st prm : pv),
  PyMini.lookup "cursor" flds = Some (PRef kcur) ->
  ref_of refs "beanquery.cursor.Cursor" = Some kC ->
  ref_of refs "beanquery.compiler.Compiler" = Some kK ->
  ref_of refs "beanquery.tables.NullTable" = Some kN ->
  ref_of refs "beanquery.parser.parse" = Some kP ->
  ref_of refs "beanquery.compiler.compile" = Some kF ->
  (forall flds' r, call_method call_ref (prim_api params_lib msg) connection_execute flds [q; p] = Ok (flds', r) ->
     flds' = flds /\
     exists cur, do_call call_ref (PRef kcur) [] = Ok cur /\ opaque_method msg "call:execute" [cur; q; p] = Ok r) /\
  (forall flds' c, call_method call_ref (prim_api params_lib msg) connection_cursor flds [] = Ok (flds', c) ->
     flds' = flds /\ do_call call_ref (PRef kC) [PSelf] = Ok c) /\
  (forall flds' r, call_method call_ref (prim_api params_lib msg) connection_parse flds [q] = Ok (flds', r) -> flds' = flds) /\
  (forall flds' r, call_method call_ref (prim_api params_lib msg) connection_compile flds [q] = Ok (flds', r) -> flds' = flds) /\
  (forall flds0 r, call_method call_ref (prim_api params_lib msg) connection_init_state [] [dsn] = Ok (flds0, r) ->
     map fst flds0 = ["tables"; "options"; "errors"]) /\
  call_function call_ref (prim_api params_lib msg) compiler_compile_fn [ctx; st; prm] =
    PyMini.bind (do_call call_ref (PRef kK) [ctx]) (fun c => opaque_method msg "call:compile" [c; st; prm]).
Proof. exact no_connection_cache. Qed.
Print Assumptions C20_source_no_connection_cache.

(* Non-vacuity: the numbers of the generated refs table; a connection with three attributes and its bound `cursor`
   method (reference 40), a cursor factory that answers and a cursor whose execute answers: the translated
   Connection.execute returns that answer and the attribute dictionary is the one passed in. *)
Example C20_source_example :
  let flds := [("tables", PNone); ("options", PNone); ("errors", PList []); ("cursor", PRef 40)] in
  let call_ref := fun (k : nat) (args : list pv) => match k with 40%nat => PInt 7 | _ => PNone end in
  let msg := fun (name : string) (args : list pv) =>
    match args with [PV (VInt 7); _; _] => PInt 99 | _ => PNone end in
  ref_of refs "beanquery.cursor.Cursor" = Some 4%nat /\ ref_of refs "beanquery.compiler.Compiler" = Some 2%nat /\
  ref_of refs "beanquery.tables.NullTable" = Some 3%nat /\
  call_method call_ref (prim_api params_lib msg) connection_execute flds [PInt 1; PNone] = Ok (flds, PInt 99) /\
  (exists nt, call_method call_ref (prim_api params_lib msg) connection_init_state [] [PNone] =
     Ok ([("tables", pdict [(PV (VStr []), nt)]); ("options", pdict []); ("errors", PList [])], PNone)).
Proof. repeat split. eexists. reflexivity. Qed.
