(* C11 Ledger tables present the Beancount directives faithfully and completely.
   Statements only; every proof is [exact <lemma>] from Proofs/TablesProofs.v.
   The model (Model/Ledger.v, Model/Tables.v) mirrors query_env.EntriesTable / PostingsTable and
   sources/beancount.py; it is tied to the code by the correspondence run of harness/vf/c11.py and
   by the schema obligation below (every introspected column has its accessor). *)
From Coq Require Import String ZArith List Bool Sorted.
Import ListNotations.
From Verif Require Import Base.PyValue Base.StableSort Base.Decimal Model.Dates Model.Ledger Model.Tables
  Proofs.TablesProofs.
From Verif Require Model.RegistrySnapshot Gen.Registry.
From Verif Require Model.Inventory Model.PrimsEnvLedger Gen.SrcEnvLedger Proofs.SrcEnvLedger.
Open Scope list_scope.
Open Scope Z_scope.

(* ---- rows ---- *)

(* For every ledger: the rows of the postings table, read as (transaction, posting) pairs, are exactly
   the postings of the transactions of the ledger, in ledger order, each with its own transaction;
   directives that are not transactions contribute nothing. *)
Theorem C11_postings_rows : forall l : ledger,
  map (fun r => (pr_entry r, pr_posting r)) (postings_iter l)
  = flat_map (fun e => if is_transaction e then map (pair e) (d_postings e) else []) l.
Proof. exact postings_rows. Qed.
Print Assumptions C11_postings_rows.

Theorem C11_postings_rows_postings : forall l : ledger,
  map pr_posting (postings_iter l) = flat_map d_postings l.
Proof. exact postings_rows_postings. Qed.
Print Assumptions C11_postings_rows_postings.

(* one row per posting: the number of rows is the total number of postings *)
Theorem C11_postings_count : forall l : ledger, length (postings_iter l) = total_postings l.
Proof. exact postings_count. Qed.
Print Assumptions C11_postings_count.

(* every row is well formed: its entry is a transaction of the ledger and its posting is the
   posting of that transaction at the row's position *)
Theorem C11_postings_row_wf : forall (l : ledger) (r : prow), In r (postings_iter l) ->
  In (pr_entry r) l /\ is_transaction (pr_entry r) = true
  /\ nth_error (d_postings (pr_entry r)) (pr_index r) = Some (pr_posting r).
Proof. exact postings_row_wf. Qed.
Print Assumptions C11_postings_row_wf.

(* rowid (the hash of the reused Row context, the cache key of the balance column) is 1, 2, 3, ...:
   strictly increasing, so two rows never share it *)
Theorem C11_rowid_is_position : forall (l : ledger) (i : nat) (r : prow),
  nth_error (postings_iter l) i = Some r -> pr_rowid r = Z.of_nat (S i).
Proof. exact postings_rowid_nth. Qed.
Print Assumptions C11_rowid_is_position.

Theorem C11_rowid_strictly_increasing : forall l : ledger,
  StronglySorted Z.lt (map pr_rowid (postings_iter l)) /\ NoDup (map pr_rowid (postings_iter l)).
Proof. intros l. split; [exact (postings_rowid_increasing l)|exact (postings_rowid_nodup l)]. Qed.
Print Assumptions C11_rowid_strictly_increasing.

(* what the running balance has been given when a row is evaluated (every row evaluated once, in order):
   the postings of the rows up to and including this one *)
Theorem C11_balance_prefix : forall (l : ledger) (r : prow), In r (postings_iter l) ->
  pr_seen r = firstn (Z.to_nat (pr_rowid r)) (flat_map d_postings l).
Proof. exact postings_seen. Qed.
Print Assumptions C11_balance_prefix.

(* entries table: all directives, in order, numbered from 1 *)
Theorem C11_entries_rows : forall l : ledger,
  map er_entry (entries_iter l) = l /\ map er_rowid (entries_iter l) = map Z.of_nat (seq 1 (length l)).
Proof. intros l. split; [exact (entries_rows l)|exact (entries_rowids l)]. Qed.
Print Assumptions C11_entries_rows.

Theorem C11_entries_nth : forall (l : ledger) (i : nat) (e : directive), nth_error l i = Some e ->
  nth_error (entries_iter l) i = Some (mkerow (Z.of_nat (S i)) e).
Proof. exact entries_nth. Qed.
Print Assumptions C11_entries_nth.

(* typed tables (transactions, prices, balances, notes, events, documents): exactly the directives of
   that type, in ledger order *)
Theorem C11_typed_rows : forall (k : dkind) (l : ledger),
  typed_iter k l = filter (fun d => dkind_eqb (d_kind d) k) l
  /\ (forall d, In d (typed_iter k l) <-> In d l /\ d_kind d = k)
  /\ subseq (typed_iter k l) l.
Proof.
  intros k l. split; [exact (typed_iter_filter k l)|]. split; [exact (typed_iter_in k l)|exact (typed_iter_subseq k l)].
Qed.
Print Assumptions C11_typed_rows.

(* the accessors of a typed table are defined (no AttributeError) on every row of that table *)
Theorem C11_typed_columns_defined :
  (forall d, d_kind d = KTransaction -> Forall (fun c => no_attr_error (snd c d)) transactions_columns) /\
  (forall d, d_kind d = KPrice -> Forall (fun c => no_attr_error (snd c d)) prices_columns) /\
  (forall d, d_kind d = KBalance -> Forall (fun c => no_attr_error (snd c d)) balances_columns) /\
  (forall d, d_kind d = KNote -> Forall (fun c => no_attr_error (snd c d)) notes_columns) /\
  (forall d, d_kind d = KEvent -> Forall (fun c => no_attr_error (snd c d)) events_columns) /\
  (forall d, d_kind d = KDocument -> Forall (fun c => no_attr_error (snd c d)) documents_columns) /\
  (forall d, d_kind d = KCommodity -> Forall (fun c => no_attr_error (snd c d)) commodities_columns).
Proof. exact typed_columns_defined. Qed.
Print Assumptions C11_typed_columns_defined.

(* accounts table: one row per account named by an Open or Close directive, in order of first appearance;
   the open (close) column is an Open (Close) directive of the ledger for that account with the earliest
   date, and NULL exactly when the ledger has none *)
Theorem C11_accounts_rows : forall l : ledger,
  NoDup (map ar_account (accounts_iter l))
  /\ (forall a, In a (map ar_account (accounts_iter l)) <-> exists e, In e l /\ is_oc e = true /\ d_account e = a)
  /\ map ar_account (accounts_iter l) = fold_left add_new (map d_account (filter is_oc l)) []
  /\ (forall r, In r (accounts_iter l) ->
        slot_ok KOpen l (ar_account r) (ar_open r) /\ slot_ok KClose l (ar_account r) (ar_close r)).
Proof.
  intros l. split; [exact (accounts_names_nodup l)|]. split; [exact (accounts_names l)|].
  split; [exact (accounts_order l)|exact (accounts_slots l)].
Qed.
Print Assumptions C11_accounts_rows.

(* commodities table: one row per currency having a Commodity directive; the row is the LAST such
   directive of the ledger (dict comprehension) *)
Theorem C11_commodities_rows : forall l : ledger,
  NoDup (map fst (commodities_dict l))
  /\ (forall c, dict_get (commodities_dict l) c = find (is_commodity_of c) (rev l))
  /\ (forall d, In d (commodities_iter l) <-> exists c, find (is_commodity_of c) (rev l) = Some d).
Proof.
  intros l. split; [exact (commodities_keys_nodup l)|]. split; [exact (commodities_get l)|exact (commodities_rows l)].
Qed.
Print Assumptions C11_commodities_rows.

(* ---- columns ---- *)

(* number / currency are the units of the position, cost_number / cost_currency / cost_date / cost_label
   its cost (cost_label is '' without cost) *)
Theorem C11_col_position : forall (r : prow) (u : amount) (c : option cost), pcol_position r = CPosition u c ->
  u = p_units (pr_posting r) /\ c = p_cost (pr_posting r) /\
  pcol_number r = CDec (a_num u) /\ pcol_currency r = CStr (a_cur u) /\
  pcol_cost_number r = opt_cell (fun x => CDec (c_num x)) c /\
  pcol_cost_currency r = opt_cell (fun x => CStr (c_cur x)) c /\
  pcol_cost_date r = opt_cell (fun x => opt_cell CDate (c_date x)) c /\
  pcol_cost_label r = match c with None => CStr [] | Some x => opt_cell CStr (c_label x) end.
Proof.
  intros r u c H. split; [unfold pcol_position in H; congruence|]. split; [unfold pcol_position in H; congruence|].
  exact (position_columns r u c H).
Qed.
Print Assumptions C11_col_position.

(* weight: units x cost when there is a cost, else units x price when there is a price, else the units *)
Theorem C11_col_weight : forall r : prow,
  pcol_weight r = CAmount
    match p_cost (pr_posting r), p_price (pr_posting r) with
    | Some c, _ => mkamount (dec_mul (c_num c) (a_num (p_units (pr_posting r)))) (c_cur c)
    | None, Some pr => mkamount (dec_mul (a_num pr) (a_num (p_units (pr_posting r)))) (a_cur pr)
    | None, None => p_units (pr_posting r)
    end.
Proof. intros r. unfold pcol_weight. rewrite weight_cases. reflexivity. Qed.
Print Assumptions C11_col_weight.

(* other_accounts: sorted, without duplicates, exactly the accounts of the sibling postings *)
Theorem C11_col_other_accounts : forall r : prow,
  exists accts, pcol_other_accounts r = CStrList accts /\ sorted list_le accts /\ NoDup accts /\
    forall a, In a accts <->
      exists i p, i <> pr_index r /\ nth_error (d_postings (pr_entry r)) i = Some p /\ p_account p = a.
Proof. exact other_accounts_spec. Qed.
Print Assumptions C11_col_other_accounts.

(* year / month / day are the calendar parts of the date column (CPython's _ord2ymd, whose agreement
   with the calendar is C18's theorem) *)
Theorem C11_col_date_parts : forall (r : erow) (o : Z), ecol_date r = CDate o ->
  o = d_date (er_entry r) /\
  ecol_year r = CInt (year_of o) /\ ecol_month r = CInt (month_of o) /\ ecol_day r = CInt (day_of o).
Proof.
  intros r o H. split; [unfold ecol_date in H; congruence|]. exact (date_parts_entries r o H).
Qed.
Print Assumptions C11_col_date_parts.

(* on the postings table the transaction-level columns are those of the posting's own transaction *)
Theorem C11_col_transaction_columns : forall (l : ledger) (r : prow), In r (postings_iter l) ->
  pcol_flag r = ecol_flag (as_erow r) /\ pcol_payee r = ecol_payee (as_erow r) /\
  pcol_narration r = ecol_narration (as_erow r) /\ pcol_description r = ecol_description (as_erow r) /\
  pcol_tags r = ecol_tags (as_erow r) /\ pcol_links r = ecol_links (as_erow r) /\
  pcol_entry r = CDirective (pr_entry r) /\ is_transaction (pr_entry r) = true.
Proof. exact postings_entry_columns. Qed.
Print Assumptions C11_col_transaction_columns.

(* on the entries table they are NULL for every directive that is not a transaction *)
Theorem C11_col_non_transaction : forall r : erow, is_transaction (er_entry r) = false ->
  ecol_flag r = CNull /\ ecol_payee r = CNull /\ ecol_narration r = CNull /\ ecol_description r = CNull /\
  ecol_tags r = CNull /\ ecol_links r = CNull.
Proof. exact entries_non_transaction. Qed.
Print Assumptions C11_col_non_transaction.

(* type: the lower-cased class name, distinct for distinct directive types *)
Theorem C11_col_type : forall a b : dkind, kind_name a = kind_name b -> a = b.
Proof. exact kind_name_injective. Qed.
Print Assumptions C11_col_type.

Theorem C11_col_description : forall p n : option str,
  description_of p n =
  match truthy p, truthy n with
  | [a], [b] => a ++ s2z " | " ++ b
  | [a], _ => a
  | _, [b] => b
  | _, _ => []
  end.
Proof. exact description_cases. Qed.
Print Assumptions C11_col_description.

(* ---- metadata lookups ---- *)

(* meta / entry_meta / any_meta: a posting without metadata gives NULL for meta and any_meta (whatever the
   transaction holds); otherwise meta is the posting's dict.get, any_meta the posting's value when the
   posting has the key and the transaction's otherwise; a missing key gives NULL *)
Theorem C11_meta_lookups : forall (r : prow) (k : str),
  (p_meta (pr_posting r) = None -> f_meta r k = CNull /\ f_any_meta r k = CNull) /\
  (forall m, p_meta (pr_posting r) = Some m ->
     f_meta r k = meta_get m k /\
     (forall v, dict_get m k = Some v -> f_any_meta r k = cell_of_mvalue v) /\
     (dict_get m k = None -> f_any_meta r k = f_entry_meta r k)) /\
  f_entry_meta r k = meta_get (d_meta (pr_entry r)) k.
Proof. exact meta_laws. Qed.
Print Assumptions C11_meta_lookups.

Theorem C11_meta_missing_key : forall (m : metadata) (k : str),
  (dict_get m k = None <-> ~ In k (map fst m)) /\ (dict_get m k = None -> meta_get m k = CNull) /\
  (forall v, dict_get m k = Some v -> In (k, v) m /\ meta_get m k = cell_of_mvalue v).
Proof.
  intros m k. split; [exact (dict_get_none m k)|]. split; [exact (meta_get_missing m k)|].
  intros v H. split; [exact (dict_get_in m k v H)|exact (meta_get_present m k v H)].
Qed.
Print Assumptions C11_meta_missing_key.

(* open_meta / open_date: the Open directive the accounts table shows for the account; NULL for an
   account that was never opened *)
Theorem C11_open_meta : forall (l : ledger) (a k : str),
  slot_ok KOpen l a (open_of l a) /\ slot_ok KClose l a (close_of l a) /\
  match open_of l a with
  | None => f_open_meta l a k = CNull /\ f_open_date l a = CNull /\ f_open_meta1 l a = CNull
  | Some d => In d l /\ d_kind d = KOpen /\ d_account d = a /\
              f_open_meta l a k = meta_get (d_meta d) k /\ f_open_date l a = CDate (d_date d) /\
              f_open_meta1 l a = CMeta (d_meta d)
  end.
Proof.
  intros l a k. split; [exact (open_of_spec l a)|]. split; [exact (close_of_spec l a)|exact (open_meta_laws l a k)].
Qed.
Print Assumptions C11_open_meta.

(* commodity_meta: the metadata of the last Commodity directive of the currency; NULL without one *)
Theorem C11_commodity_meta : forall (l : ledger) (c k : str),
  match find (is_commodity_of c) (rev l) with
  | None => f_commodity_meta l c k = CNull /\ f_commodity_meta1 l c = CNull
  | Some d => In d l /\ d_kind d = KCommodity /\ d_currency d = c /\
              f_commodity_meta l c k = meta_get (d_meta d) k /\ f_commodity_meta1 l c = CMeta (d_meta d)
  end.
Proof. exact commodity_meta_laws. Qed.
Print Assumptions C11_commodity_meta.

(* ---- schema obligation ---- *)

(* Every (table, column, datatype) introspected from the code (Model.RegistrySnapshot.tables, tied to the
   live registry by Proofs/RegistryTie.v) has a model accessor of that name and announced type, in the
   same order, and the model has no others: a new, renamed, retyped or reordered column breaks the build. *)
Theorem C11_schema_covered :
  model_schema = map (fun t => (fst (fst t), snd (fst t))) (tl Model.RegistrySnapshot.tables)
  /\ forallb (fun t => match t with
                       | (name, cols, _) =>
                           String.eqb name "" || forallb (fun ct => has_accessor name (fst ct) (snd ct)) cols
                       end) Model.RegistrySnapshot.tables = true.
Proof. split; [exact schema_covered|exact schema_every_column]. Qed.
Print Assumptions C11_schema_covered.

(* the same obligation against the registry introspected from the imported code on this very run
   (Gen/Registry.v, regenerated before every build) *)
Theorem C11_schema_covered_live :
  model_schema = map (fun t => (fst (fst t), snd (fst t))) (tl Gen.Registry.tables)
  /\ forallb (fun t => match t with
                       | (name, cols, _) =>
                           String.eqb name "" || forallb (fun ct => has_accessor name (fst ct) (snd ct)) cols
                       end) Gen.Registry.tables = true.
Proof. split; [exact live_schema_covered|exact live_schema_every_column]. Qed.
Print Assumptions C11_schema_covered_live.

(* ---- non-vacuity ---- *)
Definition ex_meta (n : Z) : metadata := [(s2z "filename", MStr (s2z "x.bean")); (s2z "lineno", MInt n)].
Definition ex_ledger : ledger :=
  [Open (s2z "id1") (ex_meta 1 ++ [(s2z "kk", MStr (s2z "v"))]) 737425 (s2z "Assets:Cash") None None;
   Transaction (s2z "id2") (ex_meta 2 ++ [(s2z "kk", MBool true)]) 737426 (Some (s2z "*")) None (Some (s2z "Lunch"))
     [s2z "food"] []
     [mkposting (s2z "Assets:Cash") (mkamount (mkdec true 1000 (-2)) (s2z "USD")) None None None (Some (ex_meta 3));
      mkposting (s2z "Expenses:Food") (mkamount (mkdec false 2 0) (s2z "HOOL"))
        (Some (mkcost (mkdec false 500 (-2)) (s2z "USD") (Some 737426) None)) None (Some (s2z "!")) None];
   Note (s2z "id3") (ex_meta 5) 737427 (s2z "Assets:Cash") (s2z "hello") None None;
   Transaction (s2z "id4") (ex_meta 6) 737428 (Some (s2z "!")) (Some (s2z "Shop")) (Some []) [] []
     [mkposting (s2z "Assets:Cash") (mkamount (mkdec false 1 0) (s2z "USD")) None None None (Some (ex_meta 7))]].

Example C11_example_rows :
  map pr_rowid (postings_iter ex_ledger) = [1; 2; 3]
  /\ map (fun r => d_id (pr_entry r)) (postings_iter ex_ledger) = [s2z "id2"; s2z "id2"; s2z "id4"]
  /\ map pcol_account (postings_iter ex_ledger)
     = [CStr (s2z "Assets:Cash"); CStr (s2z "Expenses:Food"); CStr (s2z "Assets:Cash")]
  /\ map pcol_other_accounts (postings_iter ex_ledger)
     = [CStrList [s2z "Expenses:Food"]; CStrList [s2z "Assets:Cash"]; CStrList []]
  /\ map pcol_weight (postings_iter ex_ledger)
     = [CAmount (mkamount (mkdec true 1000 (-2)) (s2z "USD")); CAmount (mkamount (mkdec false 1000 (-2)) (s2z "USD"));
        CAmount (mkamount (mkdec false 1 0) (s2z "USD"))]
  /\ map pcol_description (postings_iter ex_ledger) = [CStr (s2z "Lunch"); CStr (s2z "Lunch"); CStr (s2z "Shop")]
  /\ map (fun r => f_any_meta r (s2z "kk")) (postings_iter ex_ledger) = [CBool true; CNull; CNull]
  /\ map (fun r => f_entry_meta r (s2z "kk")) (postings_iter ex_ledger) = [CBool true; CBool true; CNull]
  /\ map ecol_year (entries_iter ex_ledger) = [CInt 2020; CInt 2020; CInt 2020; CInt 2020]
  /\ map ecol_day (entries_iter ex_ledger) = [CInt 1; CInt 2; CInt 3; CInt 4]
  /\ map ecol_type (entries_iter ex_ledger) = map CStr [s2z "open"; s2z "transaction"; s2z "note"; s2z "transaction"]
  /\ length (typed_iter KNote ex_ledger) = 1%nat
  /\ f_open_meta ex_ledger (s2z "Assets:Cash") (s2z "kk") = CStr (s2z "v")
  /\ f_open_meta ex_ledger (s2z "Expenses:Food") (s2z "kk") = CNull.
Proof. vm_compute. repeat split. Qed.

(* ---- announced datatypes ---- *)

(* Every cell of every row of every table belongs to the datatype the column announces (or is NULL),
   for all ledgers -- except the columns whose value is read from the untyped metadata keys filename /
   lineno (filename, lineno, location) and other_accounts, which is announced as a set and is a sorted
   list.  Together with C11_schema_covered: the accessor of each introspected column has the announced type. *)
Theorem C11_cells_have_announced_type : forall l : ledger,
  (forall r, In r (entries_iter l) -> Forall (col_typed r) entries_columns) /\
  (forall r, In r (postings_iter l) -> Forall (col_typed r) postings_columns) /\
  (forall d, In d (typed_iter KTransaction l) -> Forall (col_typed d) transactions_columns) /\
  (forall d, In d (typed_iter KPrice l) -> Forall (col_typed d) prices_columns) /\
  (forall d, In d (typed_iter KBalance l) -> Forall (col_typed d) balances_columns) /\
  (forall d, In d (typed_iter KNote l) -> Forall (col_typed d) notes_columns) /\
  (forall d, In d (typed_iter KEvent l) -> Forall (col_typed d) events_columns) /\
  (forall d, In d (typed_iter KDocument l) -> Forall (col_typed d) documents_columns) /\
  (forall r, In r (accounts_iter l) -> Forall (col_typed r) accounts_columns) /\
  (forall d, In d (commodities_iter l) -> Forall (col_typed d) commodities_columns).
Proof. exact cells_have_announced_type. Qed.
Print Assumptions C11_cells_have_announced_type.

Example C11_other_accounts_is_a_list : forall r, exists l, pcol_other_accounts r = CStrList l.
Proof. intros r. eexists. reflexivity. Qed.

(* ---- tie by translation: the SOURCE of the row iterators (query_env.EntriesTable.__iter__, PostingsTable.__iter__,
   sources.beancount.Table.__iter__) and of Row.__init__, translated into PyMini on every run
   (Gen/SrcLedgerTables.v), computes the model's iterators, for every ledger.
   [enc_directive] / [enc_posting] encode Model/Ledger.v records as objects (Model/PrimsLedger.v);
   a yielded Row context is the object [row_obj rowid entry posting] as it is AT THE YIELD (the generator reuses one
   mutable Row: a consumer that finishes with a row before asking for the next sees exactly this);
   self.prepare() is an opaque callable returning the entries (its own tie is C13_source_prepare). ---- *)
From Verif Require Import Model.PyMini Model.PrimsLedger Gen.SrcLedgerTables Proofs.SrcLedgerTables.

(* Row(entries, options): the class attributes overlaid by what __init__ assigns = the primitive's initial Row *)
Theorem C11_source_row_init : forall (call_ref : nat -> list pv -> pv) (ext : string -> list pv -> PyMini.res pv)
    (es o : pv),
  call_method call_ref (prims_ledger SrcLedgerTables.refs ext) src_row_init row_class_attrs [es; o] = Ok (row0, PNone) /\
  prims_ledger SrcLedgerTables.refs ext ROW [es; o] = Ok (obj ROW row0).
Proof. exact (fun cr ext es o => conj (row_init_src cr ext es o) eq_refl). Qed.
Print Assumptions C11_source_row_init.

Theorem C11_source_entries_iter : forall (call_ref : nat -> list pv -> pv) (ext : string -> list pv -> PyMini.res pv)
    (kp : nat) (o : pv) (l : ledger),
  call_ref kp [] = enc_ledger l ->
  let flds := [("prepare", PRef kp); ("options", o)]%string in
  call_method call_ref (prims_ledger SrcLedgerTables.refs ext) src_entries_iter flds [] =
  Ok (flds, PList (map (fun r => row_obj (er_rowid r) (enc_directive (er_entry r)) PNone) (entries_iter l))).
Proof. exact entries_iter_src. Qed.
Print Assumptions C11_source_entries_iter.

Theorem C11_source_postings_iter : forall (call_ref : nat -> list pv -> pv) (ext : string -> list pv -> PyMini.res pv)
    (kp : nat) (o : pv) (l : ledger),
  call_ref kp [] = enc_ledger l ->
  let flds := [("prepare", PRef kp); ("options", o)]%string in
  call_method call_ref (prims_ledger SrcLedgerTables.refs ext) src_postings_iter flds [] =
  Ok (flds, PList (map (fun r => row_obj (pr_rowid r) (enc_directive (pr_entry r)) (enc_posting (pr_posting r)))
                       (postings_iter l))).
Proof. exact postings_iter_src. Qed.
Print Assumptions C11_source_postings_iter.

(* the typed directive tables: datatype is the class of kind k *)
Theorem C11_source_typed_iter : forall (call_ref : nat -> list pv -> pv) (ext : string -> list pv -> PyMini.res pv)
    (k : dkind) (l : ledger),
  let flds := [("datatype", cls_value (kind_class k)); ("entries", enc_ledger l)]%string in
  call_method call_ref (prims_ledger SrcLedgerTables.refs ext) src_typed_iter flds [] =
  Ok (flds, PList (map enc_directive (typed_iter k l))).
Proof. exact typed_iter_src. Qed.
Print Assumptions C11_source_typed_iter.

(* every table class of sources/beancount.py that iterates with Table.__iter__ (generated census) has one of the
   twelve directive classes as its datatype *)
Theorem C11_source_typed_tables :
  forallb (fun nc => existsb (fun k => String.eqb (snd nc) (kind_class k)) all_kinds) typed_tables = true.
Proof. exact typed_tables_kinds. Qed.
Print Assumptions C11_source_typed_tables.

(* the translated generator run on a two-directive ledger *)
Example C11_source_postings_example :
  let t := Transaction [1] [] 10 None None None [] []
             [mkposting [65] (mkamount (mkdec false 1 0) [85]) None None None None;
              mkposting [66] (mkamount (mkdec true 1 0) [85]) None None None None] in
  let l := [Open [2] [] 5 [65] None None; t] in
  call_method (fun _ _ => enc_ledger l) (prims_ledger SrcLedgerTables.refs (fun _ _ => Stuck)) src_postings_iter
    [("prepare", PRef 7); ("options", PNone)]%string []
  = Ok ([("prepare", PRef 7); ("options", PNone)]%string,
        PList [row_obj 1 (enc_directive t) (enc_posting (mkposting [65] (mkamount (mkdec false 1 0) [85]) None None None None));
               row_obj 2 (enc_directive t) (enc_posting (mkposting [66] (mkamount (mkdec true 1 0) [85]) None None None None))]).
Proof. vm_compute. reflexivity. Qed.

(* ---- tie by translation, group `envledger`: the SOURCE of open_date / close_date / open_meta / commodity_meta
   (= currency_meta) and of the __call__ methods of the two registered getitem classes - what the compiler rewrites
   meta(k), entry_meta(k) and any_meta(k) into - translated into PyMini on every run (Gen/SrcEnvLedger.v), computes the
   metadata lookups of Model/Tables.v, for every ledger, account, currency, key and postings row (Model/PrimsEnvLedger.v;
   proofs in Proofs/SrcEnvLedger.v).  `context.tables['accounts'].accounts` / `['commodities'].commodities` are the
   first parameter; getitem's operands are opaque children evaluated on the row. ---- *)
Import Verif.Model.PrimsEnvLedger Verif.Gen.SrcEnvLedger Verif.Proofs.SrcEnvLedger.

Theorem C11_source_open_date : forall (price : Inventory.currency -> Inventory.currency -> option Z -> option Z) (one : Z) (upper : Inventory.currency -> Inventory.currency) (call_ref : nat -> list pv -> pv), forall l a, call_function call_ref (prim_envledger price one upper) envl_open_date [enc_accounts l; pzstr a] = Ok (enc_cell (f_open_date l a)).
Proof. exact open_date_src. Qed.
Print Assumptions C11_source_open_date.

Theorem C11_source_close_date : forall (price : Inventory.currency -> Inventory.currency -> option Z -> option Z) (one : Z) (upper : Inventory.currency -> Inventory.currency) (call_ref : nat -> list pv -> pv), forall l a, call_function call_ref (prim_envledger price one upper) envl_close_date [enc_accounts l; pzstr a] = Ok (enc_cell (f_close_date l a)).
Proof. exact close_date_src. Qed.
Print Assumptions C11_source_close_date.

Theorem C11_source_open_meta1 : forall (price : Inventory.currency -> Inventory.currency -> option Z -> option Z) (one : Z) (upper : Inventory.currency -> Inventory.currency) (call_ref : nat -> list pv -> pv), forall l a, call_function call_ref (prim_envledger price one upper) envl_open_meta [enc_accounts l; pzstr a; PNone] = Ok (enc_cell (f_open_meta1 l a)).
Proof. exact open_meta1_src. Qed.
Print Assumptions C11_source_open_meta1.

Theorem C11_source_open_meta : forall (price : Inventory.currency -> Inventory.currency -> option Z -> option Z) (one : Z) (upper : Inventory.currency -> Inventory.currency) (call_ref : nat -> list pv -> pv), forall l a k, call_function call_ref (prim_envledger price one upper) envl_open_meta [enc_accounts l; pzstr a; pzstr k] = Ok (enc_cell (f_open_meta l a k)).
Proof. exact open_meta_src. Qed.
Print Assumptions C11_source_open_meta.

Theorem C11_source_commodity_meta1 : forall (price : Inventory.currency -> Inventory.currency -> option Z -> option Z) (one : Z) (upper : Inventory.currency -> Inventory.currency) (call_ref : nat -> list pv -> pv), forall l c, call_function call_ref (prim_envledger price one upper) envl_currency_meta [enc_commodities l; pzstr c; PNone] = Ok (enc_cell (f_commodity_meta1 l c)).
Proof. exact commodity_meta1_src. Qed.
Print Assumptions C11_source_commodity_meta1.

Theorem C11_source_commodity_meta : forall (price : Inventory.currency -> Inventory.currency -> option Z -> option Z) (one : Z) (upper : Inventory.currency -> Inventory.currency) (call_ref : nat -> list pv -> pv), forall l c k, call_function call_ref (prim_envledger price one upper) envl_currency_meta [enc_commodities l; pzstr c; pzstr k] = Ok (enc_cell (f_commodity_meta l c k)).
Proof. exact commodity_meta_src. Qed.
Print Assumptions C11_source_commodity_meta.

Theorem C11_source_getitem2 : forall (price : Inventory.currency -> Inventory.currency -> option Z -> option Z) (one : Z) (upper : Inventory.currency -> Inventory.currency) (call_ref : nat -> list pv -> pv), forall (m : option metadata) k ko kk row, call_ref ko [row] = popt enc_meta m -> call_ref kk [row] = pzstr k -> call_method call_ref (prim_envledger price one upper) envl_getitem2 (getitem_flds [ko; kk]) [row] = Ok (getitem_flds [ko; kk], enc_cell (match m with None => CNull | Some m => meta_get m k end)).
Proof. exact getitem2_src. Qed.
Print Assumptions C11_source_getitem2.

Theorem C11_source_getitem3 : forall (price : Inventory.currency -> Inventory.currency -> option Z -> option Z) (one : Z) (upper : Inventory.currency -> Inventory.currency) (call_ref : nat -> list pv -> pv), forall (m : option metadata) k dv ko kk kd row, call_ref ko [row] = popt enc_meta m -> call_ref kk [row] = pzstr k -> call_ref kd [row] = dv -> (forall e, dv <> PV (VErr e)) -> call_method call_ref (prim_envledger price one upper) envl_getitem3 (getitem_flds [ko; kk; kd]) [row] = Ok (getitem_flds [ko; kk; kd], match m with | None => PNone | Some m => match dict_get m k with Some v => enc_mvalue v | None => dv end end).
Proof. exact getitem3_src. Qed.
Print Assumptions C11_source_getitem3.

Theorem C11_source_meta : forall (price : Inventory.currency -> Inventory.currency -> option Z -> option Z) (one : Z) (upper : Inventory.currency -> Inventory.currency) (call_ref : nat -> list pv -> pv), forall (r : prow) k ko kk row, call_ref ko [row] = popt enc_meta (p_meta (pr_posting r)) -> call_ref kk [row] = pzstr k -> call_method call_ref (prim_envledger price one upper) envl_getitem2 (getitem_flds [ko; kk]) [row] = Ok (getitem_flds [ko; kk], enc_cell (f_meta r k)).
Proof. exact meta_src. Qed.
Print Assumptions C11_source_meta.

Theorem C11_source_entry_meta : forall (price : Inventory.currency -> Inventory.currency -> option Z -> option Z) (one : Z) (upper : Inventory.currency -> Inventory.currency) (call_ref : nat -> list pv -> pv), forall (r : prow) k ko kk row, call_ref ko [row] = enc_meta (d_meta (pr_entry r)) -> call_ref kk [row] = pzstr k -> call_method call_ref (prim_envledger price one upper) envl_getitem2 (getitem_flds [ko; kk]) [row] = Ok (getitem_flds [ko; kk], enc_cell (f_entry_meta r k)).
Proof. exact entry_meta_src. Qed.
Print Assumptions C11_source_entry_meta.

Theorem C11_source_any_meta : forall (price : Inventory.currency -> Inventory.currency -> option Z -> option Z) (one : Z) (upper : Inventory.currency -> Inventory.currency) (call_ref : nat -> list pv -> pv), forall (r : prow) k ko kk kd row, call_ref ko [row] = popt enc_meta (p_meta (pr_posting r)) -> call_ref kk [row] = pzstr k -> call_ref kd [row] = enc_cell (f_entry_meta r k) -> call_method call_ref (prim_envledger price one upper) envl_getitem3 (getitem_flds [ko; kk; kd]) [row] = Ok (getitem_flds [ko; kk; kd], enc_cell (f_any_meta r k)).
Proof. exact any_meta_src. Qed.
Print Assumptions C11_source_any_meta.

(* Non-vacuity: the hypotheses about the operand children are satisfiable; getitem(meta, 'k', <default>) on a posting
   whose metadata lacks the key returns the default, and NULL when the posting has no metadata. *)
Example C11_source_getitem3_example :
  let k := s2z "k" in
  let m : metadata := [(s2z "j", MInt 1)] in
  let cr := fun (mm : option metadata) (n : nat) (_ : list pv) =>
    match n with O => popt enc_meta mm | S O => pzstr k | _ => PInt 7 end in
  call_method (cr (Some m)) (prim_envledger (fun _ _ _ => None) 1 (fun c => c)) envl_getitem3
    (getitem_flds [0%nat; 1%nat; 2%nat]) [PNone] = Ok (getitem_flds [0%nat; 1%nat; 2%nat], PInt 7) /\
  call_method (cr None) (prim_envledger (fun _ _ _ => None) 1 (fun c => c)) envl_getitem3
    (getitem_flds [0%nat; 1%nat; 2%nat]) [PNone] = Ok (getitem_flds [0%nat; 1%nat; 2%nat], PNone).
Proof. split; vm_compute; reflexivity. Qed.
